#!/bin/sh
# convenience: run every claimed check (quick tier) and the self-test
cd /verif
rc=0
for c in $(python3 -c "import json;print(' '.join(x['property_id'] for x in json.load(open('MANIFEST.json'))['checks']))"); do
  python3 sa/check.py $c --tier ${1:-quick} > /tmp/verif_$c.out 2>&1; e=$?
  echo "$c exit=$e $(grep -c KNOWN-FINDING /tmp/verif_$c.out) known  $(tail -1 /tmp/verif_$c.out | cut -c1-100)"
  [ $e -ne 0 ] && rc=1
done
exit $rc
