#!/usr/bin/env python3
"""Renders the DESIGN.md table of one mutation round from two evaluations written by seeded.py --all-checks --json:
the FIRST evaluation (seeded/_eval/round<N>_mutations_first_evaluation.json, checks as committed before the round) and the
evaluation with the current checks, and splices it between the <!-- M<N>TABLE --> markers of DESIGN.md.

usage: table.py <round number> <first_eval.json> <now_eval.json>
"""
import json
import os
import re
import sys

VERIF = os.path.dirname(os.path.dirname(os.path.abspath(__file__)))


def rows(path):
    d = json.load(open(path))
    return {r["id"]: r for r in (d["all_checks_results"] if isinstance(d, dict) else d)}


def main():
    n, first, now = sys.argv[1:4]
    f, w = rows(first), rows(now)
    tag = f"-r{n}-"
    out = ["| seeded change | what it needs to manifest (author's words, shortened) | own check now | other checks | first evaluation |", "|---|---|---|---|---|"]
    for sid in sorted(i for i in w if tag in i):
        meta = json.load(open(os.path.join(VERIF, "seeded", sid, "meta.json")))
        r = w[sid]
        own = r["results"].get(r["property"], {})
        if own.get("exit") == 1:
            o = f"{r['property']} {' '.join(own.get('rules') or [])}".strip()
        elif own.get("exit") == 2:
            o = f"{r['property']} UNDECIDED"
        else:
            o = f"{r['property']} -"
        others = ", ".join(c for c, v in r["results"].items() if v["exit"] == 1 and c != r["property"]) or "-"
        fs = {"CAUGHT": "caught", "caught-by-other": "by other only", "MISSED": "missed"}[f[sid]["status"]] if sid in f else "?"
        needs = re.sub(r"\s+", " ", meta["needs_to_manifest"]).replace("|", "/")[:230]
        out.append(f"| `{sid}` | {needs} | {o} | {others} | {fs} |")
    p = os.path.join(VERIF, "DESIGN.md")
    s = open(p).read()
    a, b = f"<!-- M{n}TABLE -->", f"<!-- /M{n}TABLE -->"
    if a not in s:
        print("\n".join(out))
        return
    s = s[: s.index(a) + len(a)] + "\n" + "\n".join(out) + "\n" + s[s.index(b):]
    open(p, "w").write(s)
    print(f"spliced {len(out) - 2} rows")


if __name__ == "__main__":
    main()
