#!/usr/bin/env python3
"""Runs the checks against every kept seeded change in /verif/seeded/<id>/ (patch.diff + meta.json).

Each patch is applied to a scratch copy of /repo/baize (outside /repo and /verif, removed afterwards);
all claimed checks are run with BAIZE_REPO pointing at the copy. Prints, per seeded change, which
checks raised a VIOLATION (and which rule), and whether the property it was written against caught it.

usage: seeded.py [--id substring] [--all-checks] [--jobs 16] [--json out.json]
"""
from __future__ import annotations

import argparse
import concurrent.futures as cf
import json
import os
import re
import shutil
import subprocess
import sys
import tempfile

HERE = os.path.dirname(os.path.abspath(__file__))
VERIF = os.path.dirname(HERE)


def claimed():
    m = json.load(open(os.path.join(VERIF, "MANIFEST.json")))
    return [c["property_id"] for c in m["checks"]]


def run_one(sid: str, repo: str, checks, all_checks: bool):
    d = os.path.join(VERIF, "seeded", sid)
    meta = json.load(open(os.path.join(d, "meta.json")))
    tmp = tempfile.mkdtemp(prefix="baize_seeded_")
    try:
        shutil.copytree(os.path.join(repo, "baize"), os.path.join(tmp, "baize"), ignore=shutil.ignore_patterns("__pycache__"))
        r = subprocess.run(["patch", "-p1", "-s", "-d", tmp, "-i", os.path.join(d, "patch.diff")], capture_output=True, text=True)
        if r.returncode != 0:
            return sid, meta, {"error": "patch does not apply: " + (r.stdout + r.stderr)[-300:]}
        res = {}
        todo = checks if all_checks else [c for c in checks if c == meta["property"]] or checks
        for c in todo:
            env = dict(os.environ, BAIZE_REPO=tmp, BAIZE_VERIF_OUT=os.path.join(tmp, "_out"))
            pr = subprocess.run([sys.executable, os.path.join(VERIF, "sa", "check.py"), c], capture_output=True, text=True, env=env, timeout=600)
            rules = sorted(set(re.findall(r"\[(R[0-9.]+)\]", pr.stdout)))
            res[c] = {"exit": pr.returncode, "rules": rules, "first": next((l.strip() for l in pr.stdout.splitlines() if "[R" in l), "")[:220]}
        return sid, meta, res
    finally:
        shutil.rmtree(tmp, ignore_errors=True)


def main():
    ap = argparse.ArgumentParser()
    ap.add_argument("--id")
    ap.add_argument("--all-checks", action="store_true")
    ap.add_argument("--jobs", type=int, default=16)
    ap.add_argument("--repo", default="/repo")
    ap.add_argument("--json")
    a = ap.parse_args()
    ids = sorted(x for x in os.listdir(os.path.join(VERIF, "seeded")) if os.path.exists(os.path.join(VERIF, "seeded", x, "meta.json")))
    if a.id:
        ids = [i for i in ids if a.id in i]
    checks = claimed()
    out = []
    with cf.ThreadPoolExecutor(max_workers=a.jobs) as ex:
        for sid, meta, res in ex.map(lambda s: run_one(s, a.repo, checks, a.all_checks), ids):
            if "error" in res:
                print(f"{sid}: ERROR {res['error']}")
                continue
            own = res.get(meta["property"], {})
            caught_own = own.get("exit") == 1
            others = [c for c, v in res.items() if v["exit"] == 1 and c != meta["property"]]
            undec = [c for c, v in res.items() if v["exit"] == 2]
            status = "CAUGHT" if caught_own else ("caught-by-other" if others else "MISSED")
            print(f"{sid:28s} {meta['property']} {status:16s} own={own.get('rules')} others={others} undecided={undec}")
            if caught_own:
                print(f"      {own.get('first')}")
            out.append({"id": sid, "property": meta["property"], "status": status, "results": res})
    n = {s: sum(1 for o in out if o["status"] == s) for s in ("CAUGHT", "caught-by-other", "MISSED")}
    print("seeded:", len(out), n)
    if a.json:
        json.dump(out, open(a.json, "w"), indent=1)


if __name__ == "__main__":
    main()
