#!/usr/bin/env python3
"""Self-test of the checkers, both ways.

Each variant is an edit of a scratch copy of /repo/baize (made under $TMPDIR, outside /repo and
/verif, removed afterwards). `expect`:
  violation  the check must exit 1 and name the given rule
  silent     behaviour-preserving refactor: the check must exit 0 (no new violation, no UNDECIDED)
  fixed      a repair of a known finding: exit 0 and the KNOWN-FINDING line for `finding` disappears
The edited file must still compile. Variants whose `old` text is no longer present are reported
as STALE (the repository moved on), not as failures.

usage: run.py [--prop C08] [--jobs 16] [--id substring]
"""
from __future__ import annotations

import argparse
import concurrent.futures as cf
import importlib
import json
import os
import shutil
import subprocess
import sys
import tempfile

HERE = os.path.dirname(os.path.abspath(__file__))
VERIF = os.path.dirname(HERE)
sys.path.insert(0, VERIF)


def load_variants():
    out = []
    for fn in sorted(os.listdir(os.path.join(HERE, "variants"))):
        if fn.endswith(".py") and not fn.startswith("_"):
            mod = importlib.import_module(f"selftest.variants.{fn[:-3]}")
            for v in mod.VARIANTS:
                v = dict(v)
                v.setdefault("prop", fn[:-3].upper())
                out.append(v)
    return out


def run_variant(v, repo):
    tmp = tempfile.mkdtemp(prefix="baize_selftest_")
    try:
        shutil.copytree(os.path.join(repo, "baize"), os.path.join(tmp, "baize"), ignore=shutil.ignore_patterns("__pycache__"))
        if v.get("base_patch"):
            # start from a kept behaviour-preserving refactoring (refactorings/<id>/patch.diff), then break it
            pf = os.path.join(VERIF, "refactorings", v["base_patch"], "patch.diff")
            r0 = subprocess.run(["patch", "-p1", "-s", "-d", tmp, "-i", pf], capture_output=True, text=True)
            if r0.returncode != 0:
                return v, "STALE", f"refactoring {v['base_patch']} does not apply: {r0.stdout[-300:]}"
        edits = v["edits"] if "edits" in v else [(v["file"], v["old"], v["new"])]
        for file, old, new in edits:
            path = os.path.join(tmp, file)
            src = open(path).read()
            if (src.count(old) < 1) if v.get("all") else (src.count(old) != 1):
                return v, "STALE", f"`old` occurs {src.count(old)} times in {file}"
            src = src.replace(old, new)
            try:
                compile(src, path, "exec")
            except SyntaxError as e:
                return v, "BAD-VARIANT", f"does not compile: {e}"
            open(path, "w").write(src)
        env = dict(os.environ, BAIZE_REPO=tmp, BAIZE_VERIF_OUT=os.path.join(tmp, "_out"))
        if v.get("base_patch") and v["expect"] == "violation":
            # a rule-level test on a refactored layout: does the RULE still find the defect there? The check-level demotion of
            # absence-type findings in restructured functions (check.restructure_precondition) is switched off for it; what the
            # whole check answers on refactored trees is measured by selftest/refactorings.py
            env["BAIZE_STRICT_ABSENCE"] = "1"
        r = subprocess.run([sys.executable, os.path.join(VERIF, "sa", "check.py"), v["prop"], "--tier", "quick"],
                           capture_output=True, text=True, env=env, timeout=300)
        out = r.stdout + r.stderr
        exp = v["expect"]
        if exp == "violation":
            if r.returncode != 1 or "VIOLATION property=" not in out:
                return v, "FAIL", f"expected exit 1 + VIOLATION, got exit {r.returncode}\n{out[-1500:]}"
            if v.get("rule") and f"[{v['rule']}]" not in out:
                return v, "FAIL", f"violation reported but not by rule {v['rule']}\n{out[-1500:]}"
            if v.get("mentions") and v["mentions"] not in out:
                return v, "FAIL", f"report does not name {v['mentions']!r}\n{out[-1500:]}"
            return v, "PASS", ""
        if exp == "silent":
            if r.returncode != 0:
                return v, "FAIL", f"expected exit 0 on a behaviour-preserving variant, got {r.returncode}\n{out[-1500:]}"
            return v, "PASS", ""
        if exp == "nonsilent":
            # a breaking change outside the idiom tables: the check must not pass (VIOLATION or UNDECIDED, never exit 0)
            if r.returncode == 0:
                return v, "FAIL", f"expected a non-zero exit (violation or undecided) on a breaking variant, got 0\n{out[-1500:]}"
            return v, "PASS", ""
        if exp == "undecided":
            # a variant whose behaviour the rules cannot settle (it may well be behaviour-preserving): never a VIOLATION, never a pass
            if r.returncode != 2 or "VIOLATION property=" in out:
                return v, "FAIL", f"expected exit 2 (UNDECIDED) and no VIOLATION line, got exit {r.returncode}\n{out[-1500:]}"
            return v, "PASS", ""
        if exp == "fixed":
            if r.returncode != 0:
                return v, "FAIL", f"expected exit 0 on repaired variant, got {r.returncode}\n{out[-1500:]}"
            if f" {v['finding']} " in out and "KNOWN-FINDING" in out:
                return v, "FAIL", f"KNOWN-FINDING {v['finding']} still printed on the repaired variant\n{out[-1500:]}"
            return v, "PASS", ""
        return v, "BAD-VARIANT", f"unknown expect {exp}"
    finally:
        shutil.rmtree(tmp, ignore_errors=True)


def main():
    ap = argparse.ArgumentParser()
    ap.add_argument("--prop")
    ap.add_argument("--id")
    ap.add_argument("--jobs", type=int, default=16)
    ap.add_argument("--repo", default=os.environ.get("BAIZE_REPO", "/repo"))
    ap.add_argument("--json")
    args = ap.parse_args()
    vs = load_variants()
    if args.prop:
        vs = [v for v in vs if v["prop"] == args.prop.upper()]
    if args.id:
        vs = [v for v in vs if args.id in v["id"]]
    res = []
    with cf.ThreadPoolExecutor(max_workers=args.jobs) as ex:
        for v, status, msg in ex.map(lambda v: run_variant(v, args.repo), vs):
            res.append((v, status, msg))
    bad = 0
    for v, status, msg in res:
        if status != "PASS":
            print(f"{status:11s} {v['prop']} {v['id']} ({v['expect']}): {msg}")
        if status in ("FAIL", "BAD-VARIANT"):
            bad += 1
    n = {s: sum(1 for _, st, _ in res if st == s) for s in ("PASS", "FAIL", "STALE", "BAD-VARIANT")}
    print(f"selftest: {len(res)} variants: {n}")
    if args.json:
        json.dump({"counts": n, "results": [{"prop": v["prop"], "id": v["id"], "expect": v["expect"], "status": s} for v, s, _ in res]}, open(args.json, "w"), indent=1)
    return 1 if bad else 0


if __name__ == "__main__":
    sys.exit(main())
