#!/usr/bin/env python3
"""Self-test of sa/normal.py: each normal form fires on its pattern and - more important - does NOT fire where the rewrite
would change behaviour (loop variable read afterwards, `continue` in a rotated loop, a different priming expression, while/else).
Pure syntax-tree comparison; nothing of the repository is executed.  Exit 0 = all cases as expected."""
import ast
import os
import sys
import textwrap

sys.path.insert(0, os.path.dirname(os.path.dirname(os.path.abspath(__file__))))
from sa.normal import normalise  # noqa: E402

CASES = [
    # (id, source, expected-normalised source or None for "unchanged")
    ("N1 fires", """
def f(self):
    while True:
        if self.closed:
            break
        step()
""", """
def f(self):
    while not self.closed:
        step()
"""),
    ("N1 not with while/else", """
def f(self):
    while True:
        if self.closed:
            break
        step()
    else:
        other()
""", None),
    ("N1 not when the if has an else", """
def f(self):
    while True:
        if self.closed:
            break
        else:
            a()
        step()
""", None),
    ("N2 fires", """
def g(self, f):
    yield from (f.read(n) for n in sizes)
""", """
def g(self, f):
    for n in sizes:
        yield f.read(n)
"""),
    ("N2 not when the variable is used elsewhere", """
def g(self, f):
    n = 3
    yield from (f.read(n) for n in sizes)
    return n
""", None),
    ("N3+N4 comprehension", """
def h(self, key):
    out = []
    for k, v in self._list:
        if k == key:
            out.append(v)
    return out
""", """
def h(self, key):
    out = [v for k, v in self._list if k == key]
    return out
"""),
    ("N3 not when the loop variable is read after the loop", """
def h(self, key):
    out = []
    for k, v in self._list:
        out.append(v)
    return out, k
""", None),
    ("N3 not for two statements in the body", """
def h(self, key):
    out = []
    for k, v in self._list:
        log(k)
        out.append(v)
    return out
""", None),
    ("N4 not when the generator reads the list being built", """
def h(self):
    out = [1]
    out.extend(x for x in src if x not in out)
    return out
""", None),
    ("N5 fires", """
def p(self, key):
    with contextlib.suppress(KeyError):
        del self[key]
""", """
def p(self, key):
    try:
        del self[key]
    except KeyError:
        pass
"""),
    ("N5 not with `as`", """
def p(self, key):
    with contextlib.suppress(KeyError) as cm:
        del self[key]
""", None),
    ("N6 fires", """
def s(self, path):
    return next(((p, e) for p, e in self._routes if path == p), None)
""", """
def s(self, path):
    for p, e in self._routes:
        if path == p:
            return (p, e)
    return None
"""),
    ("N6 not without a default", """
def s(self, path):
    return next(((p, e) for p, e in self._routes if path == p))
""", None),
    ("N7 fires", """
def r(self, body, size):
    chunk = body.read(size)
    while chunk:
        yield chunk
        chunk = body.read(size)
""", """
def r(self, body, size):
    while True:
        chunk = body.read(size)
        if not chunk:
            break
        yield chunk
"""),
    ("N7 not with continue in the body", """
def r(self, body, size):
    chunk = body.read(size)
    while chunk:
        if skip(chunk):
            continue
        yield chunk
        chunk = body.read(size)
""", None),
    ("N7 not with a different priming expression", """
def r(self, body, size):
    chunk = body.read(1)
    while chunk:
        yield chunk
        chunk = body.read(size)
""", None),
]


def main() -> int:
    bad = 0
    for cid, src, want in CASES:
        src = textwrap.dedent(src).strip() + "\n"
        got = ast.unparse(normalise(ast.parse(src)))
        exp = ast.unparse(ast.parse(textwrap.dedent(want).strip() + "\n" if want is not None else src))
        if got != exp:
            bad += 1
            print(f"FAIL {cid}\n--- got\n{got}\n--- expected\n{exp}\n")
        else:
            print(f"ok   {cid}")
    print(f"normal forms: {len(CASES)} cases, {bad} failed")
    return 1 if bad else 0


if __name__ == "__main__":
    sys.exit(main())
