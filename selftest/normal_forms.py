#!/usr/bin/env python3
"""Self-test of sa/normal.py: each normal form fires on its pattern and - more important - does NOT fire where the rewrite
would change behaviour (loop variable read afterwards, `continue` in a rotated loop, a different priming expression, while/else).
Pure syntax-tree comparison; nothing of the repository is executed.  Exit 0 = all cases as expected."""
import ast
import os
import sys
import textwrap

sys.path.insert(0, os.path.dirname(os.path.dirname(os.path.abspath(__file__))))
from sa.normal import normalise  # noqa: E402

CASES = [
    # (id, source, expected-normalised source or None for "unchanged")
    ("N1 fires", """
def f(self):
    while True:
        if self.closed:
            break
        step()
""", """
def f(self):
    while not self.closed:
        step()
"""),
    ("N1 not with while/else", """
def f(self):
    while True:
        if self.closed:
            break
        step()
    else:
        other()
""", None),
    ("N1 not when the if has an else", """
def f(self):
    while True:
        if self.closed:
            break
        else:
            a()
        step()
""", None),
    ("N2 fires", """
def g(self, f):
    yield from (f.read(n) for n in sizes)
""", """
def g(self, f):
    for n in sizes:
        yield f.read(n)
"""),
    ("N2 not when the variable is used elsewhere", """
def g(self, f):
    n = 3
    yield from (f.read(n) for n in sizes)
    return n
""", None),
    ("N3+N4 comprehension", """
def h(self, key):
    out = []
    for k, v in self._list:
        if k == key:
            out.append(v)
    return out
""", """
def h(self, key):
    out = [v for k, v in self._list if k == key]
    return out
"""),
    ("N3 not when the loop variable is read after the loop", """
def h(self, key):
    out = []
    for k, v in self._list:
        out.append(v)
    return out, k
""", None),
    ("N3 not for two statements in the body", """
def h(self, key):
    out = []
    for k, v in self._list:
        log(k)
        out.append(v)
    return out
""", None),
    ("N4 not when the generator reads the list being built", """
def h(self):
    out = [1]
    out.extend(x for x in src if x not in out)
    return out
""", None),
    ("N5 fires", """
def p(self, key):
    with contextlib.suppress(KeyError):
        del self[key]
""", """
def p(self, key):
    try:
        del self[key]
    except KeyError:
        pass
"""),
    ("N5 not with `as`", """
def p(self, key):
    with contextlib.suppress(KeyError) as cm:
        del self[key]
""", None),
    ("N6 fires", """
def s(self, path):
    return next(((p, e) for p, e in self._routes if path == p), None)
""", """
def s(self, path):
    for p, e in self._routes:
        if path == p:
            return (p, e)
    return None
"""),
    ("N6 not without a default", """
def s(self, path):
    return next(((p, e) for p, e in self._routes if path == p))
""", None),
    ("N7 fires", """
def r(self, body, size):
    chunk = body.read(size)
    while chunk:
        yield chunk
        chunk = body.read(size)
""", """
def r(self, body, size):
    while True:
        chunk = body.read(size)
        if not chunk:
            break
        yield chunk
"""),
    ("N7 not with continue in the body", """
def r(self, body, size):
    chunk = body.read(size)
    while chunk:
        if skip(chunk):
            continue
        yield chunk
        chunk = body.read(size)
""", None),
    ("N7 not with a different priming expression", """
def r(self, body, size):
    chunk = body.read(1)
    while chunk:
        yield chunk
        chunk = body.read(size)
""", None),
    ("N11 fires: prologue decorator with (*args, **kwargs) on a method", """
import functools

def _guard(fn):
    @functools.wraps(fn)
    def wrapper(*args, **kwargs):
        check()
        return fn(*args, **kwargs)
    return wrapper

class A:
    @_guard
    def run(self, x):
        return x + 1
""", """
import functools

class A:

    def _undecorated_run(self, x):
        return x + 1

    def run(self, x):
        check()
        return self._undecorated_run(x)
"""),
    ("N11 fires: factory with a constant argument, a prologue local, prefix + generic wrapper signature", """
from functools import wraps

def _named(name):
    message = "in %s" % name

    def decorator(call):
        @wraps(call)
        def guarded(self, scope, *args, **kwargs):
            if scope is None:
                raise RuntimeError(message)
            return call(self, scope, *args, **kwargs)
        return guarded
    return decorator

class R:
    @_named("Router")
    def __call__(self, scope, receive):
        return receive
""", """
from functools import wraps

class R:

    def _undecorated_call(self, scope, receive):
        return receive

    def __call__(self, scope, receive):
        if scope is None:
            raise RuntimeError('in Router')
        return self._undecorated_call(scope, receive)
"""),
    ("N11 not when the wrapper keeps state between calls (nonlocal)", """
import functools

def _once(fn):
    done = False
    @functools.wraps(fn)
    def wrapper(*args, **kwargs):
        nonlocal done
        done = True
        return fn(*args, **kwargs)
    return wrapper

@_once
def f(x):
    return x
""", None),
    ("N11 not when the wrapper hands the function on as a value", """
import functools

def _later(fn):
    @functools.wraps(fn)
    def wrapper(*args, **kwargs):
        return submit(fn, *args, **kwargs)
    return wrapper

@_later
def f(x):
    return x
""", None),
    ("N11 not with two decorators", """
import functools

def _guard(fn):
    @functools.wraps(fn)
    def wrapper(*args, **kwargs):
        check()
        return fn(*args, **kwargs)
    return wrapper

@other
@_guard
def f(x):
    return x
""", None),
    ("N12 fires: a parameterless local contextmanager used by one with", """
import contextlib

def f(self):
    @contextlib.contextmanager
    def closing_it():
        try:
            yield
        finally:
            self.close()
    with closing_it():
        work()
""", """
import contextlib

def f(self):
    try:
        work()
    finally:
        self.close()
"""),
    ("N12 not when the contextmanager is used twice", """
import contextlib

def f(self):
    @contextlib.contextmanager
    def closing_it():
        try:
            yield
        finally:
            self.close()
    with closing_it():
        work()
    with closing_it():
        more()
""", None),
]

# Normal forms that need the call resolver (sa/loader.py, N8-N10): checked on a one-module scratch package.
LOADER_CASES = [
    # (id, module source, function, expected source of that function or None for "unchanged")
    ("N10 fires: filter generator helper in argument position + N4 on list(G)", """
def _without(pairs, key):
    for k, v in pairs:
        if k != key:
            yield (k, v)

def f(self, key, values):
    rebuilt = list(_without(self._list, key))
    rebuilt.extend((key, value) for value in values)
    return rebuilt
""", "f", """
def f(self, key, values):
    rebuilt = [*((_without__k, _without__v) for _without__k, _without__v in self._list if _without__k != key), *((key, value) for value in values)]
    return rebuilt
"""),
    ("N10 not for a helper with two loops", """
def _both(a, b):
    for x in a:
        yield x
    for y in b:
        yield y

def f(self):
    return list(_both(self.p, self.q))
""", "f", None),
    ("N10 not for a call argument with side effects", """
def _each(xs):
    for x in xs:
        yield x

def f(self):
    return list(_each(self.load()))
""", "f", None),
    ("N10 not for a public generator", """
def each(xs):
    for x in xs:
        yield x

def f(self):
    return list(each(self.items))
""", "f", None),
    ("N9 fires: private helper with a tail return at an assignment site", """
def _double(x):
    y = x + x
    return y

def f(a):
    b = _double(a)
    return b
""", "f", """
def f(a):
    _double__y = a + a
    _double__ret = _double__y
    b = _double__ret
    return b
"""),
    ("N9 keeps an alias local when the argument is not an unrebound parameter of the caller", """
def _double(x):
    y = x + x
    return y

def f(a):
    a = a.strip()
    b = _double(a)
    return b
""", "f", """
def f(a):
    a = a.strip()
    _double__x = a
    _double__y = _double__x + _double__x
    _double__ret = _double__y
    b = _double__ret
    return b
"""),
    ("N9 not for a decorated helper", """
import functools

@functools.lru_cache(None)
def _double(x):
    return x + x

def f(a):
    b = _double(a)
    return b
""", "f", None),
]


def loader_cases() -> int:
    import shutil
    import tempfile

    from sa.loader import Program

    bad = 0
    for cid, src, fname, want in LOADER_CASES:
        tmp = tempfile.mkdtemp(prefix="baize_nf_")
        try:
            os.makedirs(os.path.join(tmp, "baize"))
            open(os.path.join(tmp, "baize", "__init__.py"), "w").close()
            with open(os.path.join(tmp, "baize", "m.py"), "w") as fh:
                fh.write(textwrap.dedent(src).strip() + "\n")
            p = Program(tmp)
            got = ast.unparse(p.func(f"baize.m:{fname}").node)
            if want is None:
                tree = ast.parse(textwrap.dedent(src).strip() + "\n")
                want_src = ast.unparse(next(n for n in tree.body if isinstance(n, ast.FunctionDef) and n.name == fname))
            else:
                want_src = ast.unparse(ast.parse(textwrap.dedent(want).strip() + "\n").body[0])
            if got != want_src:
                bad += 1
                print(f"FAIL {cid}\n--- got\n{got}\n--- expected\n{want_src}\n")
            else:
                print(f"ok   {cid}")
        finally:
            shutil.rmtree(tmp, ignore_errors=True)
    return bad


def main() -> int:
    bad = 0
    for cid, src, want in CASES:
        src = textwrap.dedent(src).strip() + "\n"
        got = ast.unparse(normalise(ast.parse(src)))
        exp = ast.unparse(ast.parse(textwrap.dedent(want).strip() + "\n" if want is not None else src))
        if got != exp:
            bad += 1
            print(f"FAIL {cid}\n--- got\n{got}\n--- expected\n{exp}\n")
        else:
            print(f"ok   {cid}")
    bad += loader_cases()
    print(f"normal forms: {len(CASES) + len(LOADER_CASES)} cases, {bad} failed")
    return 1 if bad else 0


if __name__ == "__main__":
    sys.exit(main())
