#!/usr/bin/env python3
"""Verifies a sub-agent's seeded change in its scratch worktree and, if it holds up, stores it under
/verif/seeded/<id>/ (patch.diff, demo.py, meta.json).

Verification (all run here, in the scratch worktree, never in /repo):
  1. clean tree: demo exits 0
  2. patch applies (git apply), package compiles
  3. patched tree: the offline suite still has exactly the baseline's passing tests
  4. patched tree: demo exits non-zero
  5. tree reverted

usage: ingest.py <worktree> <mutN> <property> <slug> "<what it needs to manifest>"
"""
import json
import os
import shutil
import subprocess
import sys
import xml.etree.ElementTree as ET

VERIF = os.path.dirname(os.path.dirname(os.path.abspath(__file__)))
PY = "/venv/bin/python"


def passing(wt):
    x = os.path.join(wt, "_junit.xml")
    subprocess.run([PY, "-m", "pytest", "-q", "-p", "no:cacheprovider", "--timeout=900", "--continue-on-collection-errors", f"--junitxml={x}"],
                   cwd=wt, capture_output=True, text=True)
    out = set()
    for tc in ET.parse(x).getroot().iter("testcase"):
        if not any(ch.tag in ("failure", "error", "skipped") for ch in tc):
            out.add(f"{tc.get('classname')}::{tc.get('name')}")
    os.remove(x)
    return out


def demo(wt, f):
    r = subprocess.run([PY, f], cwd=wt, env=dict(os.environ, PYTHONPATH=wt), capture_output=True, text=True, timeout=300)
    return r.returncode, (r.stdout + r.stderr)[-400:]


def main():
    wt, mut, prop, slug, needs = sys.argv[1:6]
    n = mut.replace("mut", "")
    diff = os.path.join(wt, f"mut{n}.diff")
    dm = f"demo{n}.py"
    base = set(json.load(open("/root/.vp/BASELINE.json"))["stable_pass"])
    subprocess.run(["git", "checkout", "--", "baize"], cwd=wt, check=True)
    rc0, o0 = demo(wt, dm)
    if rc0 != 0:
        print("REJECT: demo fails on the clean tree", o0)
        return 1
    r = subprocess.run(["git", "apply", diff], cwd=wt, capture_output=True, text=True)
    if r.returncode != 0:
        print("REJECT: patch does not apply", r.stderr)
        return 1
    try:
        c = subprocess.run([PY, "-m", "compileall", "-q", "baize"], cwd=wt, capture_output=True, text=True)
        if c.returncode != 0:
            print("REJECT: does not compile", c.stdout[-300:])
            return 1
        p = passing(wt)
        # junit classnames look like tests.test_x ; baseline ids like tests.test_x::name
        if p != base:
            print("REJECT: passing set differs from baseline:", sorted(base - p)[:5], sorted(p - base)[:5])
            return 1
        rc1, o1 = demo(wt, dm)
        if rc1 == 0:
            print("REJECT: demo passes with the change applied")
            return 1
    finally:
        subprocess.run(["git", "checkout", "--", "baize"], cwd=wt, check=True)
    sid = f"{prop}-{slug}"
    d = os.path.join(VERIF, "seeded", sid)
    os.makedirs(d, exist_ok=True)
    shutil.copy(diff, os.path.join(d, "patch.diff"))
    shutil.copy(os.path.join(wt, dm), os.path.join(d, "demo.py"))
    meta = {
        "id": sid, "property": prop, "needs_to_manifest": needs, "author": "independent sub-agent (saw only the property text and a scratch worktree)",
        "verified": {
            "clean_tree_demo_exit": rc0, "patched_demo_exit": rc1, "patched_demo_tail": o1[-200:],
            "patched_suite": f"{len(p)} passed, identical to the 77-test baseline set",
            "commands": ["git apply patch.diff (scratch worktree)", "/venv/bin/python -m pytest -q -p no:cacheprovider --timeout=900 --continue-on-collection-errors --junitxml=...",
                         "PYTHONPATH=<worktree> /venv/bin/python demo.py", "git checkout -- baize"],
        },
    }
    json.dump(meta, open(os.path.join(d, "meta.json"), "w"), indent=1)
    print("KEPT", sid)
    return 0


if __name__ == "__main__":
    sys.exit(main())
