#!/usr/bin/env python3
"""Verifies a sub-agent's behaviour-PRESERVING refactoring in its scratch worktree and, if it holds up, stores it under
/verif/refactorings/<id>/ (patch.diff, same.py, meta.json).

Verification (in the scratch worktree, never in /repo):
  1. patch applies to the clean tree (git apply), package compiles
  2. patched tree: the offline suite still has exactly the baseline's passing tests
  3. patched tree: the agent's differential demonstration (refactored vs original from git) exits 0
  4. tree reverted

usage: ingest_ref.py <worktree> <refN> <property> <slug> "<kind of refactoring>"
"""
import json
import os
import shutil
import subprocess
import sys

sys.path.insert(0, os.path.dirname(os.path.abspath(__file__)))
from ingest import PY, VERIF, passing  # noqa: E402


def main():
    wt, ref, prop, slug, kind = sys.argv[1:6]
    n = ref.replace("ref", "")
    diff = os.path.join(wt, f"ref{n}.diff")
    same = f"same{n}.py"
    base = set(json.load(open("/root/.vp/BASELINE.json"))["stable_pass"])
    subprocess.run(["git", "checkout", "--", "baize"], cwd=wt, check=True)
    r = subprocess.run(["git", "apply", diff], cwd=wt, capture_output=True, text=True)
    if r.returncode != 0:
        print("REJECT: patch does not apply", r.stderr[-300:])
        return 1
    try:
        c = subprocess.run([PY, "-m", "compileall", "-q", "baize"], cwd=wt, capture_output=True, text=True)
        if c.returncode != 0:
            print("REJECT: does not compile", c.stdout[-300:])
            return 1
        p = passing(wt)
        if p != base:
            print("REJECT: passing set differs from baseline:", sorted(base - p)[:5], sorted(p - base)[:5])
            return 1
        try:
            d = subprocess.run([PY, same], cwd=wt, env=dict(os.environ, PYTHONPATH=wt), capture_output=True, text=True, timeout=600)
        except subprocess.TimeoutExpired:
            print("REJECT: differential demonstration timed out")
            return 1
        if d.returncode != 0:
            print("REJECT: differential demonstration fails with the refactoring applied:", (d.stdout + d.stderr)[-300:])
            return 1
    finally:
        subprocess.run(["git", "checkout", "--", "baize"], cwd=wt, check=True)
        subprocess.run("find . -name __pycache__ -type d -prune -exec rm -rf {} +", cwd=wt, shell=True)
    sid = f"{prop}-{slug}"
    out = os.path.join(VERIF, "refactorings", sid)
    os.makedirs(out, exist_ok=True)
    shutil.copy(diff, os.path.join(out, "patch.diff"))
    shutil.copy(os.path.join(wt, same), os.path.join(out, "same.py"))
    head = subprocess.run(["git", "rev-parse", "--short", "HEAD"], cwd=wt, capture_output=True, text=True).stdout.strip()
    meta = {"id": sid, "property": prop, "kind": kind, "base_commit": head,
            "author": "independent sub-agent (saw only the property text and a scratch worktree)",
            "verified": {"patched_suite": f"{len(p)} passed, identical to the 77-test baseline set", "differential_demo_exit": 0}}
    json.dump(meta, open(os.path.join(out, "meta.json"), "w"), indent=1)
    print("KEPT", sid)
    return 0


if __name__ == "__main__":
    sys.exit(main())
