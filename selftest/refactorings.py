#!/usr/bin/env python3
"""Runs ALL checks against every kept behaviour-preserving refactoring in /verif/refactorings/<id>/ (patch applied to a
scratch copy of /repo/baize). Every check must stay silent (exit 0): anything else is a false alarm (exit 1) or an idiom
outside a table (exit 2) on code where the property still holds.

usage: refactorings.py [--id substring] [--jobs 16] [--json out.json]
"""
from __future__ import annotations

import argparse
import concurrent.futures as cf
import json
import os
import re
import shutil
import subprocess
import sys
import tempfile

HERE = os.path.dirname(os.path.abspath(__file__))
VERIF = os.path.dirname(HERE)


def run_one(rid: str, repo: str, checks):
    d = os.path.join(VERIF, "refactorings", rid)
    tmp = tempfile.mkdtemp(prefix="baize_refac_")
    try:
        shutil.copytree(os.path.join(repo, "baize"), os.path.join(tmp, "baize"), ignore=shutil.ignore_patterns("__pycache__"))
        r = subprocess.run(["patch", "-p1", "-s", "-d", tmp, "-i", os.path.join(d, "patch.diff")], capture_output=True, text=True)
        if r.returncode != 0:
            return rid, {"error": "patch does not apply: " + (r.stdout + r.stderr)[-200:]}
        res = {}
        for c in checks:
            env = dict(os.environ, BAIZE_REPO=tmp, BAIZE_VERIF_OUT=os.path.join(tmp, "_out"))
            pr = subprocess.run([sys.executable, os.path.join(VERIF, "sa", "check.py"), c], capture_output=True, text=True, env=env, timeout=600)
            if pr.returncode != 0:
                lines = [l.strip() for l in pr.stdout.splitlines() if "[R" in l or l.startswith(("UNDECIDED", "ANALYSIS-ERROR"))]
                res[c] = {"exit": pr.returncode, "first": lines[:3]}
        return rid, res
    finally:
        shutil.rmtree(tmp, ignore_errors=True)


def main():
    ap = argparse.ArgumentParser()
    ap.add_argument("--id")
    ap.add_argument("--jobs", type=int, default=16)
    ap.add_argument("--repo", default="/repo")
    ap.add_argument("--json")
    ap.add_argument("--check", help="run only this check (e.g. C08)")
    a = ap.parse_args()
    root = os.path.join(VERIF, "refactorings")
    ids = sorted(x for x in os.listdir(root) if os.path.exists(os.path.join(root, x, "meta.json"))) if os.path.isdir(root) else []
    if a.id:
        ids = [i for i in ids if a.id in i]
    checks = [c["property_id"] for c in json.load(open(os.path.join(VERIF, "MANIFEST.json")))["checks"]]
    if a.check:
        checks = [c for c in checks if c == a.check]
    out = {}
    n_bad = 0
    with cf.ThreadPoolExecutor(max_workers=a.jobs) as ex:
        for rid, res in ex.map(lambda s: run_one(s, a.repo, checks), ids):
            out[rid] = res
            if "error" in res:
                print(f"{rid}: ERROR {res['error']}")
            elif not res:
                print(f"{rid}: silent (all {len(checks)} checks)")
            else:
                n_bad += 1
                for c, v in res.items():
                    print(f"{rid}: {c} exit {v['exit']}")
                    for l in v["first"]:
                        print("      " + l[:230])
    print(f"refactorings: {len(ids)} kept, {n_bad} with a non-silent check")
    if a.json:
        json.dump(out, open(a.json, "w"), indent=1)
    return 1 if n_bad else 0


if __name__ == "__main__":
    sys.exit(main())
