#!/usr/bin/env python3
"""Automated behaviour-preserving transformation: rename every local variable of every function of
/repo/baize (consistently, including uses inside nested closures) in a scratch copy and run all checks on it.
Every check must stay silent (exit 0): a rule that keys on a local's *name* is a frozen-text rule.

Further behaviour-preserving transformations (--mode):
  unparse   every file is re-emitted by ast.unparse (formatting, comments, parentheses, quote style, line numbers change)
  flip      every `if c: A else: B` statement with a non-empty else and no elif becomes `if not (c): B else: A`
  all       rename + flip + unparse together

usage: rename_locals.py [--suffix _rn] [--keep] [--mode rename|unparse|flip|all]
"""
from __future__ import annotations

import argparse
import ast
import builtins
import json
import os
import shutil
import subprocess
import sys
import tempfile

HERE = os.path.dirname(os.path.abspath(__file__))
VERIF = os.path.dirname(HERE)


def rename_source(src: str, suffix: str) -> str:
    tree = ast.parse(src)
    module_names = set()

    def top_level(body):
        for n in body:
            if isinstance(n, (ast.FunctionDef, ast.AsyncFunctionDef, ast.ClassDef)):
                module_names.add(n.name)
            elif isinstance(n, (ast.Assign, ast.AnnAssign, ast.AugAssign)):
                tg = n.targets if isinstance(n, ast.Assign) else [n.target]
                for t in tg:
                    for x in ast.walk(t):
                        if isinstance(x, ast.Name):
                            module_names.add(x.id)
            elif isinstance(n, (ast.Import, ast.ImportFrom)):
                for al in n.names:
                    module_names.add((al.asname or al.name).split(".")[0])
            elif isinstance(n, (ast.If, ast.Try)):
                for fld in ("body", "orelse", "finalbody"):
                    top_level(getattr(n, fld, []) or [])
                for h in getattr(n, "handlers", []) or []:
                    top_level(h.body)

    top_level(tree.body)
    edits = []  # (lineno, col, end_col, new)

    def top_functions(body):
        for n in body:
            if isinstance(n, (ast.FunctionDef, ast.AsyncFunctionDef)):
                yield n
            elif isinstance(n, ast.ClassDef):
                yield from top_functions(n.body)
            elif isinstance(n, (ast.If, ast.Try)):
                for fld in ("body", "orelse", "finalbody"):
                    yield from top_functions(getattr(n, fld, []) or [])
                for h in getattr(n, "handlers", []) or []:
                    yield from top_functions(h.body)

    for fn in top_functions(tree.body):
        params = set()
        nested_defs = set()
        declared = set()
        stores = set()
        for n in ast.walk(fn):
            if isinstance(n, (ast.FunctionDef, ast.AsyncFunctionDef, ast.Lambda)):
                a = n.args
                for x in a.posonlyargs + a.args + a.kwonlyargs:
                    params.add(x.arg)
                if a.vararg:
                    params.add(a.vararg.arg)
                if a.kwarg:
                    params.add(a.kwarg.arg)
                if not isinstance(n, ast.Lambda) and n is not fn:
                    nested_defs.add(n.name)
            elif isinstance(n, ast.Global):
                declared.update(n.names)
            elif isinstance(n, ast.Name) and isinstance(n.ctx, (ast.Store, ast.Del)):
                stores.add(n.id)
            elif isinstance(n, ast.ExceptHandler) and n.name:
                stores.add(n.name)
        # comprehension targets are also Store names: fine, renamed consistently
        names = {x for x in stores if x not in params and x not in declared and x not in nested_defs and not hasattr(builtins, x) and x != "_" and x not in module_names}
        for n in ast.walk(fn):
            if isinstance(n, ast.Name) and n.id in names:
                edits.append((n.lineno, n.col_offset, n.end_col_offset, n.id + suffix))
            elif isinstance(n, ast.ExceptHandler) and n.name in names:
                # `except X as name:` - find the name textually on that line
                edits.append(("handler", n, n.name, n.name + suffix))
            elif isinstance(n, ast.Nonlocal):
                for nm in n.names:
                    if nm in names:
                        edits.append(("nonlocal", n, nm, nm + suffix))
    lines = src.split("\n")
    # positional edits first (right to left per line)
    pos = sorted([e for e in edits if isinstance(e[0], int)], key=lambda e: (e[0], -e[1]))
    by_line = {}
    for ln, c0, c1, new in pos:
        by_line.setdefault(ln, []).append((c0, c1, new))
    for ln, lst in by_line.items():
        line = lines[ln - 1]
        b = line.encode("utf-8")
        for c0, c1, new in sorted(lst, key=lambda x: -x[0]):
            b = b[:c0] + new.encode("utf-8") + b[c1:]
        lines[ln - 1] = b.decode("utf-8")
    import re

    for kind, node, old, new in [e for e in edits if not isinstance(e[0], int)]:
        if kind == "handler":
            for ln in range(node.lineno, node.lineno + 3):
                m = re.search(rf"\bas {re.escape(old)}\b", lines[ln - 1])
                if m:
                    lines[ln - 1] = lines[ln - 1][: m.start()] + f"as {new}" + lines[ln - 1][m.end():]
                    break
        else:
            ln = node.lineno
            lines[ln - 1] = re.sub(rf"\b{re.escape(old)}\b", new, lines[ln - 1])
    out = "\n".join(lines)
    compile(out, "<renamed>", "exec")
    return out


class _Flip(ast.NodeTransformer):
    def visit_If(self, node: ast.If):
        self.generic_visit(node)
        if node.orelse and not (len(node.orelse) == 1 and isinstance(node.orelse[0], ast.If)):
            # docstring-like first statements are not an issue inside if bodies
            return ast.copy_location(ast.If(test=ast.UnaryOp(op=ast.Not(), operand=node.test), body=node.orelse, orelse=node.body), node)
        return node


def flip_source(src: str) -> str:
    tree = ast.parse(src)
    tree = ast.fix_missing_locations(_Flip().visit(tree))
    out = ast.unparse(tree)
    compile(out, "<flipped>", "exec")
    return out


def unparse_source(src: str) -> str:
    out = ast.unparse(ast.parse(src))
    compile(out, "<unparsed>", "exec")
    return out


def main():
    ap = argparse.ArgumentParser()
    ap.add_argument("--mode", default="rename", choices=["rename", "unparse", "flip", "all"])
    ap.add_argument("--suffix", default="_rn")
    ap.add_argument("--keep", action="store_true")
    ap.add_argument("--repo", default="/repo")
    ap.add_argument("--check", help="run only this check (e.g. C08)")
    a = ap.parse_args()
    tmp = tempfile.mkdtemp(prefix="baize_rename_")
    try:
        shutil.copytree(os.path.join(a.repo, "baize"), os.path.join(tmp, "baize"), ignore=shutil.ignore_patterns("__pycache__"))
        n = 0
        for dp, dn, fs in os.walk(os.path.join(tmp, "baize")):
            for f in fs:
                if f.endswith(".py"):
                    pth = os.path.join(dp, f)
                    src = open(pth).read()
                    new = src
                    if a.mode in ("rename", "all"):
                        new = rename_source(new, a.suffix)
                    if a.mode in ("flip", "all"):
                        new = flip_source(new)
                    if a.mode in ("unparse", "all"):
                        new = unparse_source(new)
                    if new != src:
                        n += 1
                        open(pth, "w").write(new)
        print(f"mode={a.mode}: transformed {n} files under {tmp}")
        checks = [c["property_id"] for c in json.load(open(os.path.join(VERIF, "MANIFEST.json")))["checks"]]
        if a.check:
            checks = [c for c in checks if c == a.check]
        env = dict(os.environ, BAIZE_REPO=tmp, BAIZE_VERIF_OUT=os.path.join(tmp, "_out"))
        bad = 0
        for c in checks:
            r = subprocess.run([sys.executable, os.path.join(VERIF, "sa", "check.py"), c], capture_output=True, text=True, env=env)
            if r.returncode != 0:
                bad += 1
                print(f"{c}: exit {r.returncode}")
                print("   " + "\n   ".join(l for l in r.stdout.splitlines() if "KNOWN-FINDING" not in l)[:1500])
            else:
                print(f"{c}: silent")
        return 1 if bad else 0
    finally:
        if not a.keep:
            shutil.rmtree(tmp, ignore_errors=True)


if __name__ == "__main__":
    sys.exit(main())
