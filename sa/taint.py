"""Provenance (taint) analysis: "does a value derived from SOURCE reach SINK without having
passed through a SANITISER call?"  Flow-insensitive inside a function (a fixpoint over its
assignments), field-sensitive for `self.attr` (class-wide), inter-procedural through resolved
repository calls with per-call-site argument taint (depth bound stated by the caller).

Taint is a set of *origin strings* (normalised text of the source expressions), so a report
can name the unescaped flows.
"""
from __future__ import annotations

import ast
from typing import Callable, Dict, FrozenSet, List, Optional, Sequence, Set, Tuple

from .loader import ClassInfo, FuncInfo, Program, walk_shallow

Origins = FrozenSet[str]
EMPTY: Origins = frozenset()
IMPRECISE_SPREAD = "~*-spread of a sequence whose elements are not told apart"


class TaintSpec:
    """Configuration of one provenance question."""

    max_depth = 4

    def source(self, fn: FuncInfo, expr: ast.expr) -> Optional[str]:
        """Return an origin label if `expr` (evaluated in fn) is itself a taint source."""
        return None

    def param_source(self, fn: FuncInfo, name: str) -> Optional[str]:
        return None

    def sanitiser(self, fn: FuncInfo, call: ast.Call, resolved) -> bool:
        """True if the result of this call is clean whatever its arguments."""
        return False

    def clean_method(self, name: str) -> bool:
        """Method names whose result does not carry the receiver's text (len-like)."""
        return name in {"start", "end", "span", "__len__", "index", "find", "rfind", "rindex", "count", "startswith", "endswith", "isdigit"}

    def clean_builtin(self, name: str) -> bool:
        return name in {"len", "bool", "isinstance", "hasattr", "id", "hash", "type", "callable", "any", "all"}

    def opaque_call_propagates(self, fn: FuncInfo, call: ast.Call, resolved) -> bool:
        """Unresolved / external calls: does the result carry its arguments' taint?"""
        return True

    def follow(self, fi: FuncInfo) -> bool:
        """Analyse this repository callee inter-procedurally?"""
        return True


class TaintAnalysis:
    def __init__(self, program: Program, spec: TaintSpec) -> None:
        self.p = program
        self.spec = spec
        self._summ: Dict[Tuple[str, Tuple[Origins, ...], Optional[str]], Tuple[Origins, Tuple[Origins, ...]]] = {}
        self._field_cache: Dict[Tuple[str, str], Origins] = {}
        self._in_progress: Set[Tuple[str, str]] = set()
        self._summ_in_progress: Set[Tuple] = set()
        self.functions_seen: Set[str] = set()

    # ---------------------------------------------------------------- fields
    def new_round(self) -> None:
        """Summaries are monotone; values computed inside a recursion cycle are only approximations, so the
        driver repeats rounds until nothing grows (`changed` stays False)."""
        self._round_fields: Set[Tuple[str, str]] = set()
        self._round_summ: Set[Tuple] = set()
        self._ctor_cache = {}
        self._ctor_busy = set()
        self.changed = False

    def field_taint(self, cls: ClassInfo, attr: str) -> Origins:
        key = (cls.fq, attr)
        if not hasattr(self, "_round_fields"):
            self.new_round()
        if key in self._round_fields:
            return self._field_cache.get(key, EMPTY)
        if key in self._in_progress:
            return self._field_cache.get(key, EMPTY)
        self._in_progress.add(key)
        res: Set[str] = set(self._field_cache.get(key, EMPTY))
        try:
            for c in self.p.mro(cls):
                if not isinstance(c, ClassInfo):
                    continue
                for m in c.methods.values():
                    for node in walk_shallow(m.node):
                        tgts: List[Tuple[ast.expr, ast.expr, Optional[int], int]] = []
                        if isinstance(node, ast.Assign):
                            for t in node.targets:
                                tgts.extend(_flatten_target(t, node.value))
                        elif isinstance(node, ast.AnnAssign) and node.value is not None:
                            tgts.extend(_flatten_target(node.target, node.value))
                        elif isinstance(node, ast.AugAssign):
                            tgts.append((node.target, node.value, None, 0))
                        for t, val, idx, n in tgts:
                            if isinstance(t, ast.Attribute) and isinstance(t.value, ast.Name) and t.value.id == "self" and t.attr == attr:
                                env = self.function_env(m, cls, self._ctor_taint(c) if m.name == "__init__" else None)
                                o = self.expr(m, val, env, cls, 0)
                                if idx is not None:
                                    o = self._tuple_elem(m, val, idx, n, env, cls, 0, o)
                                res |= o
        finally:
            self._in_progress.discard(key)
        out = frozenset(res)
        if out != self._field_cache.get(key, EMPTY):
            self.changed = True
        self._field_cache[key] = out
        self._round_fields.add(key)
        return out

    def _ctor_sites(self) -> Dict[str, List[Tuple[FuncInfo, ast.Call]]]:
        if getattr(self, "_ctor_index", None) is None:
            idx: Dict[str, List[Tuple[FuncInfo, ast.Call]]] = {}
            for g in self.p.all_functions():
                for n in ast.walk(g.node):
                    if isinstance(n, ast.Call) and isinstance(n.func, (ast.Name, ast.Attribute)):
                        nm = n.func.id if isinstance(n.func, ast.Name) else n.func.attr
                        if not nm[:1].isupper() and not nm[:2].lstrip("_")[:1].isupper():
                            continue
                        try:
                            r = self.p.resolve_call(g, n)
                        except Exception:
                            r = None
                        if isinstance(r, ClassInfo):
                            idx.setdefault(r.fq, []).append((g, n))
            self._ctor_index = idx
        return self._ctor_index

    def _ctor_taint(self, cls: ClassInfo) -> Dict[str, Origins]:
        """What the instantiation sites of a small value class hand to its __init__: the union over the sites `Cls(args)` found
        in the program (a value object built from client data carries it in its fields). Only for classes that are
        instantiated inside the repository; the request / response classes an application instantiates get their taint from
        the declared sources."""
        if not hasattr(self, "_ctor_cache"):
            self._ctor_cache: Dict[str, Dict[str, Origins]] = {}
            self._ctor_busy: Set[str] = set()
        if cls.fq in self._ctor_cache:
            return self._ctor_cache[cls.fq]
        if cls.fq in self._ctor_busy:
            return {}
        init = self.p.find_method(cls, "__init__")
        out: Dict[str, Origins] = {}
        if init is None:
            return out
        self._ctor_busy.add(cls.fq)
        try:
            for g, call in self._ctor_sites().get(cls.fq, []):
                if any(isinstance(a, ast.Starred) for a in call.args) or any(k.arg is None for k in call.keywords):
                    continue
                env = self.function_env(g, self.p.enclosing_class(g), None, 2)
                sc = self.p.enclosing_class(g)
                for nm, a in zip(init.params[1:], call.args):
                    out[nm] = out.get(nm, EMPTY) | self.expr(g, a, env, sc, 2)
                for k in call.keywords:
                    out[k.arg] = out.get(k.arg, EMPTY) | self.expr(g, k.value, env, sc, 2)
        finally:
            self._ctor_busy.discard(cls.fq)
        self._ctor_cache[cls.fq] = out
        return out

    # ------------------------------------------------------------- functions
    def function_env(self, fn: FuncInfo, self_cls: Optional[ClassInfo] = None,
                     param_taint: Optional[Dict[str, Origins]] = None, depth: int = 0) -> Dict[str, Origins]:
        """Fixpoint of variable taint inside fn."""
        self.functions_seen.add(fn.fq)
        env: Dict[str, Origins] = {}
        for nm in fn.params:
            o = set((param_taint or {}).get(nm, EMPTY))
            lab = self.spec.param_source(fn, nm)
            if lab:
                o.add(lab)
            env[nm] = frozenset(o)
        # closures: free variables take the taint they have in the enclosing function
        if fn.parent is not None and depth < 3:
            outer = self.function_env(fn.parent, self_cls, None, depth + 1)
            for k, v in outer.items():
                env.setdefault(k, v)
        changed = True
        rounds = 0
        while changed and rounds < 20:
            changed = False
            rounds += 1
            for node in walk_shallow(fn.node):
                pairs: List[Tuple[ast.expr, Origins]] = []
                if isinstance(node, ast.Assign):
                    for t in node.targets:
                        for tt, val, idx, n in _flatten_target(t, node.value):
                            o = self.expr(fn, val, env, self_cls, depth)
                            if idx is not None:
                                o = self._tuple_elem(fn, val, idx, n, env, self_cls, depth, o)
                            pairs.append((tt, o))
                elif isinstance(node, ast.AnnAssign) and node.value is not None:
                    pairs.append((node.target, self.expr(fn, node.value, env, self_cls, depth)))
                elif isinstance(node, ast.AugAssign):
                    pairs.append((node.target, self.expr(fn, node.value, env, self_cls, depth)))
                elif isinstance(node, (ast.For, ast.AsyncFor)):
                    o = self.expr(fn, node.iter, env, self_cls, depth)
                    for tt in _names_of(node.target):
                        pairs.append((tt, o))
                elif isinstance(node, ast.comprehension):
                    o = self.expr(fn, node.iter, env, self_cls, depth)
                    for tt in _names_of(node.target):
                        pairs.append((tt, o))
                elif isinstance(node, (ast.With, ast.AsyncWith)):
                    for it in node.items:
                        if it.optional_vars is not None:
                            o = self.expr(fn, it.context_expr, env, self_cls, depth)
                            for tt in _names_of(it.optional_vars):
                                pairs.append((tt, o))
                elif isinstance(node, ast.NamedExpr):
                    pairs.append((node.target, self.expr(fn, node.value, env, self_cls, depth)))
                elif isinstance(node, ast.Call) and isinstance(node.func, ast.Attribute) and isinstance(node.func.value, ast.Name) \
                        and node.func.attr in ("append", "extend", "add", "insert", "update", "setdefault", "appendleft", "write"):
                    # container mutation: the container now carries what was put into it
                    o = EMPTY
                    for a in node.args:
                        o = o | self.expr(fn, a, env, self_cls, depth)
                    for k in node.keywords:
                        o = o | self.expr(fn, k.value, env, self_cls, depth)
                    pairs.append((node.func.value, o))
                if isinstance(node, (ast.Assign, ast.AugAssign)):
                    tg = node.targets if isinstance(node, ast.Assign) else [node.target]
                    for t in tg:
                        if isinstance(t, ast.Subscript) and isinstance(t.value, ast.Name):
                            pairs.append((t.value, self.expr(fn, node.value, env, self_cls, depth)))
                for tt, o in pairs:
                    if isinstance(tt, ast.Name):
                        old = env.get(tt.id, EMPTY)
                        new = old | o
                        if new != old:
                            env[tt.id] = new
                            changed = True
        return env

    def returns(self, fn: FuncInfo, self_cls: Optional[ClassInfo], param_taint: Dict[str, Origins], depth: int) -> Tuple[Origins, Tuple[Origins, ...]]:
        """(taint of the return value, element-wise taint when every return is a tuple literal of one arity)."""
        key = (fn.fq, tuple(param_taint.get(p_, EMPTY) for p_ in fn.params), self_cls.fq if self_cls else None)
        if not hasattr(self, "_round_summ"):
            self.new_round()
        if key in self._round_summ:
            return self._summ[key]
        if key in self._summ_in_progress:
            return self._summ.get(key, (EMPTY, ()))
        self._summ_in_progress.add(key)
        try:
            res = self._returns(fn, self_cls, param_taint, depth)
        finally:
            self._summ_in_progress.discard(key)
        old = self._summ.get(key)
        if old is not None:
            tot = old[0] | res[0]
            el = tuple(a | b for a, b in zip(old[1], res[1])) if len(old[1]) == len(res[1]) else res[1]
            res = (tot, el)
        if res != old:
            self.changed = True
        self._summ[key] = res
        self._round_summ.add(key)
        return res

    def _returns(self, fn: FuncInfo, self_cls: Optional[ClassInfo], param_taint: Dict[str, Origins], depth: int) -> Tuple[Origins, Tuple[Origins, ...]]:
        env = self.function_env(fn, self_cls, param_taint, depth)
        total: Set[str] = set()
        elems: Optional[List[Set[str]]] = None
        uniform = True
        for node in walk_shallow(fn.node):
            vals: List[ast.expr] = []
            if isinstance(node, ast.Return) and node.value is not None:
                vals.append(node.value)
            elif isinstance(node, ast.Yield) and node.value is not None:
                vals.append(node.value)
            elif isinstance(node, ast.YieldFrom):
                vals.append(node.value)
            for v in vals:
                o = self.expr(fn, v, env, self_cls, depth)
                total |= o
                if isinstance(v, ast.Tuple) and not any(isinstance(e, ast.Starred) for e in v.elts):
                    if elems is None:
                        elems = [set() for _ in v.elts]
                    if len(elems) != len(v.elts):
                        uniform = False
                    else:
                        for i, e in enumerate(v.elts):
                            elems[i] |= self.expr(fn, e, env, self_cls, depth)
                else:
                    uniform = False
        return (frozenset(total), tuple(frozenset(e) for e in elems) if (elems is not None and uniform) else ())

    def _tuple_elem(self, fn, val: ast.expr, idx: int, n: int, env, self_cls, depth, whole: Origins) -> Origins:
        """Taint of element idx when unpacking `val` into n targets."""
        if isinstance(val, ast.Await):
            val = val.value
        if isinstance(val, ast.Call):
            r = self.p.resolve_call(fn, val, self_cls)
            if isinstance(r, FuncInfo) and self.spec.follow(r) and depth < self.spec.max_depth and not self.spec.sanitiser(fn, val, r):
                pt = self._bind(fn, val, r, env, self_cls, depth)
                tot, elems = self.returns(r, self._callee_cls(r, self_cls), pt, depth + 1)
                if elems and len(elems) == n:
                    return elems[idx]
        if isinstance(val, ast.Name):
            # a local that only ever holds tuple displays of this arity (`ret = (a, b, c)` ... `x, y, z = ret`): element-wise
            from .common import sole_defs
            ds = sole_defs(fn, val.id)
            ds = [d for d in (ds or []) if not (isinstance(d, ast.Constant) and d.value is None)]  # the `= None` before a one-pass loop
            if ds and all(isinstance(d, ast.Tuple) and len(d.elts) == n and not any(isinstance(e, ast.Starred) for e in d.elts) for d in ds):
                out: Origins = EMPTY
                for d in ds:
                    out = out | self.expr(fn, d.elts[idx], env, self_cls, depth)
                return out
        return whole

    def _callee_cls(self, r: FuncInfo, self_cls: Optional[ClassInfo]) -> Optional[ClassInfo]:
        if r.cls is not None and self_cls is not None and r.cls in self.p.mro(self_cls):
            return self_cls
        return r.cls

    def _bind(self, fn: FuncInfo, call: ast.Call, callee: FuncInfo, env, self_cls, depth) -> Dict[str, Origins]:
        params = list(callee.params)
        is_method = callee.cls is not None and callee.parent is None and "staticmethod" not in callee.decorators
        pt: Dict[str, Origins] = {}
        if is_method and params:
            recv_taint = EMPTY
            if isinstance(call.func, ast.Attribute):
                recv_taint = self.expr(fn, call.func.value, env, self_cls, depth) if not (isinstance(call.func.value, ast.Name) and call.func.value.id in ("self", "cls")) else EMPTY
            pt[params[0]] = recv_taint
            params = params[1:]
        args: List[Tuple[Optional[ast.expr], Origins]] = []
        spread: Origins = EMPTY
        for a in call.args:
            if isinstance(a, ast.Starred):
                el = self._star_elements(fn, a.value)
                if el is not None:
                    # *t where t is only ever a tuple display / a NamedTuple(...) of the same length: element-wise
                    for col in zip(*el):
                        o: Origins = EMPTY
                        for x in col:
                            o = o | self.expr(fn, x, env, self_cls, depth)
                        args.append((None, o))
                else:
                    sp_ = self.expr(fn, a.value, env, self_cls, depth)  # unknown length: reaches every later parameter
                    if sp_:
                        # which element carries the taint is not known: findings that rest on it are not positive findings
                        sp_ = sp_ | frozenset([IMPRECISE_SPREAD])
                    spread = spread | sp_
                    break
            else:
                args.append((a, self.expr(fn, a, env, self_cls, depth)))
        for nm, (_a, o) in zip(params, args):
            pt[nm] = o
        if spread:
            for nm in params[len(args):]:
                pt[nm] = pt.get(nm, EMPTY) | spread
        for k in call.keywords:
            if k.arg:
                pt[k.arg] = self.expr(fn, k.value, env, self_cls, depth)
            else:
                o = self.expr(fn, k.value, env, self_cls, depth)
                if o:
                    for nm in params:
                        if nm not in pt:
                            pt[nm] = o
        return pt

    def _star_elements(self, fn: FuncInfo, e: ast.expr) -> Optional[List[List[ast.expr]]]:
        from .common import defs_of
        try:
            ds = defs_of(fn, e, 4)
        except Exception:
            return None
        out: List[List[ast.expr]] = []
        for d in ds:
            if isinstance(d, ast.Constant) and d.value is None:
                continue  # (`t = None` before the branches that build it: *None is never evaluated)
            if isinstance(d, (ast.Tuple, ast.List)) and not any(isinstance(x, ast.Starred) for x in d.elts):
                out.append(list(d.elts))
            elif isinstance(d, ast.Call) and not d.keywords and not any(isinstance(x, ast.Starred) for x in d.args):
                try:
                    r = self.p.resolve_call(fn, d)
                except Exception:
                    r = None
                if isinstance(r, ClassInfo) and any(ast.unparse(b).split(".")[-1] == "NamedTuple" for b in r.base_exprs) and len(d.args) == len(r.ann):
                    out.append(list(d.args))
                else:
                    return None
            else:
                return None
        if not out or len({len(x) for x in out}) != 1:
            return None
        return out

    # ------------------------------------------------------------ expressions
    def expr(self, fn: FuncInfo, e: Optional[ast.AST], env: Dict[str, Origins], self_cls: Optional[ClassInfo] = None, depth: int = 0) -> Origins:
        if e is None:
            return EMPTY
        lab = self.spec.source(fn, e) if isinstance(e, ast.expr) else None
        if lab:
            from .common import alpha_locals

            return frozenset([alpha_locals(fn, lab)])
        rec = lambda x: self.expr(fn, x, env, self_cls, depth)  # noqa: E731
        if isinstance(e, ast.Constant):
            return EMPTY
        if isinstance(e, ast.Name):
            return env.get(e.id, EMPTY)
        if isinstance(e, ast.Attribute):
            if isinstance(e.value, ast.Name) and e.value.id == "self":
                cls = self_cls or self.p.enclosing_class(fn)
                if cls is not None:
                    ft = self.field_taint(cls, e.attr)
                    m = self.p.find_method(cls, e.attr)
                    if m is not None and any(d.endswith("property") for d in m.decorators) and depth < self.spec.max_depth and self.spec.follow(m):
                        tot, _ = self.returns(m, cls, {}, depth + 1)
                        ft = ft | tot
                    return ft
                return EMPTY
            return rec(e.value)
        if isinstance(e, ast.Await):
            return rec(e.value)
        if isinstance(e, ast.Call):
            return self._call(fn, e, env, self_cls, depth)
        if isinstance(e, ast.Subscript):
            return rec(e.value)
        if isinstance(e, ast.BinOp):
            return rec(e.left) | rec(e.right)
        if isinstance(e, ast.UnaryOp):
            return EMPTY if isinstance(e.op, ast.Not) else rec(e.operand)
        if isinstance(e, ast.BoolOp):
            o: Set[str] = set()
            for v in e.values:
                o |= rec(v)
            return frozenset(o)
        if isinstance(e, ast.Compare):
            return EMPTY
        if isinstance(e, ast.IfExp):
            return rec(e.body) | rec(e.orelse)
        if isinstance(e, ast.JoinedStr):
            o = set()
            for v in e.values:
                if isinstance(v, ast.FormattedValue):
                    o |= rec(v.value)
            return frozenset(o)
        if isinstance(e, ast.FormattedValue):
            return rec(e.value)
        if isinstance(e, (ast.Tuple, ast.List, ast.Set)):
            o = set()
            for v in e.elts:
                o |= rec(v)
            return frozenset(o)
        if isinstance(e, ast.Starred):
            return rec(e.value)
        if isinstance(e, ast.Dict):
            o = set()
            for k, v in zip(e.keys, e.values):
                if k is not None:
                    o |= rec(k)
                o |= rec(v)
            return frozenset(o)
        if isinstance(e, (ast.ListComp, ast.SetComp, ast.GeneratorExp, ast.DictComp)):
            env2 = dict(env)
            for g in e.generators:
                o_it = self.expr(fn, g.iter, env2, self_cls, depth)
                for tt in _names_of(g.target):
                    if isinstance(tt, ast.Name):
                        env2[tt.id] = env2.get(tt.id, EMPTY) | o_it
            if isinstance(e, ast.DictComp):
                return self.expr(fn, e.key, env2, self_cls, depth) | self.expr(fn, e.value, env2, self_cls, depth)
            return self.expr(fn, e.elt, env2, self_cls, depth)
        if isinstance(e, ast.Lambda):
            return rec(e.body)
        if isinstance(e, ast.NamedExpr):
            return rec(e.value)
        if isinstance(e, (ast.Yield,)):
            return EMPTY
        if isinstance(e, ast.Slice):
            return EMPTY
        return EMPTY

    def _call(self, fn: FuncInfo, call: ast.Call, env, self_cls, depth) -> Origins:
        r = self.p.resolve_call(fn, call, self_cls)
        if self.spec.sanitiser(fn, call, r):
            return EMPTY
        rec = lambda x: self.expr(fn, x, env, self_cls, depth)  # noqa: E731
        args_t: Set[str] = set()
        for a in call.args:
            args_t |= rec(a)
        for k in call.keywords:
            args_t |= rec(k.value)
        if isinstance(r, FuncInfo) and self.spec.follow(r):
            if depth >= self.spec.max_depth:
                return frozenset(args_t)
            pt = self._bind(fn, call, r, env, self_cls, depth)
            tot, _ = self.returns(r, self._callee_cls(r, self_cls), pt, depth + 1)
            # object taint: a value object built from client data (`_C(client data)`, field-insensitively tainted) gives client
            # data back from its methods; the per-class field summaries do not see the constructor's arguments
            if isinstance(call.func, ast.Attribute) and r.cls is not None and not self.spec.clean_method(call.func.attr):
                rv = call.func.value
                is_self = isinstance(rv, ast.Name) and rv.id in ("self", "cls")
                is_super = isinstance(rv, ast.Call) and isinstance(rv.func, ast.Name) and rv.func.id == "super"
                if not is_self and not is_super:
                    tot = tot | rec(rv)
            return tot
        if isinstance(r, ClassInfo):
            return frozenset(args_t)
        if isinstance(r, tuple) and r[0] == "builtin" and self.spec.clean_builtin(r[1]):
            return EMPTY
        if isinstance(call.func, ast.Attribute):
            if self.spec.clean_method(call.func.attr):
                return EMPTY
            recv_t = rec(call.func.value)
            if self.spec.opaque_call_propagates(fn, call, r):
                return frozenset(recv_t | args_t)
            return EMPTY
        if self.spec.opaque_call_propagates(fn, call, r):
            return frozenset(args_t)
        return EMPTY


def _names_of(t: ast.expr) -> List[ast.expr]:
    if isinstance(t, (ast.Tuple, ast.List)):
        out: List[ast.expr] = []
        for e in t.elts:
            out.extend(_names_of(e.value if isinstance(e, ast.Starred) else e))
        return out
    return [t]


def _flatten_target(t: ast.expr, val: ast.expr) -> List[Tuple[ast.expr, ast.expr, Optional[int], int]]:
    """[(target, value expr, tuple index or None, arity)]"""
    if isinstance(t, (ast.Tuple, ast.List)):
        n = len(t.elts)
        if isinstance(val, (ast.Tuple, ast.List)) and len(val.elts) == n and not any(isinstance(e, ast.Starred) for e in list(t.elts) + list(val.elts)):
            out = []
            for a, b in zip(t.elts, val.elts):
                out.extend(_flatten_target(a, b))
            return out
        out = []
        for i, a in enumerate(t.elts):
            if isinstance(a, ast.Starred):
                a = a.value
            for tt in _names_of(a):
                out.append((tt, val, i, n))
        return out
    return [(t, val, None, 0)]
