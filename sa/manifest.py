#!/usr/bin/env python3
"""Generates /verif/MANIFEST.json from the registry below (single source of truth)."""
from __future__ import annotations

import json
import os

VERIF = os.path.dirname(os.path.dirname(os.path.abspath(__file__)))

CLAIMS = {
    "C08": dict(
        technique="static analysis: regex->DFA language equality with witnesses, taint/provenance to re.compile, path-sensitive AST dataflow of search()/Router.__call__",
        text="Decides for ALL strings whether each convertor regex denotes exactly the language the statement gives its type (automaton product, exact on the supported regex subset), that the route pattern is anchored with fullmatch and compiled flag-free, that literal route text is escaped before compilation (provenance), that search() returns the first truthy match in declaration order with a None->404 fallback on every path, that the path-parameter hand-off keys agree, and that to_python cannot raise on its own language unguarded. The value-level equality of the round trip rests on the frozen facts about the formatters. Since round 2 the to_string half IS decided as a language problem: the regular language of everything to_string can return for values in the image of to_python (frozen renderings of the stdlib formatters, DFA images of rstrip/lstrip/lower/upper, membership tests of the path) is included in the placeholder's language, zeros are stripped only from texts that all contain a '.', to_python applies the constructor the formatter inverts (this found and repaired F27), the date convertor slices the digit runs of its regex, and search()/matches() are not memoised. request.path_params returns the stored mapping unchanged.",
        note="Trusted: CPython re semantics for the supported regex subset; alphabet is Latin-1 plus Unicode class representatives; stdlib constructor domains (int limit, date validity, Decimal/UUID grammar) are a frozen fact table.",
        ref="DESIGN.md section 3, C08",
    ),
    "C09": dict(
        technique="static analysis: path-sensitive AST dataflow; symbolic rewrite algebra on reaching-definition trees; idiom table for segment-aware prefix tests",
        text="All clauses of C09 are structural and are decided on every path of the eight functions involved: the prefix test is segment-aware (path == prefix or path.startswith(prefix + '/')), the table is searched in declaration order with a None fallback, the match branch stores root' = root + P and path' = path[len(P):] with the same P and the same searched path (so root'+path' = root+path symbolically, which composes for nested mounts), the no-match branch stores nothing before Response(404), hosts use fullmatch in table order with a 404 fallback. The host searched on WSGI is computed from HTTP_HOST alone.",
        note="Trusted: str.startswith/slicing semantics; an acceptance test written in an idiom outside the table is reported as a violation only for the bare-startswith anti-idiom, otherwise as an unmatched acceptance path.",
        ref="DESIGN.md section 3, C09",
    ),
    "C13": dict(
        technique="static analysis: who-may-write scan + path-fact dominance of the header store, exhaustive check of the folded cookie escape table over 0-255, provenance of the Location header, source scan of list_headers",
        text="Decides on the code's shape, for all strings and all mutation sequences: the only store into the header mapping's backing dict is in __setitem__ and every path to it has rejected CR, LF and NUL in both key and value (append/update/setdefault funnel through it; nothing outside the class touches the dict); for every code point 0-255 the cookie escaper emits either a safe single character, an escape pair or a 3-digit octal escape and never a raw ';', CR, LF, NUL, quote or backslash, and both name and value pass it; the redirect target passes iri_to_uri = quote(iri, safe=S) with S free of CR LF NUL SP; list_headers emits only the checked mapping and Cookie objects. The Location provenance rule covers every path of both RedirectResponse constructors. Every Location header written anywhere in the package passes iri_to_uri. Cookie.__bytes__ encodes with the strict error handler (a substituting handler writes text after the escaper ran).",
        note="Trusted: typing.MutableMapping mixins route through __setitem__/__delitem__; urllib.parse.quote contract. The constructor path MutableHeaders(headers) is unchecked by the code and outside the statement's quantifier (recorded as an observation).",
        ref="DESIGN.md section 3, C13",
    ),
    "C16": dict(
        technique="static analysis: writer/reader table agreement enumerated over 0-255 on folded constants + reader structure extracted from the AST; API-provenance rule for UTC datetimes; argument pass-through on all paths of set_cookie",
        text="Decides the per-character clause exactly (for every code point 0-255: what the writer emits is ASCII, contains no separator the reader splits on, and is inverted by the reader's unquoting; raw-path and empty-value side conditions), the Expires provenance (the datetime formatted with a literal GMT is UTC-aware and equals time.time()+expires), Max-Age pass-through and delete_cookie constants. Does not decide multi-cookie header interplay beyond the separator argument. Also: Cookie.__init__ keeps every argument as given and __str__ formats self.expires (the link between set_cookie's UTC datetime and the GMT label); the unquoted-path guard may be a disjunction of regex predicates and charwise str predicates, each evaluated per code point. Headers.__init__ stores every header value as given. The request's header mapping is built from the gateway's header values unchanged (WSGI: the environ value; ASGI: its Latin-1 decoding); Cookie.__bytes__ is the strict ASCII/Latin-1 encoding of str(self).",
        note="Trusted: http.cookies._unquote contract (re-stated in the checker), str.strip/split semantics, strftime %a/%b under the C locale.",
        ref="DESIGN.md section 3, C16",
    ),
    "C05": dict(
        technique="static analysis: typestate (protocol automaton) in product with a path-sensitive AST dataflow of every response __call__, helpers and closures inlined; header-name provenance; constant scans; taint of file-name text",
        text="For every concrete response class (9 ASGI, 9 WSGI, found from the class table) the emit sequence is checked against the gateway grammar on ALL paths of __call__ with handle_*, render_stream and the sendfile closures inlined: ASGI start, body*(more_body true), one final body, nothing after, every normal exit after the final body and every exceptional exit a legal prefix; WSGI start_response exactly once before the first body, 'NNN reason' status from the table with its unknown-code fallback, header list from list_headers or the range-exception constants, every yielded expression bytes-typed. Also decided: lower-case byte header names on every ASGI start (incl. the 416 error path), no hop-by-hop header constant on WSGI paths, file-name text percent-encoded before it enters a header (known finding F9). Not decided: user-supplied header values and iterables (trusted by annotation). The Location header of both RedirectResponse constructors is iri_to_uri(str(url)) on every path. No handler of the OSError family or broader around a call that was handed the emit channel may lead to another emission (second response start). Every WSGI adapter of the package hands the iterable returned by app(environ, start_response) on (returned, yielded from or passed on) on every path.",
        note="A send()/start_response call that raises is modelled as not having delivered its event. more_body must be a decidable constant on each path (otherwise UNDECIDED). Inlining bound 5.",
        ref="DESIGN.md section 3, C05",
    ),
    "C11": dict(
        technique="static extraction of the wrapper's guarded transition system from the AST (all paths, send/receive inlined) + exhaustive exploration of its finite product with the ASGI application-side grammar and the server script grammar",
        text="The two state machines of the WebSocket wrapper are recovered from the source (every path of every public method with its guards over client_state / application_state / message types, its ordered raw-channel uses and state stores, and its exit) and the finite product with the ASGI WebSocket application grammar (accept|close first, send only between, nothing after close) and the server script grammar (connect, frames, disconnect) is explored exhaustively over all 11 operations in all reachable states: nothing the grammar rejects is ever forwarded, a rejected call forwards nothing, no raw receive after the disconnect was delivered, states only move forward and mirror what was actually sent/received, close is idempotent, each receive returns the event of its own single raw receive. Also: only send()/receive() touch the raw channels, websocket_session hands out only the wrapper, the denial response closes exactly once / maps exactly the two HTTP events. A function that builds the wrapper does not use the raw send/receive in that branch; because ws_send rewrites its argument in place, every message the HTTP response helpers hand to send() is a dict built for that call. The receive wrapper of the denial response returns a message of type http.disconnect after a websocket.disconnect (dict displays read left to right).",
        note="The model is extracted from /repo on every run, not hand-written. Guards are asserts (python -O removes them; outside the quantifier). Server scripts are well-formed (the quantifier's). traces_validated_against_impl is 0 by construction: nothing is executed.",
        ref="DESIGN.md section 3, C11",
    ),
    "C12": dict(
        technique="static analysis: inter-procedural exception-escape analysis (may-raise sets minus enclosing handlers, real class hierarchy) driven by client-data provenance and a frozen, hand-confirmed stdlib fact table; fixpoint over recursive summaries",
        text="From 61 client-facing entry points (request accessors on both interfaces, JSON/form parsing, multipart decoder and helpers, range parsing, routing, static-file apps, URL construction) the check computes which (exception class, raising construct) can propagate out: explicit raises whose guard depends on client data, and fact-table operations (decode/encode/int/float/Decimal/date/urlsplit/os.stat/json.loads/parsedate/split-unpacking/constant-table lookup) whose operand is client-derived; calls, constructors, properties, cached properties, local objects and abstract-method overrides are followed. Only 4xx HTTP exceptions (status folded from the constructors), ClientDisconnect and the documented RuntimeErrors may escape. A report is a real escape (11 constructs are listed known findings F14-F18, three were repaired); misses are possible for stdlib behaviours outside the table. Fact table extended in round 2: astimezone/timestamp/utctimetuple of a client-built datetime (OverflowError), parse_qsl/parse_qs with max_num_fields or strict_parsing (ValueError); the gateway-key exemption is decided by provenance.",
        note="Trusted: the fact table (each line reproduced once by hand), server-provided gateway keys, builtin exception hierarchy. Path-insensitive inside a function: three confirmed-infeasible reports are suppressed by name with a reason. Asserts are not counted.",
        ref="DESIGN.md section 3, C12",
    ),
    "C04": dict(
        technique="static analysis: sibling cross-check - pairing table over both packages, normalised-AST equality (async/await removed, gateway vocabulary mapped, locals alpha-renamed) and multiset comparison of effect fingerprints with an explicit sanctioned-difference table",
        text="Agreement between two hand-copied implementations is a property of the program text, so it is decided for all inputs and programs at once: 62 sibling pairs (every definition of baize.wsgi.* with its baize.asgi.* namesake, renamed nested definitions, parse_stream/parse_async_stream, UploadFile/FormData sync-async twins) are compared - 28 are equal after normalisation, 34 are compared on effect fingerprints (parameters and defaults, decorators, constants, header writes with key/value/guard, request-mapping stores, attribute stores, raises, calls into shared code with arguments and lexical guard). Every difference must match a sanctioned gateway difference (one regex + one reason each), the Connection header of the event-stream response being the statement's own exception. Also: public-name pairing, one-sided definitions, class attributes and bases, no one-sided override of shared bases. Two genuine differences were found and repaired (F7, F25). Also decided: the shared multipart decoder treats every chunk (empty ones included) as bytes to append, and the scope/environ branches of the shared URL constructor pass corresponding gateway values to one builder. Accessors must return the same shape on both sides; the request path is used as the same text on both interfaces (two WSGI routing constructs are listed known findings, F34).",
        note="Not decided: equality of values computed by shared stdlib calls beyond equal argument expressions; duplicate request-header semantics; a sanctioned whole-body pair (request stream, header mapping, middleware capture) is compared on signature only and covered by C10/C20. A one-sided refactor that changes the lexical guard text of an effect without changing behaviour is reported (conservative).",
        ref="DESIGN.md section 3, C04",
    ),
    "C07": dict(
        technique="static analysis: sanitiser dominance over every path expression reaching a file-system sink (path-sensitive AST dataflow with reaching-definition trees), who-may-call scan, idiom table for segment-aware confinement tests",
        text="Decides the confinement clause structurally for all request paths: on every path of the four __call__s each expression reaching os.stat / FileResponse is ensure_absolute_path(<request path>) plus at most a separator-free constant suffix; no other function of the static-file modules touches the file system; the sanitiser normalises before testing, tests the value it returns, rejects with None and uses a segment-aware idiom (the over-rejecting relpath.startswith('..') - defect F5, repaired - and the under-rejecting startswith(directory) are violations); the regular-file flag is S_ISREG of the stat of the served path and that stat_result is the one given to FileResponse; the configured directory is absolute; Pages fallbacks (index.html, .html retry, directory redirect) are confined and guarded. Not decided: that every path maps to the right file (defect F6 '/dir/' is described, not detected). No function of the static-file / response modules mutates a module-level or class-level container (a body memo would serve another file's content). The sanitiser restores the trailing '/' for every path that ends in '/'; the WSGI apps join PATH_INFO re-decoded as UTF-8; the redirect's URL builder is fed the gateway's own root path + path. The configured directory is absolute independently of the later working directory (abspath/realpath or anchored at ModuleSpec.origin).",
        note="Trusted: os.path function semantics. Symlinks are outside the statement. A correct confinement test in an idiom outside the table yields UNDECIDED.",
        ref="DESIGN.md section 3, C07",
    ),
    "C14": dict(
        technique="static analysis: writer/reader validator agreement through the resolver, attribute-dependence of the digest, path facts of file_response for RFC 7232 precedence, per-member normalisation shape of the If-None-Match matcher",
        text="Histories over a file clock are not decidable statically; the check decides structural necessary conditions whose violation produces a stale 304 or a missed revalidation for some history: the compared ETag is generate_etag of the very stat_result that is served and the emitted ETag/Last-Modified come from the same function and stat; the digest depends on both st_mtime and st_size; If-Modified-Since is compared with st_mtime/st_ctime with int() truncation on both sides and <=; on every 304 path decided by If-Modified-Since the If-None-Match header is known absent (defect F21, repaired); weak prefix and quotes are stripped per list member, '*' matches, empty never matches (defect F22, repaired); a 304 path builds Response(304) and never a FileResponse. Every definition of the validator variables handed to file_response is the header read or the default preceding it. file_response is the only producer of a 304. The weak-prefix test is applied to the whitespace-stripped member of the ','-split.",
        note="Partial by construction: decides the mechanism, not the outcome of arbitrary modification/request histories. Trusted: os.stat field meanings, email.utils date parsing.",
        ref="DESIGN.md section 3, C14",
    ),
    "C19": dict(
        technique="static analysis: API rule on the line splitter (receiver typed by the ServerSentEvent TypedDict), regular-language equality of the folded line-break pattern with {CRLF, CR, LF}, folded shape of the block expression, constant checks of ping/headers, charset provenance",
        text="Decides for all event texts the clause that made the property fail: the data lines are produced by a splitter whose language is exactly CR, LF, CRLF (str.splitlines on the str data - defect F2, repaired - or any pattern whose automaton differs is a violation with a witness). Also decided: each line is '<field>: <value>' encoded with the response charset, lines joined with LF and a terminating blank line, the ping is a comment block equal on both stacks, Content-Type text/event-stream carries the charset actually used for encoding, Cache-Control no-cache, user headers override. Not decided: conformance of arbitrary event/id text (the statement restricts them to single lines); delivery order is C06. Nothing yielded is dropped while the client is connected: the 'client went away' flag is set only from a received http.disconnect, and an item pulled from the user's iterator is always enqueued. The encoder does not modify the event dict it is given. A non-zero maxsplit of re.split is a violation. The hand-off order clauses shared with C06 (FIFO queue, one put per item, every dequeued event yielded exactly once before the next dequeue) are reported under this property too.",
        note="Trusted: re semantics for the pattern subset; the TypedDict annotation for the type of data.",
        ref="DESIGN.md section 3, C19",
    ),
    "C20": dict(
        technique="static analysis: container-multiplicity rule from the folded behaviour of Headers.__init__, call-count on all paths of from_app, iterator-identity discipline in ensure_next, capture/relay shape of the two callbacks, pass-through shape of the wrappers",
        text="Decides the structural causes of non-transparency: the inner header list must travel in a multiplicity-preserving container (capturing into Headers(...), which folds repeated names with ', ', is reported at both from_app callbacks - known finding F4); the inner application is called exactly once on every path and only through next_call; the iterator advanced to force the first chunk is the one drained (defect F3, repaired); status is taken unchanged from the start event; on ASGI every body message is pushed once and EOF is signalled exactly when more_body is false; decorator/request_response wrappers call view/handler once and hand the response the original gateway arguments. Not decided: byte equality of streamed bodies, error-before/after-start behaviour. Both ASGI header conversions around a middleware (from_app decode, list_headers encode) are Latin-1; NextResponse does not re-serialise header text privately. Forcing the first chunk tolerates an empty body; the header mapping's constructor keeps its own store and the values as given; every http.response.* message type the package emits has a branch in the ASGI capture.",
        note="Trusted: iterator protocol semantics.",
        ref="DESIGN.md section 3, C20",
    ),
    "C01": dict(
        technique="static analysis: boundary-escape provenance, regular-language equality of the folded delimiter patterns (boundary as an opaque symbol) incl. first-set, hold-back provenance on all paths of next_event/last_newline, guarded-effect extraction of the helper loops, sibling equality",
        text="The whole property (byte-exact round trip for all contents x all chunkings) quantifies over run-time bytes and is not decided. Decided necessary conditions, each of which breaks chunk-independence or exactness when violated: the boundary passes re.escape before every re.compile; the delimiter patterns denote exactly 'line break -- boundary (--)? blanks line break' and every match starts with CR or LF (automaton decisions); while more data is expected the emitted and the deleted prefix are the same hold-back bound, that bound is last_newline() (or max(last_newline(), len(buffer) - len(boundary) - K) with K >= 3, and only while no complete boundary is buffered), last_newline() is the minimum of the last LF and the last CR (each defaulting to len(buffer)), the final Data of a part is content up to match.start() with the delimiter consumed to match.end(); the helper loops handle every event class, accumulate/flush/stream/rewind under the right guards, equally in sync and async; both form accessors hand the Latin-1 boundary, charset default and their own stream to their own helper. Decoder input discipline: receive_data appends every chunk and completes on None alone, the header block is split into lines as bytes, a part is a File exactly when the filename parameter is not None; the WSGI chunk source ends on an empty read only. The second hold-back idiom (a trailing partial delimiter found by an end-anchored regex) is proved by automaton inclusion: every non-empty delimiter prefix is matched. request.content_type parses the whole header value; the parameter splitter's quote parity discounts escaped quotes. Every reading loop of the WSGI stream() is judged (a counted loop of reads is a violation).",
        note="Partial: structural preconditions of exactness, not the equality itself. parse_header quoting round trip is not decided.",
        ref="DESIGN.md section 3, C01",
    ),
    "C15": dict(
        technique="static analysis: guarded-effect extraction of the helper loops (increment / comparison / raise with lexical guards and same-block ordering), strictness of the comparisons, folded status constant, bounded hold-back idiom rule on the decoder",
        text="Decides limit exactness structurally: field bytes are counted by len(event.data) on exactly the in-memory field paths and compared with strict > (guarded by 'is not None') directly after the increment in the same Data iteration; parts are counted by exactly 1 on exactly the last-Data paths of fields and files and compared with strict >; both raise RequestEntityTooLarge whose constructor folds to 413; sync and async helpers are equal after normalisation; upload data is written per event; the decoder's hold-back is clamped independently of the data (defect F23 - unbounded buffering of a part that starts with CR - was found by this rule and repaired). Not decided: the numeric buffering bound for all chunkings, spooled-file roll-over. A part counts as non-file field data exactly when its Content-Disposition has no filename parameter (`is None` test). Every hold-back path is bounded: the clamp idiom, or the pending-delimiter pattern whose words lacking the delimiter have bounded length (longest word of the automaton). parse_header records every name=value parameter whatever its value (filename=\"\" still marks a file part).",
        note="Partial by construction. The clamp's soundness condition (K >= 3, only while no boundary is buffered) is checked by C01/R1.3.",
        ref="DESIGN.md section 3, C15",
    ),
    "C02": dict(
        technique="static analysis: symbolic length algebra (linear forms over |boundary|, |content_type|, digit-count atoms and end-start) comparing the Content-Length formula with the emitted template and both emitters; header-before-start dominance and HEAD independence on all handler paths; If-Range gate facts; writer/reader expression agreement; open/close pairing on all exits",
        text="Decides for all boundary/content-type/number lengths whether the closed-form multipart Content-Length equals what is emitted: the formula and the emissions (f-string of the header generator, per-range and closing pieces of both handle_several_ranges) are reduced to linear forms and compared coefficient by coefficient, so a changed template, line ending, extra header or one-sided emitter edit is reported whatever the digit counts. Also decided on all paths: framing headers are written before the start event and independently of HEAD, the HEAD path opens nothing and sends one empty body, single-range headers and reader arguments use the same (start, end), Range is honoured only behind the If-Range gate and judge_if_range compares against the emitted validators, the 400/416 path forwards status/headers ('*/size') and opens nothing, ASGI descriptors are closed on every normal and exceptional exit. Not decided: that the chunk loops read exactly end-start bytes for every chunk_size alignment. Two structural clauses of the otherwise undecided arithmetic: the ASGI fallback sender clamps every bounded read by a count-derived remaining value with no fall-back operand and stops from the count bookkeeping; an interval replaced in parse_range's result is the hull of both. FileResponse stats the path it opens with os.stat; every response owns its header store. RangeNotSatisfiable carries status 416 and Content-Range */<size> on every path of its constructor (size 0 included); the values If-Range is compared with are the very ETag / Last-Modified expressions that are emitted.",
        note="Partial. Assumes the part header text is one byte per character. Sibling agreement of the handlers is C04, the emit grammar is C05.",
        ref="DESIGN.md section 3, C02",
    ),
    "C10": dict(
        technique="static analysis: consume-once typestate on all paths of the two stream() generators (path facts + store/read ordering), who-may-read scan, descriptor-shape analysis of cached_property.__get__",
        text="Decides the structural core of the property: every path that reads the server channel has tested _stream_consumed false and set it before the first read, the consumed case raises the documented error without reading, the cached-body branch replays without reading, no other method reads the channel (is_disconnected sanctioned and recorded); body/json/form are cached_property, which is a non-data descriptor storing under the function's name and wrapping an awaitable in one shared future before storing (the whole compute-once argument under concurrency); the ASGI receive loop ends only after more_body is false, a disconnect raises ClientDisconnect, chunks are yielded; WSGI returns only on an empty read; body is b''.join over exactly self.stream(). Not decided: interleavings beyond the shared-future argument, a misbehaving receive(). Cached accessor results are write-once (no package code deletes or overwrites an instance __dict__ entry); the WSGI read loop is judged by its exits (only an empty read ends it); the stream helpers behind form() run their chunk loop to exhaustion. A counted loop of reads (for .. in range(..)) is a violation; iter(<reader>, b'') is the read path.",
        note="Trusted: asyncio.ensure_future semantics; descriptor protocol.",
        ref="DESIGN.md section 3, C10",
    ),
    "C17": dict(
        technique="static analysis: paired-representation update rule on all paths of every mutator (effects on _dict/_list collected with reaching-definition values), constructor freshness, alias scan, mixin/override scan",
        text="Decides the mechanism the statement's rationale names, not equality with the list-of-pairs model: every mutator of MutableMultiMapping touches both representations or neither on every normal path, for the key and values the statement requires (assignment replaces in place / appends, append adds the pair and the last value, setlist stores the last value and rebuilds the pairs, delete removes from both), or delegates to an audited dunder; the constructor builds _dict from the same fresh list that becomes _list; no method returns the internal containers; pop/popitem/clear/update/setdefault are the inherited mixins; the read views are split as stated and QueryParams/FormData inherit them. This is the weakest claim of the set. Deleting list elements by position while walking positions in ascending order is reported in every mutator. The constructor's mapping branch is selected by the abstract Mapping type.",
        note="Partial. Trusted: typing.MutableMapping mixins, dict last-wins semantics. Loop bodies are analysed with a non-empty-iterable refinement.",
        ref="DESIGN.md section 3, C17",
    ),
    "C18": dict(
        technique="static analysis: argument provenance of the single URL builder on both gateway branches, folded default-port table and precedence order, path facts of __repr__ for password masking, shape of replace()",
        text="Decides: both gateway branches of URL.__init__ end in the same _build_url call with the corresponding gateway values (root path + path, query string, server pair, Host header); the Host header test precedes the server branch, the folded default-port table is {http:80, https:443, ws:80, wss:443} indexed by the URL's own scheme, port elision matches the default test, the query is appended only when non-empty; on every __repr__ path with a truthy password the formatted text comes from replace(password=<constant>); replace() defaults the four netloc components to the current ones, writes netloc only inside that branch, nests the password under the user name and delegates the rest to SplitResult._replace. Not decided: netloc surgery for every host shape, Latin-1/UTF-8 path round trip, query helper values. replace() is decided on path values: on all netloc paths the text flattens to [user[:password]@]host[:port] with the popped components, the password only under a tested user name, an unchanged host cut verbatim out of self.netloc; include_query_params rests on a __setitem__ without stale-position deletes. The URL is split with urlsplit.",
        note="Partial; value-level clauses are outside static reach.",
        ref="DESIGN.md section 3, C18",
    ),
    "C06": dict(
        technique="static analysis: resource/handle pairing on all exits (path-sensitive dataflow with exceptions and generator-close injected at every call/await/yield), close-once rule for the user's iterable, wait-for (lock-order style) rule on the queue hand-off, FIFO/yield-every-item shape",
        text="Interleavings and deadlines are schedule-quantified and not decided. Decided structural necessary conditions: every background task/future is cancelled or awaited on every exit of its creator, in a finally; the user's iterable is closed exactly once on every exit of the relay, the ASGI stream generator and the ASGI streaming __call__ (WSGI streams delegate with yield from); a join-like wait of the closing consumer on a thread relay is legal only if the relay's puts on the bounded queue cannot block forever (non-blocking/timed put, unbounded queue, or a consumer that drains until the relay is done) - this rule found the WSGI deadlock F10, since repaired - and on asyncio the task outcome is read only after cancel() returned False; the stop flag is raised in the finally and tested by the relay loop; the hand-off is a FIFO queue with one producer loop and a consumer that yields every dequeued non-sentinel item once. No handler around an ASGI send() (direct or via the emit helpers) can swallow OSError; the closed flag is set only from a received http.disconnect; a pulled item is always enqueued. A timed put raises Full in the path model; the wait for the relay is skipped when cancel() removed a relay that never started. A streaming response run as websocket denial response is told about the peer's disconnect (receive wrapper rule shared with C11).",
        note="Partial: a sufficient-condition table for absence of the deadlock, not a proof of termination under all schedules; unrecognised synchronisation idioms are UNDECIDED. Trusted: Future.cancel semantics, PEP 380 close forwarding.",
        ref="DESIGN.md section 3, C06",
    ),
}

NOT_APPLICABLE = {
    "C03": "quantifies over the integer results of an order-dependent merge loop for all sizes/spec lists; no clause is visible in the shape of the code without pinning the loop text (proving the loop invariant needs symbolic execution or a proof assistant - other families); the error-class clause is covered under C12",
}

LEVELS = {"C11": "model_checking"}


def main() -> None:
    props = [json.loads(l) for l in open(os.path.join(VERIF, "properties.jsonl"))]
    checks = []
    na = []
    for p in props:
        pid = p["id"]
        if pid in CLAIMS:
            c = CLAIMS[pid]
            checks.append(
                {
                    "property_id": pid,
                    "quick_cmd": f"python3 /verif/sa/check.py {pid} --tier quick",
                    "thorough_cmd": f"python3 /verif/sa/check.py {pid} --tier thorough",
                    "evidence_file": f"/verif/evidence/{pid}.json",
                    "replay_cmd_template": "cat {path}",
                    "engine": "sa",
                    "level_claimed": {"category": LEVELS.get(pid, "other"), "text": c["text"], "design_ref": c["ref"]},
                    "level_note": c["note"],
                    "technique": c["technique"],
                }
            )
        else:
            na.append({"property_id": pid, "reason": NOT_APPLICABLE[pid]})
    m = {
        "version": 1,
        "setup_cmd": "python3 -c 'import ast, re._parser, re._constants'",
        "hooks": {
            "guard": "BAIZE_VERIF",
            "enable": "none needed: the static checks parse /repo/baize from the working tree and never import or run it; no source hook was added",
            "baseline_off_cmd": "cd /repo && /venv/bin/python -m pytest -ra -q -p no:cacheprovider --timeout=900 --continue-on-collection-errors",
            "source_commits": [],
            "add_only": True,
        },
        "engines": [
            {
                "name": "sa",
                "path": "/verif/sa",
                "serves_properties": sorted(CLAIMS),
                "kind_free_text": "repository-specific static analysis on Python ast: loader/resolver (C3 MRO, call resolution), whitelisted constant folder, regex->NFA->DFA language decisions, path-sensitive AST dataflow with reaching-definition expression trees (no solver), taint/provenance, exception-escape, WSGI/ASGI sibling effect-summary comparison",
            }
        ],
        "checks": checks,
        "not_applicable": na,
        "notes": "All checks are static: they parse /repo/baize on every run (BAIZE_REPO overrides the root for the self-test) and never execute repository code. Exit 0 = holds (KNOWN-FINDING lines for listed genuine defects, see /verif/known_findings.json); exit 1 + VIOLATION line = unlisted violation; exit 2 = ANALYSIS-ERROR/UNDECIDED (anchor vanished or idiom outside the enumerated table).",
    }
    with open(os.path.join(VERIF, "MANIFEST.json"), "w") as f:
        json.dump(m, f, indent=1)
        f.write("\n")
    print(f"MANIFEST.json: {len(checks)} checks, {len(na)} not_applicable")


if __name__ == "__main__":
    main()
