"""Normal forms applied to every module right after parsing, so that rules written against one spelling of a statement see
the same tree for its equivalent spellings. Every rewrite here is an exact equivalence of Python semantics (same evaluations in
the same order, same exits); positions of the rewritten nodes are those of the statements they came from.

  N1  while True:               while not C:
          if C: break     ==>       rest            (loop without an else clause; `continue` in rest re-tests C in both)
          rest
      (`not (not X)` is written X: a while test is only used for its truth value)

  N2  yield from (E for t in IT if C)   ==>   for t in IT:          (statement position, synchronous generator, one `for`
                                                  if C: yield E      clause; only when the names bound by `t` occur nowhere
                                                                     else in the function, so that the loop variable
                                                                     leaking into the function scope changes nothing)
"""
from __future__ import annotations

import ast


def _is_true(e: ast.expr) -> bool:
    return isinstance(e, ast.Constant) and e.value is True or (isinstance(e, ast.Constant) and e.value == 1 and not isinstance(e.value, bool))


def _negate(e: ast.expr) -> ast.expr:
    if isinstance(e, ast.UnaryOp) and isinstance(e.op, ast.Not):
        return e.operand
    return ast.copy_location(ast.UnaryOp(op=ast.Not(), operand=e), e)


class _Normaliser(ast.NodeTransformer):
    def visit_While(self, node: ast.While) -> ast.AST:
        self.generic_visit(node)
        while (_is_true(node.test) and not node.orelse and len(node.body) >= 2 and isinstance(node.body[0], ast.If) and not node.body[0].orelse
               and len(node.body[0].body) == 1 and isinstance(node.body[0].body[0], ast.Break)):
            node.test = _negate(node.body[0].test)
            node.body = node.body[1:]
            break
        return node


def _bound_names(t: ast.expr):
    return {n.id for n in ast.walk(t) if isinstance(n, ast.Name)}


class _YieldFromGenexp(ast.NodeTransformer):
    def __init__(self, fn: ast.AST) -> None:
        self.fn = fn

    def visit_FunctionDef(self, node):
        return node if node is not self.fn else self.generic_visit(node)

    visit_AsyncFunctionDef = visit_Lambda = visit_ClassDef = lambda self, node: node  # noqa: E731

    def visit_Expr(self, node: ast.Expr) -> ast.AST:
        v = node.value
        if not (isinstance(v, ast.YieldFrom) and isinstance(v.value, ast.GeneratorExp) and len(v.value.generators) == 1 and not v.value.generators[0].is_async):
            return node
        g = v.value
        c = g.generators[0]
        names = _bound_names(c.target)
        inside = {id(n) for n in ast.walk(g)}
        if any(isinstance(n, ast.Name) and n.id in names and id(n) not in inside for n in ast.walk(self.fn)):
            return node
        if any(isinstance(n, ast.arg) and n.arg in names for n in ast.walk(self.fn)):
            return node
        if any(isinstance(n, (ast.Yield, ast.YieldFrom, ast.Await, ast.NamedExpr)) for n in ast.walk(g)):
            return node
        inner: ast.stmt = ast.copy_location(ast.Expr(value=ast.copy_location(ast.Yield(value=g.elt), g.elt)), g.elt)
        for cond in reversed(c.ifs):
            inner = ast.copy_location(ast.If(test=cond, body=[inner], orelse=[]), cond)
        return ast.copy_location(ast.For(target=c.target, iter=c.iter, body=[inner], orelse=[], type_comment=None), node)


class _PerFunction(ast.NodeTransformer):
    def visit_FunctionDef(self, node: ast.FunctionDef) -> ast.AST:
        self.generic_visit(node)
        return _YieldFromGenexp(node).visit(node)


def normalise(tree: ast.Module) -> ast.Module:
    tree = _Normaliser().visit(tree)
    tree = _PerFunction().visit(tree)
    ast.fix_missing_locations(tree)
    return tree
