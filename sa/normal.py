"""Normal forms applied to every module right after parsing, so that rules written against one spelling of a statement see
the same tree for its equivalent spellings. Every rewrite here is an exact equivalence of Python semantics (same evaluations in
the same order, same exits); positions of the rewritten nodes are those of the statements they came from.

  N1  while True:               while not C:
          if C: break     ==>       rest            (loop without an else clause; `continue` in rest re-tests C in both)
          rest
      (`not (not X)` is written X: a while test is only used for its truth value)

  N2  yield from (E for t in IT if C)   ==>   for t in IT:          (statement position, synchronous generator, one `for`
                                                  if C: yield E      clause; only when the names bound by `t` occur nowhere
                                                                     else in the function, so that the loop variable
                                                                     leaking into the function scope changes nothing)

  N3  for t in IT:                      ==>   R.extend(E for t in IT if C)
          if C: R.append(E)                   (R a name or attribute chain that t, E, C do not rebind; the names bound by `t`
                                               occur nowhere else in the function. list.extend consumes the generator item
                                               by item, so a failure half-way leaves the same partial list)

  N4  x = [a, b]  |  x = [e for ...]    ==>   x = [a, b, *(E for t in IT if C)]  |  x = [*(e for ...), *(E for ...)]
      x.extend(E for t in IT if C)            (x a local name, the two statements adjacent, the generator does not read x;
                                               `x = []` followed by the extend is the plain comprehension [E for t in IT if C])

  N6  return next((E for t in IT if C), D)   ==>   for t in IT:            (also `g = (E for ...)` on the line before and
                                                       if C: return E      `return next(g, D)`, g used nowhere else; names
                                                   return D                bound by `t` occur nowhere else in the function)

  N7  x = E                 ==>   while True:          (loop rotation: the priming assignment and the one that ends the
      while x:                        x = E            body are the same expression, BODY has no `continue` of this loop,
          BODY                        if not x: break  no else clause; E is evaluated at exactly the same moments)
          x = E                       BODY

  N5  with contextlib.suppress(A, B):   ==>   try: BODY
          BODY                                except (A, B): pass        (single context manager, no `as`)
"""
from __future__ import annotations

import ast


def _is_true(e: ast.expr) -> bool:
    return isinstance(e, ast.Constant) and e.value is True or (isinstance(e, ast.Constant) and e.value == 1 and not isinstance(e.value, bool))


def _negate(e: ast.expr) -> ast.expr:
    if isinstance(e, ast.UnaryOp) and isinstance(e.op, ast.Not):
        return e.operand
    return ast.copy_location(ast.UnaryOp(op=ast.Not(), operand=e), e)


class _Normaliser(ast.NodeTransformer):
    def visit_While(self, node: ast.While) -> ast.AST:
        self.generic_visit(node)
        while (_is_true(node.test) and not node.orelse and len(node.body) >= 2 and isinstance(node.body[0], ast.If) and not node.body[0].orelse
               and len(node.body[0].body) == 1 and isinstance(node.body[0].body[0], ast.Break)):
            node.test = _negate(node.body[0].test)
            node.body = node.body[1:]
            break
        return node


def _names(node: ast.AST):
    return {n.id for n in ast.walk(node) if isinstance(n, ast.Name)}


def _chain(e: ast.expr) -> bool:
    """a name or an attribute chain on a name (self._list)"""
    while isinstance(e, ast.Attribute):
        e = e.value
    return isinstance(e, ast.Name)


class _Accumulate(ast.NodeTransformer):
    """N3, N4, N5 inside one function body (nested functions are handled by their own pass)"""

    def __init__(self, fn: ast.AST) -> None:
        self.fn = fn

    def visit_FunctionDef(self, node):
        if node is not self.fn:
            return node
        self.generic_visit(node)
        return node

    visit_AsyncFunctionDef = visit_FunctionDef

    def visit_Lambda(self, node):
        return node

    def visit_ClassDef(self, node):
        return node

    # ---- N5
    def visit_With(self, node: ast.With) -> ast.AST:
        self.generic_visit(node)
        if len(node.items) == 1 and node.items[0].optional_vars is None:
            ce = node.items[0].context_expr
            if isinstance(ce, ast.Call) and not ce.keywords and ce.args and not any(isinstance(a, ast.Starred) for a in ce.args) \
                    and ast.unparse(ce.func) in ("contextlib.suppress", "suppress"):
                typ = ce.args[0] if len(ce.args) == 1 else ast.copy_location(ast.Tuple(elts=list(ce.args), ctx=ast.Load()), ce)
                handler = ast.copy_location(ast.ExceptHandler(type=typ, name=None, body=[ast.copy_location(ast.Pass(), node)]), node)
                return ast.copy_location(ast.Try(body=node.body, handlers=[handler], orelse=[], finalbody=[]), node)
        return node

    # ---- N3
    def visit_For(self, node: ast.For) -> ast.AST:
        self.generic_visit(node)
        if node.orelse or len(node.body) != 1:
            return node
        inner = node.body[0]
        conds = []
        while isinstance(inner, ast.If) and not inner.orelse and len(inner.body) == 1:
            conds.append(inner.test)
            inner = inner.body[0]
        if not (isinstance(inner, ast.Expr) and isinstance(inner.value, ast.Call) and isinstance(inner.value.func, ast.Attribute) and inner.value.func.attr == "append"
                and len(inner.value.args) == 1 and not inner.value.keywords and not isinstance(inner.value.args[0], ast.Starred) and _chain(inner.value.func.value)):
            return node
        recv, elt = inner.value.func.value, inner.value.args[0]
        tnames = _names(node.target)
        if not all(isinstance(n, (ast.Name, ast.Tuple, ast.List)) for n in ast.walk(node.target) if isinstance(n, ast.expr) and not isinstance(n, ast.expr_context)):
            return node
        if tnames & _names(recv) or tnames & _names(node.iter):
            return node
        inside = {id(n) for n in ast.walk(node)}
        if any(isinstance(n, ast.Name) and n.id in tnames and id(n) not in inside for n in ast.walk(self.fn)):
            return node
        if any(isinstance(n, ast.arg) and n.arg in tnames for n in ast.walk(self.fn)):
            return node
        if any(isinstance(n, (ast.Yield, ast.YieldFrom, ast.Await, ast.NamedExpr)) for x in [elt, node.iter] + conds for n in ast.walk(x)):
            return node
        gen = ast.copy_location(ast.GeneratorExp(elt=elt, generators=[ast.comprehension(target=node.target, iter=node.iter, ifs=conds, is_async=0)]), node)
        call = ast.copy_location(ast.Call(func=ast.copy_location(ast.Attribute(value=recv, attr="extend", ctx=ast.Load()), inner.value.func), args=[gen], keywords=[]), inner.value)
        return ast.copy_location(ast.Expr(value=call), node)

    # ---- N4 (on statement lists)
    def _merge(self, body):
        out = []
        for st in body:
            prev = out[-1] if out else None
            if (prev is not None and isinstance(st, ast.Expr) and isinstance(st.value, ast.Call) and isinstance(st.value.func, ast.Attribute) and st.value.func.attr == "extend"
                    and isinstance(st.value.func.value, ast.Name) and len(st.value.args) == 1 and not st.value.keywords and isinstance(st.value.args[0], ast.GeneratorExp)):
                x = st.value.func.value.id
                tgt = None
                if isinstance(prev, ast.Assign) and len(prev.targets) == 1 and isinstance(prev.targets[0], ast.Name) and prev.targets[0].id == x:
                    tgt = prev
                elif isinstance(prev, ast.AnnAssign) and isinstance(prev.target, ast.Name) and prev.target.id == x and prev.value is not None:
                    tgt = prev
                gen = st.value.args[0]
                # `x = list(G)` is `x = [*G]`
                if tgt is not None and isinstance(tgt.value, ast.Call) and isinstance(tgt.value.func, ast.Name) and tgt.value.func.id == "list" and len(tgt.value.args) == 1 \
                        and not tgt.value.keywords and isinstance(tgt.value.args[0], ast.GeneratorExp) and not any(isinstance(n, ast.Name) and n.id == "list" and isinstance(n.ctx, ast.Store) for n in ast.walk(self.fn)):
                    g0 = tgt.value.args[0]
                    tgt.value = ast.copy_location(ast.List(elts=[ast.copy_location(ast.Starred(value=g0, ctx=ast.Load()), g0)], ctx=ast.Load()), tgt.value)
                if tgt is not None and isinstance(tgt.value, (ast.List, ast.ListComp)) and x not in _names(gen) and x not in _names(tgt.value):
                    if isinstance(tgt.value, ast.List) and not tgt.value.elts and len(gen.generators) >= 1:
                        new_val = ast.copy_location(ast.ListComp(elt=gen.elt, generators=gen.generators), tgt.value)
                    else:
                        first = list(tgt.value.elts) if isinstance(tgt.value, ast.List) else \
                            [ast.copy_location(ast.Starred(value=ast.copy_location(ast.GeneratorExp(elt=tgt.value.elt, generators=tgt.value.generators), tgt.value), ctx=ast.Load()), tgt.value)]
                        new_val = ast.copy_location(ast.List(elts=first + [ast.copy_location(ast.Starred(value=gen, ctx=ast.Load()), gen)], ctx=ast.Load()), tgt.value)
                    tgt.value = new_val
                    continue
            # `x = []` + `async for t in IT: [if C:] x.append(E)`  ->  x = [E async for t in IT if C]
            if prev is not None and isinstance(st, ast.AsyncFor) and not st.orelse and len(st.body) == 1:
                inner = st.body[0]
                conds = []
                while isinstance(inner, ast.If) and not inner.orelse and len(inner.body) == 1:
                    conds.append(inner.test)
                    inner = inner.body[0]
                tgt = prev if (isinstance(prev, (ast.Assign, ast.AnnAssign)) and isinstance(getattr(prev, "value", None), ast.List) and not prev.value.elts) else None
                xname = None
                if tgt is not None:
                    t0 = tgt.targets[0] if isinstance(tgt, ast.Assign) and len(tgt.targets) == 1 else getattr(tgt, "target", None)
                    xname = t0.id if isinstance(t0, ast.Name) else None
                if (xname and isinstance(inner, ast.Expr) and isinstance(inner.value, ast.Call) and isinstance(inner.value.func, ast.Attribute) and inner.value.func.attr == "append"
                        and isinstance(inner.value.func.value, ast.Name) and inner.value.func.value.id == xname and len(inner.value.args) == 1 and not inner.value.keywords):
                    elt = inner.value.args[0]
                    tn = _names(st.target)
                    inside = {id(n) for n in ast.walk(st)}
                    if not any(isinstance(n, ast.Name) and n.id in tn and id(n) not in inside for n in ast.walk(self.fn)) and xname not in (_names(elt) | _names(st.iter) | {m for c_ in conds for m in _names(c_)}) \
                            and not any(isinstance(n, (ast.Yield, ast.YieldFrom, ast.Await, ast.NamedExpr)) for x_ in [elt] + conds for n in ast.walk(x_)):
                        tgt.value = ast.copy_location(ast.ListComp(elt=elt, generators=[ast.comprehension(target=st.target, iter=st.iter, ifs=conds, is_async=1)]), tgt.value)
                        continue
            out.append(st)
        return out

    # ---- N6 (on statement lists)
    def _first_match(self, body):
        out = []
        for st in body:
            if isinstance(st, ast.Return) and isinstance(st.value, ast.Call) and isinstance(st.value.func, ast.Name) and st.value.func.id == "next" \
                    and len(st.value.args) == 2 and not st.value.keywords:
                g, default = st.value.args
                drop_prev = False
                if isinstance(g, ast.Name) and out and isinstance(out[-1], ast.Assign) and len(out[-1].targets) == 1 and isinstance(out[-1].targets[0], ast.Name) \
                        and out[-1].targets[0].id == g.id and isinstance(out[-1].value, ast.GeneratorExp):
                    uses = [n for n in ast.walk(self.fn) if isinstance(n, ast.Name) and n.id == g.id]
                    if len(uses) == 2:
                        g = out[-1].value
                        drop_prev = True
                if isinstance(g, ast.GeneratorExp) and len(g.generators) == 1 and not g.generators[0].is_async:
                    c = g.generators[0]
                    tn = _names(c.target)
                    inside = {id(n) for n in ast.walk(g)}
                    clean = not any(isinstance(n, ast.Name) and n.id in tn and id(n) not in inside for n in ast.walk(self.fn)) \
                        and not any(isinstance(n, ast.arg) and n.arg in tn for n in ast.walk(self.fn)) \
                        and not any(isinstance(n, (ast.Yield, ast.YieldFrom, ast.Await, ast.NamedExpr)) for n in ast.walk(g)) \
                        and not (tn & _names(default))
                    if clean:
                        inner: ast.stmt = ast.copy_location(ast.Return(value=g.elt), g.elt)
                        for cond in reversed(c.ifs):
                            inner = ast.copy_location(ast.If(test=cond, body=[inner], orelse=[]), cond)
                        if len(c.ifs) > 1:
                            pass
                        loop = ast.copy_location(ast.For(target=c.target, iter=c.iter, body=[inner], orelse=[], type_comment=None), g)
                        if drop_prev:
                            out.pop()
                        out.append(loop)
                        out.append(ast.copy_location(ast.Return(value=default), st))
                        continue
            out.append(st)
        return out

    # ---- N7 (on statement lists)
    def _rotate(self, body):
        out = []
        for st in body:
            prev = out[-1] if out else None
            if (isinstance(st, ast.While) and not st.orelse and isinstance(st.test, ast.Name) and len(st.body) >= 2
                    and isinstance(prev, ast.Assign) and len(prev.targets) == 1 and isinstance(prev.targets[0], ast.Name) and prev.targets[0].id == st.test.id):
                last = st.body[-1]
                if isinstance(last, ast.Assign) and len(last.targets) == 1 and isinstance(last.targets[0], ast.Name) and last.targets[0].id == st.test.id \
                        and ast.dump(last.value) == ast.dump(prev.value) and not self._has_own_continue(st.body[:-1]):
                    brk = ast.copy_location(ast.If(test=ast.copy_location(ast.UnaryOp(op=ast.Not(), operand=st.test), st.test), body=[ast.copy_location(ast.Break(), st)], orelse=[]), st)
                    out.pop()
                    st.test = ast.copy_location(ast.Constant(value=True), st.test)
                    st.body = [prev, brk] + st.body[:-1]
                    out.append(st)
                    continue
            out.append(st)
        return out

    @staticmethod
    def _has_own_continue(stmts) -> bool:
        def walk(n):
            if isinstance(n, ast.Continue):
                return True
            if isinstance(n, (ast.For, ast.AsyncFor, ast.While, ast.FunctionDef, ast.AsyncFunctionDef, ast.Lambda, ast.ClassDef)):
                return False
            return any(walk(c) for c in ast.iter_child_nodes(n))
        return any(walk(s_) for s_ in stmts)

    def generic_visit(self, node):
        node = super().generic_visit(node)
        for fld in ("body", "orelse", "finalbody"):
            b = getattr(node, fld, None)
            if isinstance(b, list) and b and all(isinstance(x, ast.stmt) for x in b):
                setattr(node, fld, self._rotate(self._first_match(self._merge(b))))
        return node


def _bound_names(t: ast.expr):
    return {n.id for n in ast.walk(t) if isinstance(n, ast.Name)}


class _YieldFromGenexp(ast.NodeTransformer):
    def __init__(self, fn: ast.AST) -> None:
        self.fn = fn

    def visit_FunctionDef(self, node):
        return node if node is not self.fn else self.generic_visit(node)

    visit_AsyncFunctionDef = visit_Lambda = visit_ClassDef = lambda self, node: node  # noqa: E731

    def visit_Expr(self, node: ast.Expr) -> ast.AST:
        v = node.value
        if not (isinstance(v, ast.YieldFrom) and isinstance(v.value, ast.GeneratorExp) and len(v.value.generators) == 1 and not v.value.generators[0].is_async):
            return node
        g = v.value
        c = g.generators[0]
        names = _bound_names(c.target)
        inside = {id(n) for n in ast.walk(g)}
        if any(isinstance(n, ast.Name) and n.id in names and id(n) not in inside for n in ast.walk(self.fn)):
            return node
        if any(isinstance(n, ast.arg) and n.arg in names for n in ast.walk(self.fn)):
            return node
        if any(isinstance(n, (ast.Yield, ast.YieldFrom, ast.Await, ast.NamedExpr)) for n in ast.walk(g)):
            return node
        inner: ast.stmt = ast.copy_location(ast.Expr(value=ast.copy_location(ast.Yield(value=g.elt), g.elt)), g.elt)
        for cond in reversed(c.ifs):
            inner = ast.copy_location(ast.If(test=cond, body=[inner], orelse=[]), cond)
        return ast.copy_location(ast.For(target=c.target, iter=c.iter, body=[inner], orelse=[], type_comment=None), node)


def _inline_local_contextmanagers(fn):
    """N12: a parameterless generator-based context manager that is DEFINED in this function and used by exactly one `with`
    of it is that `with` written as try/finally:

        @contextlib.contextmanager                      PRE
        def cm():                                       x = V
            PRE                                  ==>    try:
            try: yield V                                    BODY
            finally: POST                               finally:
        with cm() as x: BODY                                POST

    (also `yield V` without try: POST runs only on a normal end - not rewritten.) The manager's own locals are renamed apart unless
    it declares them `nonlocal`; it reads the enclosing function's variables exactly as the inlined statements do."""
    import copy

    changed = False
    for blk_owner in [n for n in ast.walk(fn) if hasattr(n, "body") and isinstance(getattr(n, "body"), list)]:
        for fld in ("body", "orelse", "finalbody"):
            blk = getattr(blk_owner, fld, None)
            if not isinstance(blk, list):
                continue
            for i, st in enumerate(list(blk)):
                if not (isinstance(st, (ast.With, ast.AsyncWith)) and len(st.items) == 1 and isinstance(st.items[0].context_expr, ast.Call)
                        and isinstance(st.items[0].context_expr.func, ast.Name) and not st.items[0].context_expr.args and not st.items[0].context_expr.keywords):
                    continue
                nm = st.items[0].context_expr.func.id
                defs = [d for d in fn.body if isinstance(d, (ast.FunctionDef, ast.AsyncFunctionDef)) and d.name == nm]
                if len(defs) != 1:
                    continue
                d = defs[0]
                if not any(ast.unparse(x).split(".")[-1] in ("contextmanager", "asynccontextmanager") for x in d.decorator_list) or len(d.decorator_list) != 1:
                    continue
                if isinstance(d, ast.AsyncFunctionDef) != isinstance(st, ast.AsyncWith):
                    continue
                a = d.args
                if a.args or a.vararg or a.kwarg or a.kwonlyargs or a.posonlyargs:
                    continue
                uses = [n for n in ast.walk(fn) if isinstance(n, ast.Name) and n.id == nm]
                if len(uses) != 1:
                    continue
                body = [x for x in d.body if not (isinstance(x, ast.Expr) and isinstance(x.value, ast.Constant))]
                nonlocals = {n_ for x in body if isinstance(x, ast.Nonlocal) for n_ in x.names}
                body = [x for x in body if not isinstance(x, ast.Nonlocal)]
                if not body or not isinstance(body[-1], ast.Try) or body[-1].handlers or body[-1].orelse or not body[-1].finalbody:
                    continue
                t = body[-1]
                if len(t.body) != 1 or not (isinstance(t.body[0], ast.Expr) and isinstance(t.body[0].value, ast.Yield)):
                    continue
                pre = body[:-1]
                if any(isinstance(n, (ast.Yield, ast.YieldFrom, ast.Return, ast.FunctionDef, ast.AsyncFunctionDef, ast.Lambda)) for x in pre + t.finalbody for n in ast.walk(x)):
                    continue
                pre, post = copy.deepcopy(pre), copy.deepcopy(t.finalbody)
                yv = copy.deepcopy(t.body[0].value.value)
                own = {n.id for x in pre + post for n in ast.walk(x) if isinstance(n, ast.Name) and isinstance(n.ctx, (ast.Store, ast.Del))} - nonlocals
                ren = {n_: f"_{nm}__{n_}" for n_ in own}
                for x in pre + post + ([yv] if yv is not None else []):
                    for n in ast.walk(x):
                        if isinstance(n, ast.Name) and n.id in ren:
                            n.id = ren[n.id]
                new = list(pre)
                ov = st.items[0].optional_vars
                if ov is not None:
                    new.append(ast.copy_location(ast.Assign(targets=[ov], value=yv if yv is not None else ast.Constant(value=None), type_comment=None), st))
                new.append(ast.copy_location(ast.Try(body=st.body, handlers=[], orelse=[], finalbody=post), st))
                j = blk.index(st)
                blk[j:j + 1] = new
                fn.body.remove(d)
                changed = True
    if changed:
        ast.fix_missing_locations(fn)
    return fn


class _PerFunction(ast.NodeTransformer):
    def visit_FunctionDef(self, node: ast.FunctionDef) -> ast.AST:
        self.generic_visit(node)
        node = _inline_local_contextmanagers(node)
        node = _YieldFromGenexp(node).visit(node)
        return _Accumulate(node).visit(node)

    def visit_AsyncFunctionDef(self, node: ast.AsyncFunctionDef) -> ast.AST:
        self.generic_visit(node)
        node = _inline_local_contextmanagers(node)
        return _Accumulate(node).visit(node)


# ----------------------------------------------------------------------------- N11: same-module prologue/epilogue decorators
def _decorator_shape(dfn: ast.FunctionDef):
    """(function parameter name, factory parameter names, wrapper def) of a decorator of one of the two plain shapes

           def deco(fn):                         def deco(a, b):              # factory
               [@functools.wraps(fn)]                def decorate(fn):
               [async] def wrapper(...): ...             <as on the left>
               [wrapper.attr = ...]*                 return decorate
               return wrapper
       or None."""
    import copy

    def plain(fdef):
        a = fdef.args
        if a.vararg or a.kwarg or a.kwonlyargs or a.posonlyargs or a.defaults or len(a.args) != 1:
            return None
        body = [st for st in fdef.body if not (isinstance(st, ast.Expr) and isinstance(st.value, ast.Constant))]
        if len(body) < 2 or not isinstance(body[0], (ast.FunctionDef, ast.AsyncFunctionDef)) or not isinstance(body[-1], ast.Return) \
                or not (isinstance(body[-1].value, ast.Name) and body[-1].value.id == body[0].name):
            return None
        w = body[0]
        for st in body[1:-1]:
            if not (isinstance(st, ast.Assign) and all(isinstance(t, ast.Attribute) and isinstance(t.value, ast.Name) and t.value.id == w.name for t in st.targets)):
                return None
        for d in w.decorator_list:
            if not (isinstance(d, ast.Call) and ast.unparse(d.func).split(".")[-1] == "wraps"):
                return None
        if any(isinstance(x, (ast.Nonlocal, ast.Global)) for x in ast.walk(w)):
            return None
        return a.args[0].arg, w

    direct = plain(dfn)
    if direct is not None and any(isinstance(c, ast.Call) and isinstance(c.func, ast.Name) and c.func.id == direct[0] for c in ast.walk(direct[1])):
        return direct[0], [], direct[1]
    a = dfn.args
    if a.vararg or a.kwarg or a.kwonlyargs or a.posonlyargs or a.defaults:
        return None
    body = [st for st in dfn.body if not (isinstance(st, ast.Expr) and isinstance(st.value, ast.Constant))]
    if len(body) == 2 and isinstance(body[0], ast.FunctionDef) and isinstance(body[1], ast.Return) and isinstance(body[1].value, ast.Name) and body[1].value.id == body[0].name:
        inner = plain(body[0])
        if inner is not None:
            return inner[0], [x.arg for x in a.args], inner[1]
    # a factory may first name a few values computed from its (constant) arguments: `message = "... %s" % name`; such a local,
    # assigned once from a pure expression over the factory's parameters and constants, is that expression
    if len(body) > 2 and isinstance(body[-2], ast.FunctionDef) and isinstance(body[-1], ast.Return) and isinstance(body[-1].value, ast.Name) and body[-1].value.id == body[-2].name:
        fparams = [x.arg for x in a.args]
        known = set(fparams)
        pre: List[Tuple[str, ast.expr]] = []

        def pure(e: ast.expr) -> bool:
            if isinstance(e, ast.Constant):
                return True
            if isinstance(e, ast.Name):
                return e.id in known
            if isinstance(e, ast.BinOp) and isinstance(e.op, (ast.Add, ast.Mod)):
                return pure(e.left) and pure(e.right)
            if isinstance(e, ast.Tuple):
                return all(pure(x) for x in e.elts)
            if isinstance(e, ast.JoinedStr):
                return all(isinstance(v, ast.Constant) or (isinstance(v, ast.FormattedValue) and v.format_spec is None and pure(v.value)) for v in e.values)
            return False

        for st in body[:-2]:
            if not (isinstance(st, ast.Assign) and len(st.targets) == 1 and isinstance(st.targets[0], ast.Name) and st.targets[0].id not in known and pure(st.value)):
                return None
            pre.append((st.targets[0].id, st.value))
            known.add(st.targets[0].id)
        inner = plain(body[-2])
        if inner is None:
            return None
        if any(isinstance(n, ast.Name) and isinstance(n.ctx, ast.Store) and n.id in known for n in ast.walk(inner[1])):
            return None
        w = copy.deepcopy(inner[1])

        class _Pre(ast.NodeTransformer):
            def __init__(self_, m):
                self_.m = m

            def visit_Name(self_, n):
                if isinstance(n.ctx, ast.Load) and n.id in self_.m:
                    return ast.copy_location(copy.deepcopy(self_.m[n.id]), n)
                return n
        m: dict = {}
        for nm, e in pre:
            m[nm] = _Pre(dict(m)).visit(copy.deepcopy(e))
        w = _Pre(m).visit(w)
        return inner[0], fparams, w
    return None


def _apply_decorators(tree: ast.Module) -> ast.Module:
    """N11: a function decorated with ONE decorator of the shapes above, defined at module level in the same module, is replaced by

           def _undecorated_<name>(<original parameters>): <original body>          # private: inlined by the analyses like any helper
           def <name>(<wrapper parameters>): <wrapper body, `fn(...)` -> the private function>

       `fn(self, a, b)` with the wrapper's own first parameter first becomes `self._undecorated_<name>(a, b)` for a method. A wrapper
       with the signature (*args, **kwargs) that only calls `fn(*args, **kwargs)` keeps the decorated function's own parameter
       list (its names are what rules look at). Factory arguments must be constants and are substituted. Exact: the decorator
       returns `wrapper` closed over `fn`, which is what the rewritten pair of functions is."""
    import copy

    decos = {st.name: st for st in tree.body if isinstance(st, ast.FunctionDef)}
    shapes = {}
    for nm, dfn in decos.items():
        sh = _decorator_shape(dfn)
        if sh is not None:
            shapes[nm] = sh
    if not shapes:
        return tree

    used: dict = {}

    def rewrite(fdef, in_class: bool):
        # the decorator applied FIRST (written last); outer property / cached_property decorators stay on the rewritten function:
        # cached_property(deco(f)) is cached_property(<the wrapper deco returns>)
        if not fdef.decorator_list:
            return None
        outer = fdef.decorator_list[:-1]
        if any(ast.unparse(o).split(".")[-1] not in ("property", "cached_property") for o in outer):
            return None
        d = fdef.decorator_list[-1]
        fargs = []
        if isinstance(d, ast.Call) and isinstance(d.func, ast.Name) and not d.keywords and all(isinstance(x, ast.Constant) for x in d.args):
            dname, fargs = d.func.id, list(d.args)
        elif isinstance(d, ast.Name):
            dname = d.id
        else:
            return None
        sh = shapes.get(dname)
        if sh is None or fdef.name == dname:
            return None
        fn_param, factory_params, w = sh
        if len(factory_params) != len(fargs) or (factory_params and not isinstance(d, ast.Call)) or (not factory_params and isinstance(d, ast.Call)):
            return None
        if isinstance(w, ast.AsyncFunctionDef) != isinstance(fdef, ast.AsyncFunctionDef) and not isinstance(w, ast.AsyncFunctionDef):
            pass
        priv = "_undecorated_" + fdef.name.strip("_")
        w2 = copy.deepcopy(w)
        subst = dict(zip(factory_params, fargs))
        wa = w2.args
        generic = bool(wa.vararg and wa.kwarg and not wa.args and not wa.kwonlyargs and not wa.posonlyargs)
        calls = [c for c in ast.walk(w2) if isinstance(c, ast.Call) and isinstance(c.func, ast.Name) and c.func.id == fn_param]
        others = [n for n in ast.walk(w2) if isinstance(n, ast.Name) and n.id == fn_param and not any(n is c.func for c in calls)]
        others = [n for n in others if not any(isinstance(dd, ast.Call) and any(n is x for x in ast.walk(dd)) for dd in w2.decorator_list)]
        if not calls or others:
            return None
        oa = fdef.args
        if generic:
            if oa.vararg or oa.kwarg or oa.kwonlyargs or oa.posonlyargs:
                return None
            for c in calls:
                if not (len(c.args) == 1 and isinstance(c.args[0], ast.Starred) and isinstance(c.args[0].value, ast.Name) and c.args[0].value.id == wa.vararg.arg
                        and len(c.keywords) == 1 and c.keywords[0].arg is None and isinstance(c.keywords[0].value, ast.Name) and c.keywords[0].value.id == wa.kwarg.arg):
                    return None
            if any(isinstance(n, ast.Name) and n.id in (wa.vararg.arg, wa.kwarg.arg) and not any(n is c.args[0].value or n is c.keywords[0].value for c in calls) for n in ast.walk(w2)):
                return None
            w2.args = copy.deepcopy(oa)
            names = [x.arg for x in oa.args]
            for c in calls:
                c.args = [ast.Name(id=nm, ctx=ast.Load()) for nm in names]
                c.keywords = []
            first = names[0] if names else None
        elif wa.vararg and wa.kwarg and (wa.args or wa.posonlyargs) and not wa.kwonlyargs and not wa.defaults:
            # (p1, .., pk, *args, **kwargs) calling fn(p1, .., pk, *args, **kwargs): the wrapper names the leading parameters it
            # uses itself; the rest of the decorated function's own parameters stand where *args / **kwargs were
            if oa.posonlyargs:
                return None
            pre = [x.arg for x in wa.posonlyargs + wa.args]  # (`self, /`: positional-only in the wrapper, a plain parameter of the function)
            names = [x.arg for x in oa.args]
            if names[:len(pre)] != pre:
                return None
            for c in calls:
                if not (len(c.args) == len(pre) + 1 and all(isinstance(x, ast.Name) and x.id == nm for x, nm in zip(c.args, pre))
                        and isinstance(c.args[-1], ast.Starred) and isinstance(c.args[-1].value, ast.Name) and c.args[-1].value.id == wa.vararg.arg
                        and len(c.keywords) == 1 and c.keywords[0].arg is None and isinstance(c.keywords[0].value, ast.Name) and c.keywords[0].value.id == wa.kwarg.arg):
                    return None
            if any(isinstance(n, ast.Name) and n.id in (wa.vararg.arg, wa.kwarg.arg) and not any(n is c.args[-1].value or n is c.keywords[0].value for c in calls) for n in ast.walk(w2)):
                return None
            own_rest = names[len(pre):] + [x.arg for x in oa.kwonlyargs] + ([oa.vararg.arg] if oa.vararg else []) + ([oa.kwarg.arg] if oa.kwarg else [])
            if any(isinstance(n, ast.Name) and isinstance(n.ctx, ast.Store) and n.id in own_rest for n in ast.walk(w2)):
                return None  # a local of the wrapper would collide with a parameter that takes the place of *args
            w2.args = copy.deepcopy(oa)
            for c in calls:
                # the function's own parameters are handed on one by one; its own *rest / **extra as they are
                c.args = [ast.Name(id=nm, ctx=ast.Load()) for nm in names] + ([ast.Starred(value=ast.Name(id=oa.vararg.arg, ctx=ast.Load()), ctx=ast.Load())] if oa.vararg else [])
                c.keywords = [ast.keyword(arg=x.arg, value=ast.Name(id=x.arg, ctx=ast.Load())) for x in oa.kwonlyargs] + ([ast.keyword(arg=None, value=ast.Name(id=oa.kwarg.arg, ctx=ast.Load()))] if oa.kwarg else [])
            first = names[0] if names else None
        else:
            first = wa.args[0].arg if wa.args else None
        for c in calls:
            if in_class and first is not None and c.args and isinstance(c.args[0], ast.Name) and c.args[0].id == first and first in ("self", "cls"):
                c.func = ast.Attribute(value=ast.Name(id=first, ctx=ast.Load()), attr=priv, ctx=ast.Load())
                c.args = c.args[1:]
            elif not in_class:
                c.func = ast.Name(id=priv, ctx=ast.Load())
            else:
                return None

        class Sub(ast.NodeTransformer):
            def visit_Name(self_, n):
                if n.id in subst and isinstance(n.ctx, ast.Load):
                    return ast.copy_location(copy.deepcopy(subst[n.id]), n)
                return n
        if subst:
            if any(isinstance(n, ast.Name) and n.id in subst and isinstance(n.ctx, ast.Store) for n in ast.walk(w2)):
                return None
            w2 = Sub().visit(w2)

            class Fold(ast.NodeTransformer):
                """an f-string piece that became a constant is part of the text (f'in {"Router"}' is 'in Router'); so is
                'in %s' % 'Router' and 'in ' + 'Router'"""
                def visit_BinOp(self_, n):
                    self_.generic_visit(n)
                    if isinstance(n.op, (ast.Mod, ast.Add)) and isinstance(n.left, ast.Constant) and isinstance(n.left.value, str):
                        try:
                            if isinstance(n.op, ast.Add) and isinstance(n.right, ast.Constant) and isinstance(n.right.value, str):
                                return ast.copy_location(ast.Constant(value=n.left.value + n.right.value), n)
                            if isinstance(n.op, ast.Mod) and isinstance(n.right, ast.Constant) and isinstance(n.right.value, (str, int)):
                                return ast.copy_location(ast.Constant(value=n.left.value % n.right.value), n)
                            if isinstance(n.op, ast.Mod) and isinstance(n.right, ast.Tuple) and all(isinstance(x, ast.Constant) and isinstance(x.value, (str, int)) for x in n.right.elts):
                                return ast.copy_location(ast.Constant(value=n.left.value % tuple(x.value for x in n.right.elts)), n)
                        except Exception:
                            return n
                    return n

                def visit_JoinedStr(self_, n):
                    self_.generic_visit(n)
                    parts = []
                    for v in n.values:
                        if isinstance(v, ast.FormattedValue) and isinstance(v.value, ast.Constant) and isinstance(v.value.value, str) and v.conversion == -1 and v.format_spec is None:
                            v = ast.copy_location(ast.Constant(value=v.value.value), v)
                        if isinstance(v, ast.Constant) and parts and isinstance(parts[-1], ast.Constant):
                            parts[-1] = ast.copy_location(ast.Constant(value=parts[-1].value + v.value), parts[-1])
                        else:
                            parts.append(v)
                    if len(parts) == 1 and isinstance(parts[0], ast.Constant):
                        return ast.copy_location(parts[0], n)
                    n.values = parts
                    return n
            w2 = Fold().visit(w2)
        w2.name = fdef.name
        w2.decorator_list = [copy.deepcopy(o) for o in outer]
        w2.returns = fdef.returns
        if not isinstance(w2.body[0], ast.Expr) or not isinstance(getattr(w2.body[0], "value", None), ast.Constant):
            doc = ast.get_docstring(fdef, clean=False)
            if doc is not None:
                w2.body.insert(0, ast.Expr(value=ast.Constant(value=doc)))
        used[dname] = used.get(dname, 0) + 1
        orig = copy.deepcopy(fdef)
        orig.name = priv
        orig.decorator_list = []
        ast.copy_location(w2, fdef)
        for n in ast.walk(w2):
            if not hasattr(n, "lineno") and isinstance(n, (ast.expr, ast.stmt)):
                ast.copy_location(n, fdef)
        return [orig, w2]

    def walk_body(body, in_class):
        out = []
        for st in body:
            if isinstance(st, (ast.FunctionDef, ast.AsyncFunctionDef)):
                r = rewrite(st, in_class)
                if r is not None:
                    out.extend(r)
                    continue
            elif isinstance(st, ast.ClassDef):
                st.body = walk_body(st.body, True)
            out.append(st)
        return out

    tree.body = walk_body(tree.body, False)
    # a private decorator all of whose uses were rewritten is not referred to any more: it is not a definition of the module
    for nm in list(shapes):
        if nm.startswith("_") and not nm.startswith("__"):
            rest = [n for st in tree.body if not (isinstance(st, ast.FunctionDef) and st.name == nm) for n in ast.walk(st)
                    if (isinstance(n, ast.Name) and n.id == nm) or (isinstance(n, ast.Constant) and n.value == nm)]
            if not rest and used.get(nm):
                tree.body = [st for st in tree.body if not (isinstance(st, ast.FunctionDef) and st.name == nm)]
    return tree


def normalise(tree: ast.Module) -> ast.Module:
    tree = _Normaliser().visit(tree)
    tree = _PerFunction().visit(tree)
    tree = _apply_decorators(tree)
    ast.fix_missing_locations(tree)
    return tree
