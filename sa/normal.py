"""Normal forms applied to every module right after parsing, so that rules written against one spelling of a statement see
the same tree for its equivalent spellings. Every rewrite here is an exact equivalence of Python semantics (same evaluations in
the same order, same exits); positions of the rewritten nodes are those of the statements they came from.

  N1  while True:               while not C:
          if C: break     ==>       rest            (loop without an else clause; `continue` in rest re-tests C in both)
          rest
      (`not (not X)` is written X: a while test is only used for its truth value)
"""
from __future__ import annotations

import ast


def _is_true(e: ast.expr) -> bool:
    return isinstance(e, ast.Constant) and e.value is True or (isinstance(e, ast.Constant) and e.value == 1 and not isinstance(e.value, bool))


def _negate(e: ast.expr) -> ast.expr:
    if isinstance(e, ast.UnaryOp) and isinstance(e.op, ast.Not):
        return e.operand
    return ast.copy_location(ast.UnaryOp(op=ast.Not(), operand=e), e)


class _Normaliser(ast.NodeTransformer):
    def visit_While(self, node: ast.While) -> ast.AST:
        self.generic_visit(node)
        while (_is_true(node.test) and not node.orelse and len(node.body) >= 2 and isinstance(node.body[0], ast.If) and not node.body[0].orelse
               and len(node.body[0].body) == 1 and isinstance(node.body[0].body[0], ast.Break)):
            node.test = _negate(node.body[0].test)
            node.body = node.body[1:]
            break
        return node


def normalise(tree: ast.Module) -> ast.Module:
    tree = _Normaliser().visit(tree)
    ast.fix_missing_locations(tree)
    return tree
