"""Regular-language decisions on folded regex constants.

re._parser.parse -> regex AST -> epsilon-NFA (Thompson) -> DFA over a finite set of
representative code points. Decides emptiness, inclusion, equality, first-character sets and
produces shortest witnesses. Supports exactly the constructs baize's patterns use; any other
node raises Unsupported (the calling rule then reports UNDECIDED, never "holds").

The alphabet: every code point 0..255 is its own symbol; beyond Latin-1 one representative
per class that the supported predicates can distinguish (non-ASCII decimal digit, letter,
white space, "other") plus every explicit literal / range end point (+-1) above 255 occurring
in the patterns under comparison.
"""
from __future__ import annotations

import re
import re._constants as C
import re._parser as P
from collections import deque
from typing import Dict, FrozenSet, Iterable, List, Optional, Sequence, Set, Tuple, Union


class Unsupported(Exception):
    pass


BASE_REPS = [
    0x0660,  # ARABIC-INDIC DIGIT ZERO: \d, \w in str patterns, not [0-9]
    0xFF11,  # FULLWIDTH DIGIT ONE
    0x0100,  # LATIN CAPITAL A WITH MACRON: \w
    0x4E2D,  # CJK: \w
    0x2028,  # LINE SEPARATOR: \s, str.splitlines boundary
    0x2029,  # PARAGRAPH SEPARATOR
    0x3000,  # IDEOGRAPHIC SPACE: \s
    0x1F600,  # emoji: nothing
    0x2603,  # snowman: nothing
]


class Regex:
    """Parsed pattern + its own literal code points above 255."""

    def __init__(self, pattern: Union[str, bytes], flags: int = 0) -> None:
        self.is_bytes = isinstance(pattern, bytes)
        self.pattern = pattern
        self.flags = flags
        try:
            self.tree = P.parse(pattern, flags)
        except re.error as e:
            raise Unsupported(f"regex does not parse: {e}")
        self.flags = self.tree.state.flags | flags
        self.extra: Set[int] = set()
        self._collect(self.tree)

    def _collect(self, sub) -> None:
        for op, av in sub:
            if op is C.LITERAL or op is C.NOT_LITERAL:
                if av > 255:
                    self.extra.update({av - 1, av, av + 1})
            elif op is C.IN:
                for o2, a2 in av:
                    if o2 is C.LITERAL and a2 > 255:
                        self.extra.update({a2 - 1, a2, a2 + 1})
                    elif o2 is C.RANGE:
                        lo, hi = a2
                        for x in (lo - 1, lo, hi, hi + 1):
                            if x > 255:
                                self.extra.add(x)
            elif op is C.BRANCH:
                for alt in av[1]:
                    self._collect(alt)
            elif op in (C.MAX_REPEAT, C.MIN_REPEAT, C.POSSESSIVE_REPEAT):
                self._collect(av[2])
            elif op is C.SUBPATTERN:
                self._collect(av[3])
            elif op is C.ATOMIC_GROUP:
                self._collect(av)


def alphabet_for(regexes: Sequence[Regex]) -> List[int]:
    if all(r.is_bytes for r in regexes):
        return list(range(256))
    a = set(range(256)) | set(BASE_REPS)
    for r in regexes:
        a |= {x for x in r.extra if 0 <= x <= 0x10FFFF}
    return sorted(a)


def _category(cat, ch: int, ascii_only: bool) -> bool:
    c = chr(ch)
    if ascii_only and ch > 127:
        pos = False
        base = {
            C.CATEGORY_DIGIT: False, C.CATEGORY_SPACE: False, C.CATEGORY_WORD: False,
        }
        if cat in base:
            return False
        if cat in (C.CATEGORY_NOT_DIGIT, C.CATEGORY_NOT_SPACE, C.CATEGORY_NOT_WORD):
            return True
        raise Unsupported(f"category {cat}")
    if cat is C.CATEGORY_DIGIT:
        return c.isdecimal() if not ascii_only else c in "0123456789"
    if cat is C.CATEGORY_NOT_DIGIT:
        return not (c.isdecimal() if not ascii_only else c in "0123456789")
    if cat is C.CATEGORY_SPACE:
        return c.isspace() if not ascii_only else c in " \t\n\r\f\v"
    if cat is C.CATEGORY_NOT_SPACE:
        return not (c.isspace() if not ascii_only else c in " \t\n\r\f\v")
    if cat is C.CATEGORY_WORD:
        return (c.isalnum() or c == "_")
    if cat is C.CATEGORY_NOT_WORD:
        return not (c.isalnum() or c == "_")
    raise Unsupported(f"category {cat}")


def _in_set(items, ch: int, ascii_only: bool, ignorecase: bool) -> bool:
    neg = False
    hit = False
    for op, av in items:
        if op is C.NEGATE:
            neg = True
        elif op is C.LITERAL:
            hit = hit or ch == av
        elif op is C.RANGE:
            hit = hit or av[0] <= ch <= av[1]
        elif op is C.CATEGORY:
            hit = hit or _category(av, ch, ascii_only)
        else:
            raise Unsupported(f"set item {op}")
    return hit != neg


class NFA:
    def __init__(self) -> None:
        self.eps: List[List[int]] = []
        self.trans: List[List[Tuple[FrozenSet[int], int]]] = []  # (symbol set, target)

    def new(self) -> int:
        self.eps.append([])
        self.trans.append([])
        return len(self.eps) - 1


def _build(nfa: NFA, sub, alphabet: List[int], ascii_only: bool, flags: int) -> Tuple[int, int]:
    """returns (start, end) of fragment"""
    start = nfa.new()
    cur = start
    for op, av in sub:
        s, e = _build_one(nfa, op, av, alphabet, ascii_only, flags)
        nfa.eps[cur].append(s)
        cur = e
    return start, cur


def _symset(pred, alphabet: List[int]) -> FrozenSet[int]:
    return frozenset(ch for ch in alphabet if pred(ch))


def _build_one(nfa: NFA, op, av, alphabet, ascii_only, flags) -> Tuple[int, int]:
    ic = bool(flags & re.IGNORECASE)
    if ic:
        raise Unsupported("IGNORECASE")
    if op is C.LITERAL:
        s, e = nfa.new(), nfa.new()
        nfa.trans[s].append((frozenset([av]), e))
        return s, e
    if op is C.NOT_LITERAL:
        s, e = nfa.new(), nfa.new()
        nfa.trans[s].append((_symset(lambda ch: ch != av, alphabet), e))
        return s, e
    if op is C.ANY:
        s, e = nfa.new(), nfa.new()
        if flags & re.DOTALL:
            nfa.trans[s].append((frozenset(alphabet), e))
        else:
            nfa.trans[s].append((_symset(lambda ch: ch != 10, alphabet), e))
        return s, e
    if op is C.IN:
        s, e = nfa.new(), nfa.new()
        nfa.trans[s].append((_symset(lambda ch: _in_set(av, ch, ascii_only, ic), alphabet), e))
        return s, e
    if op is C.BRANCH:
        s, e = nfa.new(), nfa.new()
        for alt in av[1]:
            a, b = _build(nfa, alt, alphabet, ascii_only, flags)
            nfa.eps[s].append(a)
            nfa.eps[b].append(e)
        return s, e
    if op is C.SUBPATTERN:
        group, add_flags, del_flags, p = av
        if add_flags or del_flags:
            raise Unsupported("inline flags")
        return _build(nfa, p, alphabet, ascii_only, flags)
    if op in (C.MAX_REPEAT, C.MIN_REPEAT):
        lo, hi, p = av
        if lo > 64 or (hi is not C.MAXREPEAT and hi > 64):
            raise Unsupported("large bounded repeat")
        s = nfa.new()
        cur = s
        for _ in range(lo):
            a, b = _build(nfa, p, alphabet, ascii_only, flags)
            nfa.eps[cur].append(a)
            cur = b
        if hi is C.MAXREPEAT:
            a, b = _build(nfa, p, alphabet, ascii_only, flags)
            e = nfa.new()
            nfa.eps[cur].append(a)
            nfa.eps[cur].append(e)
            nfa.eps[b].append(a)
            nfa.eps[b].append(e)
            return s, e
        e = nfa.new()
        nfa.eps[cur].append(e)
        for _ in range(hi - lo):
            a, b = _build(nfa, p, alphabet, ascii_only, flags)
            nfa.eps[cur].append(a)
            nfa.eps[b].append(e)
            cur = b
        return s, e
    raise Unsupported(f"regex node {op}")


class DFA:
    """Complete DFA over `alphabet`; state 0 is initial; dead state is explicit."""

    def __init__(self, alphabet: List[int]) -> None:
        self.alphabet = alphabet
        self.delta: List[Dict[int, int]] = []
        self.accept: List[bool] = []

    @property
    def n(self) -> int:
        return len(self.delta)

    def live_states(self) -> Set[int]:
        rev: Dict[int, Set[int]] = {}
        for s, d in enumerate(self.delta):
            for t in d.values():
                rev.setdefault(t, set()).add(s)
        live = {s for s in range(self.n) if self.accept[s]}
        dq = deque(live)
        while dq:
            t = dq.popleft()
            for s in rev.get(t, ()):
                if s not in live:
                    live.add(s)
                    dq.append(s)
        return live

    def is_empty(self) -> bool:
        return 0 not in self.live_states()

    def accepts(self, s: Iterable[int]) -> bool:
        st = 0
        for ch in s:
            if ch not in self.delta[st]:
                raise Unsupported(f"symbol {ch!r} not in alphabet")
            st = self.delta[st][ch]
        return self.accept[st]

    def first_set(self) -> Set[int]:
        live = self.live_states()
        return {ch for ch, t in self.delta[0].items() if t in live}

    def accepts_empty(self) -> bool:
        return self.accept[0]

    def shortest(self) -> Optional[List[int]]:
        return _witness(self, lambda st: self.accept[st])


def compile_dfa(rx: Regex, alphabet: List[int]) -> DFA:
    ascii_only = rx.is_bytes or bool(rx.flags & re.ASCII)
    nfa = NFA()
    s, e = _build(nfa, rx.tree, alphabet, ascii_only, rx.flags)

    def closure(states: Iterable[int]) -> FrozenSet[int]:
        seen = set(states)
        st = list(seen)
        while st:
            x = st.pop()
            for y in nfa.eps[x]:
                if y not in seen:
                    seen.add(y)
                    st.append(y)
        return frozenset(seen)

    dfa = DFA(alphabet)
    start = closure([s])
    index = {start: 0}
    order = [start]
    dfa.delta.append({})
    dfa.accept.append(e in start)
    i = 0
    while i < len(order):
        cur = order[i]
        # group symbols by target set
        moves: Dict[int, Set[int]] = {}
        for q in cur:
            for symset, t in nfa.trans[q]:
                for ch in symset:
                    moves.setdefault(ch, set()).add(t)
        cache: Dict[FrozenSet[int], int] = {}
        for ch in alphabet:
            tg = frozenset(moves.get(ch, ()))
            if tg in cache:
                dfa.delta[i][ch] = cache[tg]
                continue
            cl = closure(tg)
            if cl not in index:
                index[cl] = len(order)
                order.append(cl)
                dfa.delta.append({})
                dfa.accept.append(e in cl)
                if len(order) > 20000:
                    raise Unsupported("DFA too large")
            cache[tg] = index[cl]
            dfa.delta[i][ch] = index[cl]
        i += 1
    return dfa


def _witness(dfa: DFA, goal) -> Optional[List[int]]:
    prev: Dict[int, Tuple[int, int]] = {}
    seen = {0}
    dq = deque([0])
    while dq:
        s = dq.popleft()
        if goal(s):
            out = []
            while s != 0:
                s, ch = prev[s][0], prev[s][1]
                out.append(ch)
            return out[::-1]
        for ch in _nice(dfa.alphabet):
            t = dfa.delta[s][ch]
            if t not in seen:
                seen.add(t)
                prev[t] = (s, ch)
                dq.append(t)
    return None


def _nice(alphabet: List[int]) -> List[int]:
    """Order symbols so that witnesses prefer readable characters."""
    def key(c: int):
        if c in (120, 121, 122):
            return (0, c)
        if 48 <= c <= 57 or 97 <= c <= 122 or 65 <= c <= 90:
            return (1, c)
        if 32 < c < 127:
            return (2, c)
        return (3, c)
    return sorted(alphabet, key=key)


def difference_witness(a: DFA, b: DFA) -> Optional[List[int]]:
    """Shortest string in L(a) \\ L(b), or None if L(a) is included in L(b)."""
    assert a.alphabet == b.alphabet
    prev: Dict[Tuple[int, int], Tuple[Tuple[int, int], int]] = {}
    start = (0, 0)
    seen = {start}
    dq = deque([start])
    order = _nice(a.alphabet)
    while dq:
        s = dq.popleft()
        if a.accept[s[0]] and not b.accept[s[1]]:
            out = []
            while s != start:
                p, ch = prev[s]
                out.append(ch)
                s = p
            return out[::-1]
        for ch in order:
            t = (a.delta[s[0]][ch], b.delta[s[1]][ch])
            if t not in seen:
                seen.add(t)
                prev[t] = (s, ch)
                dq.append(t)
    return None


def show(word: Optional[List[int]], is_bytes: bool = False) -> str:
    if word is None:
        return "<none>"
    s = "".join(chr(c) for c in word)
    return repr(s.encode("latin-1")) if is_bytes else repr(s)


def compare(pat_a: Union[str, bytes], pat_b: Union[str, bytes], flags_a: int = 0, flags_b: int = 0):
    """returns (only_in_a witness or None, only_in_b witness or None, stats)"""
    ra, rb = Regex(pat_a, flags_a), Regex(pat_b, flags_b)
    if ra.is_bytes != rb.is_bytes:
        raise Unsupported("str/bytes mismatch")
    al = alphabet_for([ra, rb])
    da, db = compile_dfa(ra, al), compile_dfa(rb, al)
    return difference_witness(da, db), difference_witness(db, da), {"alphabet": len(al), "states_a": da.n, "states_b": db.n}


# ----------------------------------------------------------------------------- language transformers
def determinise(alphabet: List[int], starts: Iterable, step, accepting) -> DFA:
    """Subset construction over an implicit NFA without epsilon moves: `step(q, ch)` -> iterable of states,
    `accepting(q)` -> bool.  Used for the images of a regular language under str methods."""
    dfa = DFA(alphabet)
    start = frozenset(starts)
    index = {start: 0}
    order = [start]
    dfa.delta.append({})
    dfa.accept.append(any(accepting(q) for q in start))
    i = 0
    while i < len(order):
        cur = order[i]
        for ch in alphabet:
            tg = frozenset(t for q in cur for t in step(q, ch))
            if tg not in index:
                index[tg] = len(order)
                order.append(tg)
                dfa.delta.append({})
                dfa.accept.append(any(accepting(q) for q in tg))
                if len(order) > 20000:
                    raise Unsupported("DFA too large")
            dfa.delta[i][ch] = index[tg]
        i += 1
    return dfa


def intersect(a: DFA, b: DFA) -> DFA:
    assert a.alphabet == b.alphabet
    return determinise(a.alphabet, [(0, 0)], lambda q, ch: [(a.delta[q[0]][ch], b.delta[q[1]][ch])], lambda q: a.accept[q[0]] and b.accept[q[1]])


def _closure_over(d: DFA, chars: Set[int], frm: Iterable[int]) -> Set[int]:
    seen = set(frm)
    st = list(seen)
    while st:
        q = st.pop()
        for c in chars:
            if c in d.delta[q]:
                t = d.delta[q][c]
                if t not in seen:
                    seen.add(t)
                    st.append(t)
    return seen


def rstrip_lang(d: DFA, chars: Iterable[int]) -> DFA:
    """{ s.rstrip(chars) : s in L(d) }"""
    cs = {c for c in chars if c in set(d.alphabet)}
    # q is accepting' if an accepting state is reachable from q by chars*
    acc = {q for q in range(d.n) if any(d.accept[t] for t in _closure_over(d, cs, [q]))}
    return determinise(d.alphabet, [(0, False)], lambda q, ch: [(d.delta[q[0]][ch], ch in cs)], lambda q: q[0] in acc and not q[1])


def lstrip_lang(d: DFA, chars: Iterable[int]) -> DFA:
    """{ s.lstrip(chars) : s in L(d) }"""
    cs = {c for c in chars if c in set(d.alphabet)}
    starts = [(q, True) for q in _closure_over(d, cs, [0])]

    def step(q, ch):
        if q[1] and ch in cs:
            return []  # the result does not start with a stripped character
        return [(d.delta[q[0]][ch], False)]

    return determinise(d.alphabet, starts, step, lambda q: d.accept[q[0]])


def map_lang(d: DFA, f) -> DFA:
    """{ ''.join(f(c) for c in s) : s in L(d) } for a per-character map f: int -> int staying inside the alphabet."""
    al = set(d.alphabet)
    inv: Dict[int, List[int]] = {}
    live = d.live_states()
    used = {c for q in live for c, t in d.delta[q].items() if t in live}
    for c in sorted(used):
        t = f(c)
        if t not in al:
            raise Unsupported(f"character map leaves the alphabet at {c!r}")
        inv.setdefault(t, []).append(c)
    return determinise(d.alphabet, [0], lambda q, ch: [d.delta[q][c] for c in inv.get(ch, ())], lambda q: d.accept[q])


def dfa_of(pattern: str, alphabet: List[int], flags: int = 0) -> DFA:
    return compile_dfa(Regex(pattern, flags), alphabet)


def prefix_closure(d: DFA) -> DFA:
    """{ p : p is a prefix of some word of L(d) }"""
    live = d.live_states()
    out = DFA(d.alphabet)
    out.delta = [dict(x) for x in d.delta]
    out.accept = [q in live for q in range(d.n)]
    return out


def then_anything(d: DFA) -> DFA:
    """L(d) . Sigma*  (every word that has a prefix in L(d))"""
    return determinise(d.alphabet, [(0, d.accept[0])], lambda q, ch: [(d.delta[q[0]][ch], True)] if q[1] else [(d.delta[q[0]][ch], d.accept[d.delta[q[0]][ch]])], lambda q: q[1])


def complement(d: DFA) -> DFA:
    out = DFA(d.alphabet)
    out.delta = [dict(x) for x in d.delta]
    out.accept = [not a for a in d.accept]
    return out


def longest_word(d: DFA) -> Optional[int]:
    """Length of the longest word of L(d), or None if the language is infinite (a cycle through live, reachable states)."""
    live = d.live_states()
    if 0 not in live:
        return -1
    # reachable & live sub-graph
    reach = {0}
    st = [0]
    while st:
        q = st.pop()
        for t in set(d.delta[q].values()):
            if t in live and t not in reach:
                reach.add(t)
                st.append(t)
    color: Dict[int, int] = {}
    best: Dict[int, int] = {}

    def dfs(q: int) -> Optional[int]:
        # longest path (in edges) from q to an accepting state inside the sub-graph; None on a cycle
        if color.get(q) == 1:
            return None
        if color.get(q) == 2:
            return best[q]
        color[q] = 1
        b = 0 if d.accept[q] else -10 ** 9
        for t in set(d.delta[q].values()):
            if t in reach:
                r = dfs(t)
                if r is None:
                    return None
                b = max(b, r + 1)
        color[q] = 2
        best[q] = b
        return b

    import sys as _sys
    _sys.setrecursionlimit(max(_sys.getrecursionlimit(), 10000))
    return dfs(0)
