"""Result collection, known-findings handling, evidence writing, exit codes."""
from __future__ import annotations

import json
import os
import time
from dataclasses import dataclass, field
from typing import Any, Dict, List, Optional

VERIF = os.path.dirname(os.path.dirname(os.path.abspath(__file__)))
KNOWN_FINDINGS = os.path.join(VERIF, "known_findings.json")


def out_dir() -> str:
    """Where evidence/replay files are written. The self-test redirects this so that
    variant runs never touch the committed evidence."""
    return os.environ.get("BAIZE_VERIF_OUT", VERIF)


@dataclass
class Violation:
    rule: str
    construct: str  # module:qualname :: normalised statement text (no line numbers)
    where: str  # file:line (diagnostic only)
    message: str
    detail: Dict[str, Any] = field(default_factory=dict)

    def key(self) -> str:
        return f"{self.rule}|{self.construct}"


class Undecided(Exception):
    """A rule met something outside its enumerated idioms: neither holds nor violation."""


class Report:
    def __init__(self, prop: str, tier: str, level: str = "other") -> None:
        self.prop = prop
        self.tier = tier
        self.level = level
        self.t0 = time.time()
        self.violations: List[Violation] = []
        self.undecided: List[str] = []
        self.obligations = 0
        self.discharged = 0
        self.rule_instances: Dict[str, Dict[str, int]] = {}
        self.functions: List[str] = []
        self.call_sites = 0
        self.cfg_paths = 0
        self.samples: List[Any] = []
        self.assumptions: List[str] = []
        self.observations: List[str] = []
        self.explanation = ""
        self.extra: Dict[str, Any] = {}
        self.states = 0
        self.transitions = 0

    # ------------------------------------------------------------- recording
    def analysed(self, *fqs: str) -> None:
        for f in fqs:
            if f not in self.functions:
                self.functions.append(f)

    def ok(self, rule: str, what: str, sample: Any = None) -> None:
        """One obligation discharged."""
        self.obligations += 1
        self.discharged += 1
        ri = self.rule_instances.setdefault(rule, {"found": 0, "min": 0})
        ri["found"] += 1
        if sample is not None and len(self.samples) < 40:
            self.samples.append({"rule": rule, "obligation": what, "detail": sample})
        elif len(self.samples) < 12:
            self.samples.append({"rule": rule, "obligation": what})

    def violation(self, rule: str, construct: str, where: str, message: str, **detail: Any) -> None:
        self.obligations += 1
        ri = self.rule_instances.setdefault(rule, {"found": 0, "min": 0})
        ri["found"] += 1
        v = Violation(rule, construct, where, message, detail)
        if v.key() not in {x.key() for x in self.violations}:
            self.violations.append(v)

    def undecide(self, rule: str, why: str) -> None:
        self.undecided.append(f"{rule}: {why}")

    def require_instances(self, rule: str, minimum: int) -> None:
        ri = self.rule_instances.setdefault(rule, {"found": 0, "min": 0})
        ri["min"] = minimum
        if ri["found"] < minimum:
            self.undecide(rule, f"only {ri['found']} rule instances found, {minimum} were confirmed by hand on the pinned tree (anchor vanished?)")

    def observe(self, text: str) -> None:
        if text not in self.observations:
            self.observations.append(text)

    def assume(self, text: str) -> None:
        if text not in self.assumptions:
            self.assumptions.append(text)

    # --------------------------------------------------------------- finish
    def finish(self) -> int:
        known = load_known(self.prop)
        new: List[Violation] = []
        hit_known: List[Dict[str, Any]] = []
        for v in self.violations:
            k = match_known(known, v)
            if k is not None:
                hit_known.append({"finding": k, "violation": v})
            else:
                new.append(v)
        for h in hit_known:
            k = h["finding"]
            print(f"KNOWN-FINDING: property={self.prop} {k['id']} {k['rule']} {k['what_fails']}")
        code = 0
        replay = None
        if self.undecided:
            for u in self.undecided:
                print(f"UNDECIDED property={self.prop} {u}")
            code = 2
        if new:
            os.makedirs(os.path.join(out_dir(), "replay"), exist_ok=True)
            replay = os.path.join(out_dir(), "replay", f"{self.prop}.json")
            with open(replay, "w") as f:
                json.dump(
                    {
                        "property": self.prop,
                        "violations": [
                            {"rule": v.rule, "construct": v.construct, "where": v.where, "message": v.message, "detail": v.detail}
                            for v in new
                        ],
                    },
                    f,
                    indent=1,
                    default=str,
                )
            for v in new:
                print(f"  {v.where}: [{v.rule}] {v.message}\n      construct: {v.construct}")
            print(f"VIOLATION property={self.prop} replay={replay}")
            code = 1
        self._write_evidence(len(new), hit_known)
        return code

    def _write_evidence(self, n_new: int, hit_known: List[Dict[str, Any]]) -> None:
        cov: Dict[str, Any] = {
            "explanation": self.explanation,
            "obligations": self.obligations,
            "discharged": self.discharged,
            "functions_analysed": self.functions,
            "n_functions_analysed": len(self.functions),
            "call_sites": self.call_sites,
            "cfg_paths": self.cfg_paths,
            "rule_instances": self.rule_instances,
            "samples": self.samples or [{"note": "no obligations recorded"}],
            "known_findings_reported": [
                {"id": h["finding"]["id"], "rule": h["violation"].rule, "construct": h["violation"].construct, "where": h["violation"].where}
                for h in hit_known
            ],
            "observations": self.observations,
            "undecided": self.undecided,
            "exhaustive": True,
            "repo_root": os.environ.get("BAIZE_REPO", "/repo"),
        }
        if self.level == "model_checking":
            cov["states"] = self.states
            cov["transitions"] = self.transitions
            cov["traces_validated_against_impl"] = 0
        cov.update(self.extra)
        ev = {
            "property_id": self.prop,
            "tier": self.tier,
            "seed": int(os.environ.get("VERIF_SEED", "0") or 0),
            "level": self.level,
            "coverage": cov,
            "assumptions": self.assumptions,
            "wall_s": round(time.time() - self.t0, 3),
            "violations": n_new,
        }
        d = os.path.join(out_dir(), "evidence")
        os.makedirs(d, exist_ok=True)
        with open(os.path.join(d, f"{self.prop}.json"), "w") as f:
            json.dump(ev, f, indent=1, default=str)
            f.write("\n")


def load_known(prop: str) -> List[Dict[str, Any]]:
    if not os.path.exists(KNOWN_FINDINGS):
        return []
    with open(KNOWN_FINDINGS) as f:
        data = json.load(f)
    return [k for k in data.get("findings", []) if k.get("property") == prop and k.get("status") == "known"]


def match_known(known: List[Dict[str, Any]], v: Violation) -> Optional[Dict[str, Any]]:
    for k in known:
        if k["rule"] == v.rule and k["construct"] == v.construct:
            return k
    # A finding may also be identified by WHAT fails and THROUGH WHICH public entry points (`match`): the same operation
    # raising the same exception, reachable from no entry point other than the listed ones, is the same finding even when
    # the statement was moved into a helper or another module. Another operation, exception or entry point is a new violation.
    same = [k for k in known if k["rule"] == v.rule and k.get("match") and k["match"].get("operation") == v.detail.get("operation")
            and k["match"].get("exception") == v.detail.get("exception")]
    if same and v.detail.get("escapes_from"):
        entries = {e for k in same for e in k["match"].get("entries", [])}
        origins = {o for k in same for o in k["match"].get("origins", [])}
        if set(v.detail["escapes_from"]) <= entries and set(v.detail.get("origins") or []) <= origins and bool(v.detail.get("origins")) == bool(origins):
            return same[0]
    return None
