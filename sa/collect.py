"""PathCollector: runs the path-sensitive dataflow (flow.Interp) over a function and returns,
for every path to a normal or exceptional exit, the ordered list of distinct effects
(calls, stores, yields, raises) with their reaching-definition expression trees and the
branch facts of the path."""
from __future__ import annotations

import ast
from dataclasses import dataclass, field
from typing import Any, Callable, Dict, List, Optional, Sequence, Tuple

from .flow import ANY_BASE, ANY_EXC, Client, FALSE, Interp, NONE, State, TRUE, Value, show
from .loader import ClassInfo, FuncInfo, Program


@dataclass
class Event:
    kind: str  # call | store | delete | yield | yield_from | raise | branch
    a: Any = None  # callee / key / value
    b: Any = None  # args / value
    c: Any = None  # kwargs
    tag: int = 0
    depth: int = 0

    def tup(self):
        return (self.kind, self.a, self.b, self.c, self.tag, self.depth)


@dataclass
class Path:
    exit: str  # 'return' | 'raise'
    value: Any  # return value / exception name
    events: List[Event]
    facts: frozenset
    state: State

    def calls(self, pred: Callable[[Value], bool]) -> List[Event]:
        return [e for e in self.events if e.kind == "call" and pred(e.a)]

    def fact_text(self) -> List[str]:
        return sorted(("" if t else "not ") + show(v) for v, t in self.facts)


class Collector(Client):
    def __init__(self, inline: Callable[[FuncInfo], bool] = lambda fi: default_inline(fi), depth: int = 3,
                 raises: Callable[["Collector", Interp, Value, ast.AST], List[str]] = None,
                 yield_raises: bool = False, record_branches: bool = False,
                 intercept: Optional[Callable[[Interp, Value, Sequence[Value], Any, ast.Call, State], Optional[List[Tuple[Value, State]]]]] = None,
                 record_locals: Optional[Sequence[str]] = None) -> None:
        self._inline = inline
        self.max_inline_depth = depth
        self._raises = raises
        self._yield_raises = yield_raises
        self._record_branches = record_branches
        self._intercept = intercept
        self._record_locals = set(record_locals or ())
        self.nodes: Dict[int, Tuple[ast.AST, FuncInfo]] = {}

    def init_cs(self):
        return ()

    def _add(self, interp: Interp, st: State, ev: Tuple, node: ast.AST) -> State:
        self.nodes[ev[4]] = (node, interp.frame.fn)
        if ev in st.cs:
            return st
        return st.with_cs(st.cs + (ev,))

    def want_inline(self, fi, interp, node):
        return self._inline(fi)

    def on_call(self, interp, callee, args, kwargs, node, st):
        if self._intercept is not None:
            r = self._intercept(interp, callee, args, kwargs, node, st)
            if r is not None:
                return r
        return None

    def call_raises(self, interp, callee, node, st):
        if self._raises is None:
            return []
        return self._raises(self, interp, callee, node)

    def yield_raises(self, interp, node):
        return [ANY_BASE] if self._yield_raises else []

    def on_yield(self, interp, val, node, st):
        return self._add(interp, st, ("yield", val, None, None, interp.tag(node), interp.frame.no), node)

    def on_yield_from(self, interp, val, node, st):
        return self._add(interp, st, ("yield_from", val, None, None, interp.tag(node), interp.frame.no), node)

    def on_store(self, interp, key, val, node, st):
        return self._add(interp, st, ("store", key, val, None, interp.tag(node), interp.frame.no), node)

    def on_local(self, interp, name, val, node, st):
        # rebinding of a local the rule asked about, in the outermost analysed frame only: ("local", name, value)
        if name in self._record_locals and len(interp.frames) == 1:
            return self._add(interp, st, ("local", name, val, None, interp.tag(node), interp.frame.no), node)
        return st

    def on_delete(self, interp, key, node, st):
        return self._add(interp, st, ("delete", key, None, None, interp.tag(node), interp.frame.no), node)

    def on_raise(self, interp, exc, node, st):
        return self._add(interp, st, ("raise", exc, None, None, interp.tag(node), interp.frame.no), node)

    def on_branch(self, interp, test, truth, node, st):
        if self._record_branches:
            return self._add(interp, st, ("branch", test, truth, None, interp.tag(node), interp.frame.no), node)
        return st


class _RecordingInterp(Interp):
    """Interp that records every non-inlined call as an event (after argument evaluation)."""

    def call(self, cv, args, kwargs, node, st, out, meta=None):
        c: Collector = self.client  # type: ignore[assignment]
        fi = None
        if meta is not None:
            fi = meta[0]
        elif cv[0] in ("func", "closure"):
            try:
                fi = self.p.func(cv[1])
            except Exception:
                fi = None
        will_inline = fi is not None and not fi.is_generator() and len(self.frames) <= c.max_inline_depth and c.want_inline(fi, self, node)
        if not will_inline:
            st = c._add(self, st, ("call", cv, tuple(args), tuple(kwargs), self.tag(node), self.frame.no), node)
        return super().call(cv, args, kwargs, node, st, out, meta)


def default_inline(fi: FuncInfo) -> bool:
    """Private helpers are part of the function that calls them: a call of a repository function whose name starts with one
    underscore (not a dunder) is analysed inline, so that extracting a few statements into a helper - or inlining one -
    does not change what a path rule sees. Public functions stay calls (rules name them)."""
    n = fi.name
    if fi.parent is not None and not fi.decorators:
        # a nested function that is CALLED (directly, or as a callback the engine applies: an ExitStack callback, a partial) is part
        # of the function that defines it - nothing outside can name it
        return True
    if fi.cls is not None and fi.parent is None and fi.cls.name.startswith("_") and not fi.cls.name.startswith("__"):
        # a method of a private class (a small holder of state extracted from - or inlined back into - its user)
        return all(d in ("staticmethod", "classmethod", "property") for d in fi.decorators)
    if not (n.startswith("_") and not n.startswith("__")):
        return False
    # a decorator can change what a call does (a cache, a wrapper): such a helper is not its body
    return all(d in ("staticmethod", "classmethod") for d in fi.decorators)


def inline_except(*names: str) -> Callable[[FuncInfo], bool]:
    """default_inline, but the named private functions stay calls (they are what a rule talks about)"""
    return lambda fi: default_inline(fi) and fi.name not in names


def run_paths(program: Program, fn: FuncInfo, self_cls: Optional[ClassInfo] = None, *,
              inline: Callable[[FuncInfo], bool] = default_inline, depth: int = 3,
              raises=None, yield_raises: bool = False, record_branches: bool = False,
              bind: Optional[Dict[str, Value]] = None, intercept=None, record_locals: Optional[Sequence[str]] = None) -> Tuple[List[Path], Collector, Interp]:
    col = Collector(inline, depth, raises, yield_raises, record_branches, intercept, record_locals)
    it = _RecordingInterp(program, col)
    out = it.run(fn, self_cls, bind)
    paths: List[Path] = []
    for v, s in out.ret:
        paths.append(Path("return", v, [Event(*e) for e in s.cs], s.facts, s))
    for e, s in out.exc:
        paths.append(Path("raise", e, [Event(*ev) for ev in s.cs], s.facts, s))
    return paths, col, it


def callee_is(v: Value, *suffixes: str) -> bool:
    """Does the callee value denote a repo function / class / external whose name ends with one of suffixes?"""
    if not isinstance(v, tuple):
        return False
    if v[0] in ("func", "closure", "cls", "ext", "builtin"):
        name = v[1]
        return any(name == s or name.endswith(":" + s) or name.endswith("." + s) for s in suffixes)
    if v[0] == "attr":
        return any(v[2] == s for s in suffixes)
    return False
