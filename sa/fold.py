"""Constant folder: a whitelisted partial evaluator for *constant expressions* of the
repository (module constants, class attributes). Only a fixed list of pure stdlib operations on literals is interpreted;
a module constant defined by calling a repository helper (a table builder) is evaluated by the folder itself over the
helper's syntax tree - assignments, loops over constant ranges, if/continue/break/return on constants - within a step
budget, never by running the code. Module-level statements that complete a constant afterwards (`TABLE[k] = v`,
`TABLE.update(...)`) are applied; any other module-level change of it makes it NotConst. Anything else -> NotConst.
"""
from __future__ import annotations

import ast
import re
import string
from typing import Any, Dict, Optional

from .loader import ClassInfo, FuncInfo, Module, Program


class NotConst(Exception):
    pass


class CompiledRe:
    """what `re.compile(pattern, flags)` folds to"""

    def __init__(self, pattern, flags: int = 0) -> None:
        self.pattern = pattern
        self.flags = flags

    def __repr__(self) -> str:
        return f"re.compile({self.pattern!r}, {self.flags})"


class FoldRecord(tuple):
    """an instance of a NamedTuple class of the repository, folded"""
    _names: tuple = ()

    def __new__(cls, names, values):
        o = super().__new__(cls, values)
        o._names = tuple(names)
        return o

    def field(self, name):
        return self[self._names.index(name)]


class Opaque:
    """A symbolic atom standing for a run-time value inside an otherwise constant string/bytes
    template (e.g. the multipart boundary)."""

    def __init__(self, name: str) -> None:
        self.name = name

    def __repr__(self) -> str:
        return f"<{self.name}>"


_SAFE_STR_METHODS = {
    "lower", "upper", "strip", "lstrip", "rstrip", "encode", "decode", "join", "format",
    "startswith", "endswith", "replace", "split",
}

_EXT_CONSTS = {
    "string.ascii_letters": string.ascii_letters,
    "string.digits": string.digits,
    "string.ascii_lowercase": string.ascii_lowercase,
    "string.ascii_uppercase": string.ascii_uppercase,
    "string.hexdigits": string.hexdigits,
    "string.punctuation": string.punctuation,
    "string.printable": string.printable,
    "string.whitespace": string.whitespace,
    "string.octdigits": string.octdigits,
    "re.MULTILINE": re.MULTILINE,
    "re.DOTALL": re.DOTALL,
    "re.IGNORECASE": re.IGNORECASE,
    "re.ASCII": re.ASCII,
    "re.VERBOSE": re.VERBOSE,
    "re.M": re.MULTILINE,
    "re.S": re.DOTALL,
    "re.I": re.IGNORECASE,
    "re.A": re.ASCII,
    "os.sep": "/",
    "os.path.sep": "/",
}


class Folder:
    def __init__(self, program: Program) -> None:
        self.p = program

    def fold(self, mod: Module, expr: ast.expr, env: Optional[Dict[str, Any]] = None, depth: int = 0) -> Any:
        env = env or {}
        if depth > 40:
            raise NotConst("recursion")
        f = lambda e: self.fold(mod, e, env, depth + 1)  # noqa: E731
        if isinstance(expr, ast.Constant):
            return expr.value
        if isinstance(expr, ast.Name):
            if expr.id in env:
                return env[expr.id]
            if expr.id in ("True", "False", "None"):
                return {"True": True, "False": False, "None": None}[expr.id]
            r = self.p.lookup_name(mod, expr.id)
            if isinstance(r, tuple) and r[0] == "const":
                return self._module_value(r[1], expr.id if expr.id in r[1].constants and r[1].constants[expr.id] is r[2] else None, r[2], depth + 1)
            if isinstance(r, tuple) and r[0] == "ext" and r[1] in _EXT_CONSTS:
                return _EXT_CONSTS[r[1]]
            raise NotConst(f"name {expr.id}")
        if isinstance(expr, ast.Attribute):
            if isinstance(expr.value, ast.Name) and expr.value.id in env:
                base_ = env[expr.value.id]
                if isinstance(base_, FoldRecord) and expr.attr in base_._names:
                    return base_.field(expr.attr)
                if f"{expr.value.id}.{expr.attr}" in env:
                    return env[f"{expr.value.id}.{expr.attr}"]
                raise NotConst(f"attribute {ast.unparse(expr)}")
            r = self.p.resolve_dotted(mod, expr)
            if isinstance(r, tuple) and r[0] == "const":
                nm_ = next((k for k, v in r[1].constants.items() if v is r[2]), None)
                return self._module_value(r[1], nm_, r[2], depth + 1)
            if isinstance(r, tuple) and r[0] == "ext" and r[1] in _EXT_CONSTS:
                return _EXT_CONSTS[r[1]]
            raise NotConst(f"attribute {ast.unparse(expr)}")
        if isinstance(expr, ast.JoinedStr):
            out = ""
            for v in expr.values:
                if isinstance(v, ast.Constant):
                    out += v.value
                elif isinstance(v, ast.FormattedValue):
                    val = f(v.value)
                    if v.conversion != -1:
                        raise NotConst("format conversion")
                    if not isinstance(val, (str, int)):
                        raise NotConst("fstring non-str")
                    if v.format_spec is not None:
                        spec = f(v.format_spec)
                        if not isinstance(spec, str):
                            raise NotConst("format spec")
                        try:
                            out += format(val, spec)
                        except Exception as e:
                            raise NotConst(f"format spec: {e}")
                    else:
                        out += str(val)
            return out
        if isinstance(expr, ast.BinOp):
            l, r_ = f(expr.left), f(expr.right)
            if isinstance(expr.op, ast.Add):
                if isinstance(l, (str, bytes, int, tuple, list)) and type(l) == type(r_):
                    return l + r_
                raise NotConst("add types")
            if isinstance(expr.op, ast.Mod) and isinstance(l, (str, bytes)):
                try:
                    return l % r_
                except Exception as e:  # formatting error
                    raise NotConst(f"% formatting: {e}")
            if isinstance(expr.op, ast.Sub) and isinstance(l, (set, frozenset)) and isinstance(r_, (set, frozenset)):
                return l - r_
            if isinstance(expr.op, ast.Sub) and isinstance(l, int) and isinstance(r_, int):
                return l - r_
            if isinstance(expr.op, ast.Mult) and isinstance(l, int) and isinstance(r_, int):
                return l * r_
            if isinstance(expr.op, ast.BitOr):
                if isinstance(l, (set, frozenset)) and isinstance(r_, (set, frozenset)):
                    return l | r_
                if isinstance(l, int) and isinstance(r_, int):
                    return l | r_
            raise NotConst("binop")
        if isinstance(expr, ast.Tuple):
            return tuple(f(e) for e in expr.elts)
        if isinstance(expr, ast.List):
            return [f(e) for e in expr.elts]
        if isinstance(expr, ast.Set):
            return {f(e) for e in expr.elts}
        if isinstance(expr, ast.Dict):
            d: Dict[Any, Any] = {}
            for k, v in zip(expr.keys, expr.values):
                if k is None:
                    sub = f(v)
                    if not isinstance(sub, dict):
                        raise NotConst("** non dict")
                    d.update(sub)
                else:
                    d[f(k)] = f(v)
            return d
        if isinstance(expr, (ast.DictComp, ast.SetComp, ast.ListComp, ast.GeneratorExp)):
            if not 1 <= len(expr.generators) <= 3 or any(g_.is_async for g_ in expr.generators):
                raise NotConst("comprehension shape")
            res_l = []
            res_d: Dict[Any, Any] = {}

            def bind_target(t, x, e2):
                if isinstance(t, ast.Name):
                    e2[t.id] = x
                elif isinstance(t, (ast.Tuple, ast.List)) and isinstance(x, (tuple, list)) and len(t.elts) == len(x) and not any(isinstance(y, ast.Starred) for y in t.elts):
                    for ty, xy in zip(t.elts, x):
                        bind_target(ty, xy, e2)
                else:
                    raise NotConst("comprehension target")

            def rounds(k: int, env_k) -> None:
                """the k-th `for` clause, nested inside the earlier ones (their targets are visible to its iterable and conditions)"""
                if k == len(expr.generators):
                    if isinstance(expr, ast.DictComp):
                        res_d[self.fold(mod, expr.key, env_k, depth + 1)] = self.fold(mod, expr.value, env_k, depth + 1)
                    else:
                        res_l.append(self.fold(mod, expr.elt, env_k, depth + 1))
                    return
                g = expr.generators[k]
                it = self.fold(mod, g.iter, env_k, depth + 1)
                if not isinstance(it, (set, frozenset, list, tuple, range, str)):
                    raise NotConst("comprehension iter")
                items = sorted(it) if isinstance(it, (set, frozenset)) else list(it)
                for x in items:
                    e2 = dict(env_k)
                    bind_target(g.target, x, e2)
                    if all(self.fold(mod, c, e2, depth + 1) for c in g.ifs):
                        rounds(k + 1, e2)

            rounds(0, dict(env))
            if isinstance(expr, ast.DictComp):
                return res_d
            if isinstance(expr, ast.SetComp):
                return set(res_l)
            return res_l
        if isinstance(expr, ast.Call):
            return self._call(mod, expr, env, depth)
        if isinstance(expr, ast.Compare) and len(expr.ops) == 1:
            l, r_ = f(expr.left), f(expr.comparators[0])
            op = expr.ops[0]
            if isinstance(op, ast.Eq):
                return l == r_
            if isinstance(op, ast.NotEq):
                return l != r_
            if isinstance(op, ast.In):
                return l in r_
            if isinstance(op, ast.NotIn):
                return l not in r_
            if isinstance(op, (ast.Lt, ast.LtE, ast.Gt, ast.GtE)) and isinstance(l, (int, str, bytes)) and type(l) is type(r_):
                return {ast.Lt: l < r_, ast.LtE: l <= r_, ast.Gt: l > r_, ast.GtE: l >= r_}[type(op)]
            if isinstance(op, (ast.Is, ast.IsNot)) and (l is None or r_ is None or isinstance(l, bool) or isinstance(r_, bool)):
                return (l is r_) if isinstance(op, ast.Is) else (l is not r_)
            raise NotConst("compare")
        if isinstance(expr, ast.Subscript):
            v = f(expr.value)
            if isinstance(expr.slice, ast.Slice):
                sl = expr.slice
                lo, hi, st = (None if x is None else f(x) for x in (sl.lower, sl.upper, sl.step))
                if not all(x is None or isinstance(x, int) for x in (lo, hi, st)) or not isinstance(v, (str, bytes, list, tuple)):
                    raise NotConst("slice")
                return v[lo:hi:st]
            k = f(expr.slice)
            try:
                return v[k]
            except Exception:
                raise NotConst("subscript")
        if isinstance(expr, ast.UnaryOp) and isinstance(expr.op, ast.Not):
            return not f(expr.operand)
        if isinstance(expr, ast.BoolOp):
            v = None
            for e_ in expr.values:
                v = f(e_)
                if (isinstance(expr.op, ast.And) and not v) or (isinstance(expr.op, ast.Or) and v):
                    return v
            return v
        if isinstance(expr, ast.IfExp):
            return f(expr.body) if f(expr.test) else f(expr.orelse)
        if isinstance(expr, ast.UnaryOp) and isinstance(expr.op, ast.USub):
            v = f(expr.operand)
            if isinstance(v, int):
                return -v
        raise NotConst(type(expr).__name__)

    def _call(self, mod: Module, call: ast.Call, env, depth) -> Any:
        f = lambda e: self.fold(mod, e, env, depth + 1)  # noqa: E731
        fn = call.func
        if isinstance(fn, ast.Name):
            r = self.p.lookup_name(mod, fn.id) if fn.id not in (env or {}) else None
            if isinstance(r, FuncInfo):
                return self._eval_function(r, [f(a) for a in call.args], {kw.arg: f(kw.value) for kw in call.keywords if kw.arg}, depth + 1)
            if isinstance(r, ClassInfo) and any(ast.unparse(b).split(".")[-1] == "NamedTuple" for b in r.base_exprs):
                names = list(r.ann.keys())
                vals = {}
                for n_, a in zip(names, call.args):
                    vals[n_] = f(a)
                for kw in call.keywords:
                    if kw.arg is None or kw.arg not in names or kw.arg in vals:
                        raise NotConst("NamedTuple arguments")
                    vals[kw.arg] = f(kw.value)
                for n_ in names:
                    if n_ not in vals:
                        if n_ not in r.attrs:
                            raise NotConst("NamedTuple field without value")
                        vals[n_] = self.fold(r.module, r.attrs[n_], None, depth + 1)
                return FoldRecord(names, [vals[n_] for n_ in names])
            name = fn.id if r is None else (r[1] if isinstance(r, tuple) and r[0] == "ext" else None)
        elif isinstance(fn, ast.Attribute):
            r = self.p.resolve_dotted(mod, fn)
            name = r[1] if isinstance(r, tuple) and r[0] == "ext" else None
            if name is None:
                # method on a constant receiver
                recv = f(fn.value)
                if isinstance(recv, (str, bytes)) and fn.attr in _SAFE_STR_METHODS and not call.keywords:
                    args = [f(a) for a in call.args]
                    try:
                        return getattr(recv, fn.attr)(*args)
                    except Exception as e:
                        raise NotConst(f"str method failed: {e}")
                raise NotConst(f"method {fn.attr}")
        else:
            raise NotConst("callee")
        if call.keywords and name not in ("dict",):
            raise NotConst("keywords")
        if name == "map" and len(call.args) == 2:
            # only map(ord, <str>) / map(chr, <ints>)
            a0 = call.args[0]
            if isinstance(a0, ast.Name) and a0.id in ("ord", "chr") and self.p.lookup_name(mod, a0.id) is None:
                seq = f(call.args[1])
                return [ord(c) if a0.id == "ord" else chr(c) for c in seq]
            if isinstance(a0, ast.Attribute) and self.p.resolve_dotted(mod, a0) == ("ext", "re.escape"):
                seq = f(call.args[1])
                if isinstance(seq, (list, tuple)) and all(isinstance(x, (str, bytes)) for x in seq):
                    return [re.escape(x) for x in seq]
            raise NotConst("map")
        args = [f(a) for a in call.args]
        if name == "re.escape" and len(args) == 1 and isinstance(args[0], (str, bytes)):
            return re.escape(args[0])
        if name == "re.compile" and 1 <= len(args) <= 2 and isinstance(args[0], (str, bytes)) and all(isinstance(a, int) for a in args[1:]):
            return CompiledRe(args[0], args[1] if len(args) > 1 else 0)
        if name == "reversed" and len(args) == 1 and isinstance(args[0], (list, tuple, range, str, bytes)):
            return list(reversed(args[0]))
        if name == "set" and len(args) <= 1:
            return set(*args)
        if name == "frozenset" and len(args) <= 1:
            return frozenset(*args)
        if name == "range" and all(isinstance(a, int) for a in args) and 1 <= len(args) <= 3:
            r_ = range(*args)
            if len(r_) > 70000:
                raise NotConst("range too large")
            return r_
        if name == "ord" and len(args) == 1 and isinstance(args[0], str) and len(args[0]) == 1:
            return ord(args[0])
        if name == "chr" and len(args) == 1 and isinstance(args[0], int):
            return chr(args[0])
        if name == "len" and len(args) == 1:
            return len(args[0])
        if name == "dict":
            d = dict(*args)
            for kw in call.keywords:
                d[kw.arg] = f(kw.value)
            return d
        if name in ("tuple", "list", "sorted") and len(args) == 1:
            return {"tuple": tuple, "list": list, "sorted": sorted}[name](args[0])
        if name == "str" and len(args) == 1 and isinstance(args[0], (int, str)):
            return str(args[0])
        raise NotConst(f"call {name or ast.unparse(fn)}")

    # module-level constants that are completed by later module-level statements ---------------
    def _module_value(self, mod: Module, name: Optional[str], expr: ast.expr, depth: int) -> Any:
        val = self.fold(mod, expr, None, depth)
        if name is None or not isinstance(val, (dict, list, set)):
            return val
        for st in mod.tree.body:
            if not any(isinstance(n, ast.Name) and n.id == name for n in ast.walk(st)):
                continue
            if isinstance(st, (ast.Assign, ast.AnnAssign)) and getattr(st, "value", None) is expr:
                continue
            if isinstance(st, (ast.FunctionDef, ast.AsyncFunctionDef, ast.ClassDef)):
                continue  # uses inside functions are the process-wide-mutation rule's business, not the folder's
            if isinstance(st, ast.Assign) and len(st.targets) == 1 and isinstance(st.targets[0], ast.Subscript) and isinstance(st.targets[0].value, ast.Name) and st.targets[0].value.id == name \
                    and isinstance(val, (dict, list)):
                try:
                    val[self.fold(mod, st.targets[0].slice, None, depth + 1)] = self.fold(mod, st.value, None, depth + 1)
                except NotConst:
                    raise
                except Exception as e:
                    raise NotConst(f"module-level update of {name}: {e}")
                continue
            if isinstance(st, ast.Expr) and isinstance(st.value, ast.Call) and isinstance(st.value.func, ast.Attribute) and isinstance(st.value.func.value, ast.Name) and st.value.func.value.id == name \
                    and st.value.func.attr in ("update", "append", "extend", "add", "setdefault", "pop", "discard", "remove") and not st.value.keywords:
                args = [self.fold(mod, a, None, depth + 1) for a in st.value.args]
                try:
                    getattr(val, st.value.func.attr)(*args)
                except Exception as e:
                    raise NotConst(f"module-level update of {name}: {e}")
                continue
            if isinstance(st, ast.Delete) and all(isinstance(t, ast.Subscript) and isinstance(t.value, ast.Name) and t.value.id == name for t in st.targets):
                for t in st.targets:
                    try:
                        del val[self.fold(mod, t.slice, None, depth + 1)]
                    except NotConst:
                        raise
                    except Exception as e:
                        raise NotConst(f"module-level delete on {name}: {e}")
                continue
            # the name is read by another module-level statement (building another constant): harmless unless it is the target of a mutation we do not model
            if any(isinstance(n, (ast.Assign, ast.AugAssign, ast.Delete, ast.For, ast.While, ast.With, ast.If, ast.Try)) for n in [st]) and any(
                    (isinstance(n, ast.Name) and n.id == name and isinstance(n.ctx, (ast.Store, ast.Del)))
                    or (isinstance(n, (ast.Subscript, ast.Attribute)) and isinstance(n.ctx, (ast.Store, ast.Del)) and isinstance(n.value, ast.Name) and n.value.id == name)
                    or (isinstance(n, ast.Call) and isinstance(n.func, ast.Attribute) and isinstance(n.func.value, ast.Name) and n.func.value.id == name
                        and n.func.attr in ("update", "append", "extend", "add", "setdefault", "pop", "popitem", "clear", "discard", "remove", "insert", "sort", "reverse"))
                    for n in ast.walk(st)):
                raise NotConst(f"{name} is changed by a module-level statement outside the folder's table: {' '.join(ast.unparse(st).split())[:60]}")
        return val

    # bounded evaluation of a repository function on constants (the table-building helper of a module constant) -----------
    _STEP_LIMIT = 20000

    def _eval_function(self, fi: FuncInfo, args, kwargs, depth: int) -> Any:
        if depth > 12:
            raise NotConst("call depth")
        node = fi.node
        if isinstance(node, ast.AsyncFunctionDef) or fi.is_generator() or fi.decorators or node.args.kwarg or node.args.posonlyargs:
            raise NotConst(f"call {fi.fq}")
        names = [a.arg for a in node.args.args]
        if len(args) > len(names) and not node.args.vararg:
            raise NotConst("too many arguments")
        env: Dict[str, Any] = dict(zip(names, args))
        if node.args.vararg:
            env[node.args.vararg.arg] = tuple(args[len(names):])  # *rest collects the surplus positional arguments
        ndef = len(node.args.defaults)
        for i, a in enumerate(names):
            if a in env:
                continue
            if a in kwargs:
                env[a] = kwargs[a]
                continue
            j = i - (len(names) - ndef)
            if j < 0:
                raise NotConst("missing argument")
            env[a] = self.fold(fi.module, node.args.defaults[j], None, depth + 1)
        for a, d in zip(node.args.kwonlyargs, node.args.kw_defaults):
            if a.arg in kwargs:
                env[a.arg] = kwargs[a.arg]
            elif d is not None:
                env[a.arg] = self.fold(fi.module, d, None, depth + 1)
            else:
                raise NotConst("missing keyword argument")
        steps = [0]
        r = self._exec_block(fi.module, node.body, env, depth, steps)
        if r is not None and r[0] == "return":
            return r[1]
        return None

    def _exec_block(self, mod: Module, body, env: Dict[str, Any], depth: int, steps):
        ev = lambda e: self.fold(mod, e, env, depth + 1)  # noqa: E731
        for st in body:
            steps[0] += 1
            if steps[0] > self._STEP_LIMIT:
                raise NotConst("evaluation budget")
            if isinstance(st, ast.Expr) and isinstance(st.value, ast.Constant):
                continue  # docstring
            if isinstance(st, ast.Pass):
                continue
            if isinstance(st, ast.Return):
                return ("return", None if st.value is None else ev(st.value))
            if isinstance(st, ast.Break):
                return ("break",)
            if isinstance(st, ast.Continue):
                return ("continue",)
            if isinstance(st, (ast.Assign, ast.AnnAssign)):
                if isinstance(st, ast.AnnAssign):
                    if st.value is None:
                        continue
                    targets = [st.target]
                else:
                    targets = st.targets
                v = ev(st.value)
                for t in targets:
                    self._bind(mod, t, v, env, depth)
                continue
            if isinstance(st, ast.AugAssign) and isinstance(st.target, ast.Name):
                cur = ev(st.target)
                v = self.fold(mod, ast.BinOp(left=ast.Constant(value=cur), op=st.op, right=ast.Constant(value=ev(st.value))), env, depth + 1) \
                    if isinstance(cur, (str, bytes, int)) else None
                if v is None:
                    raise NotConst("augmented assignment")
                env[st.target.id] = v
                continue
            if isinstance(st, ast.If):
                r = self._exec_block(mod, st.body if ev(st.test) else st.orelse, env, depth, steps)
                if r is not None:
                    return r
                continue
            if isinstance(st, ast.While) and not st.orelse:
                while ev(st.test):
                    steps[0] += 1
                    if steps[0] > self._STEP_LIMIT:
                        raise NotConst("evaluation budget")
                    r = self._exec_block(mod, st.body, env, depth, steps)
                    if r is not None:
                        if r[0] == "break":
                            break
                        if r[0] == "return":
                            return r
                continue
            if isinstance(st, ast.For) and not st.orelse:
                it = ev(st.iter)
                if not isinstance(it, (list, tuple, range, str, bytes, dict, set, frozenset)):
                    raise NotConst("loop iterable")
                items = sorted(it) if isinstance(it, (set, frozenset)) else list(it)
                for x in items:
                    self._bind(mod, st.target, x, env, depth)
                    r = self._exec_block(mod, st.body, env, depth, steps)
                    if r is not None:
                        if r[0] == "break":
                            break
                        if r[0] == "return":
                            return r
                continue
            if isinstance(st, ast.Expr) and isinstance(st.value, ast.Call) and isinstance(st.value.func, ast.Attribute) and isinstance(st.value.func.value, ast.Name) \
                    and st.value.func.value.id in env and isinstance(env[st.value.func.value.id], (dict, list, set)) \
                    and st.value.func.attr in ("update", "append", "extend", "add", "setdefault", "pop", "discard", "remove", "insert", "reverse", "sort", "clear") and not st.value.keywords:
                try:
                    getattr(env[st.value.func.value.id], st.value.func.attr)(*[ev(a) for a in st.value.args])
                except NotConst:
                    raise
                except Exception as e:
                    raise NotConst(f"container update: {e}")
                continue
            if isinstance(st, ast.Delete) and all(isinstance(t, ast.Subscript) and isinstance(t.value, ast.Name) and t.value.id in env for t in st.targets):
                for t in st.targets:
                    try:
                        del env[t.value.id][ev(t.slice)]
                    except NotConst:
                        raise
                    except Exception as e:
                        raise NotConst(f"delete: {e}")
                continue
            raise NotConst(f"statement {type(st).__name__} in an evaluated helper")
        return None

    def exec_known(self, mod: Module, body, env: Dict[str, Any]) -> Dict[str, Any]:
        """Executes a statement list (e.g. a constructor body) as far as it is about constants: each top-level statement is tried
        with the executor; a statement that is not foldable is skipped and every name / self.attribute it binds is removed
        from `env` (it no longer has a known value). Returns env with `self.<attr>` keys for attribute stores."""
        for st in body:
            snapshot = dict(env)
            try:
                r = self._exec_block(mod, [st], env, 0, [0])
                if r is not None:
                    break
            except NotConst:
                env.clear()
                env.update(snapshot)
                for n in ast.walk(st):
                    if isinstance(n, ast.Name) and isinstance(n.ctx, (ast.Store, ast.Del)):
                        env.pop(n.id, None)
                    elif isinstance(n, ast.Attribute) and isinstance(n.ctx, (ast.Store, ast.Del)) and isinstance(n.value, ast.Name):
                        env.pop(f"{n.value.id}.{n.attr}", None)
                    elif isinstance(n, ast.Call) and isinstance(n.func, ast.Attribute) and isinstance(n.func.value, ast.Name):
                        env.pop(n.func.value.id, None)  # a container changed by a call we could not evaluate
        return env

    def _bind(self, mod: Module, t: ast.expr, v: Any, env: Dict[str, Any], depth: int) -> None:
        if isinstance(t, ast.Name):
            env[t.id] = v
        elif isinstance(t, (ast.Tuple, ast.List)) and isinstance(v, (tuple, list)) and len(v) == len(t.elts) and not any(isinstance(e, ast.Starred) for e in t.elts):
            for e, x in zip(t.elts, v):
                self._bind(mod, e, x, env, depth)
        elif isinstance(t, ast.Attribute) and isinstance(t.value, ast.Name) and t.value.id in ("self",):
            env[f"{t.value.id}.{t.attr}"] = v
        elif isinstance(t, ast.Subscript) and isinstance(t.value, ast.Name) and t.value.id in env and isinstance(env[t.value.id], (dict, list)):
            try:
                env[t.value.id][self.fold(mod, t.slice, env, depth + 1)] = v
            except NotConst:
                raise
            except Exception as e:
                raise NotConst(f"item assignment: {e}")
        else:
            raise NotConst("assignment target")

    # convenience -------------------------------------------------------
    def module_const(self, modname: str, name: str) -> Any:
        mod = self.p.module(modname)
        if name not in mod.constants:
            from .loader import AnalysisError

            raise AnalysisError(f"constant {modname}.{name} vanished")
        return self._module_value(mod, name, mod.constants[name], 0)

    def class_attr(self, ci: ClassInfo, name: str) -> Any:
        r = self.p.find_class_attr(ci, name)
        if r is None:
            raise NotConst(f"no class attribute {name}")
        return self.fold(r[0].module, r[1])
