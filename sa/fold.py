"""Constant folder: a whitelisted partial evaluator for *constant expressions* of the
repository (module constants, class attributes). It never calls repository code; only a
fixed list of pure stdlib operations on literals is interpreted. Anything else -> NotConst.
"""
from __future__ import annotations

import ast
import re
import string
from typing import Any, Dict, Optional

from .loader import ClassInfo, FuncInfo, Module, Program


class NotConst(Exception):
    pass


class Opaque:
    """A symbolic atom standing for a run-time value inside an otherwise constant string/bytes
    template (e.g. the multipart boundary)."""

    def __init__(self, name: str) -> None:
        self.name = name

    def __repr__(self) -> str:
        return f"<{self.name}>"


_SAFE_STR_METHODS = {
    "lower", "upper", "strip", "lstrip", "rstrip", "encode", "decode", "join", "format",
    "startswith", "endswith", "replace", "split",
}

_EXT_CONSTS = {
    "string.ascii_letters": string.ascii_letters,
    "string.digits": string.digits,
    "string.ascii_lowercase": string.ascii_lowercase,
    "string.ascii_uppercase": string.ascii_uppercase,
    "string.hexdigits": string.hexdigits,
    "string.punctuation": string.punctuation,
    "re.MULTILINE": re.MULTILINE,
    "re.DOTALL": re.DOTALL,
    "re.IGNORECASE": re.IGNORECASE,
    "re.ASCII": re.ASCII,
    "re.VERBOSE": re.VERBOSE,
    "re.M": re.MULTILINE,
    "re.S": re.DOTALL,
    "re.I": re.IGNORECASE,
    "re.A": re.ASCII,
    "os.sep": "/",
    "os.path.sep": "/",
}


class Folder:
    def __init__(self, program: Program) -> None:
        self.p = program

    def fold(self, mod: Module, expr: ast.expr, env: Optional[Dict[str, Any]] = None, depth: int = 0) -> Any:
        env = env or {}
        if depth > 40:
            raise NotConst("recursion")
        f = lambda e: self.fold(mod, e, env, depth + 1)  # noqa: E731
        if isinstance(expr, ast.Constant):
            return expr.value
        if isinstance(expr, ast.Name):
            if expr.id in env:
                return env[expr.id]
            if expr.id in ("True", "False", "None"):
                return {"True": True, "False": False, "None": None}[expr.id]
            r = self.p.lookup_name(mod, expr.id)
            if isinstance(r, tuple) and r[0] == "const":
                return self.fold(r[1], r[2], None, depth + 1)
            if isinstance(r, tuple) and r[0] == "ext" and r[1] in _EXT_CONSTS:
                return _EXT_CONSTS[r[1]]
            raise NotConst(f"name {expr.id}")
        if isinstance(expr, ast.Attribute):
            r = self.p.resolve_dotted(mod, expr)
            if isinstance(r, tuple) and r[0] == "const":
                return self.fold(r[1], r[2], None, depth + 1)
            if isinstance(r, tuple) and r[0] == "ext" and r[1] in _EXT_CONSTS:
                return _EXT_CONSTS[r[1]]
            raise NotConst(f"attribute {ast.unparse(expr)}")
        if isinstance(expr, ast.JoinedStr):
            out = ""
            for v in expr.values:
                if isinstance(v, ast.Constant):
                    out += v.value
                elif isinstance(v, ast.FormattedValue):
                    val = f(v.value)
                    if v.conversion != -1 or v.format_spec is not None:
                        raise NotConst("format spec")
                    if not isinstance(val, (str, int)):
                        raise NotConst("fstring non-str")
                    out += str(val)
            return out
        if isinstance(expr, ast.BinOp):
            l, r_ = f(expr.left), f(expr.right)
            if isinstance(expr.op, ast.Add):
                if isinstance(l, (str, bytes, int, tuple, list)) and type(l) == type(r_):
                    return l + r_
                raise NotConst("add types")
            if isinstance(expr.op, ast.Mod) and isinstance(l, (str, bytes)):
                try:
                    return l % r_
                except Exception as e:  # formatting error
                    raise NotConst(f"% formatting: {e}")
            if isinstance(expr.op, ast.Sub) and isinstance(l, (set, frozenset)) and isinstance(r_, (set, frozenset)):
                return l - r_
            if isinstance(expr.op, ast.Sub) and isinstance(l, int) and isinstance(r_, int):
                return l - r_
            if isinstance(expr.op, ast.Mult) and isinstance(l, int) and isinstance(r_, int):
                return l * r_
            if isinstance(expr.op, ast.BitOr):
                if isinstance(l, (set, frozenset)) and isinstance(r_, (set, frozenset)):
                    return l | r_
                if isinstance(l, int) and isinstance(r_, int):
                    return l | r_
            raise NotConst("binop")
        if isinstance(expr, ast.Tuple):
            return tuple(f(e) for e in expr.elts)
        if isinstance(expr, ast.List):
            return [f(e) for e in expr.elts]
        if isinstance(expr, ast.Set):
            return {f(e) for e in expr.elts}
        if isinstance(expr, ast.Dict):
            d: Dict[Any, Any] = {}
            for k, v in zip(expr.keys, expr.values):
                if k is None:
                    sub = f(v)
                    if not isinstance(sub, dict):
                        raise NotConst("** non dict")
                    d.update(sub)
                else:
                    d[f(k)] = f(v)
            return d
        if isinstance(expr, (ast.DictComp, ast.SetComp, ast.ListComp, ast.GeneratorExp)):
            if len(expr.generators) != 1:
                raise NotConst("nested comprehension")
            g = expr.generators[0]
            if g.is_async or not isinstance(g.target, ast.Name):
                raise NotConst("comprehension target")
            it = f(g.iter)
            if not isinstance(it, (set, frozenset, list, tuple, range, str)):
                raise NotConst("comprehension iter")
            items = sorted(it) if isinstance(it, (set, frozenset)) else list(it)
            res_l = []
            res_d: Dict[Any, Any] = {}
            for x in items:
                e2 = dict(env)
                e2[g.target.id] = x
                if not all(self.fold(mod, c, e2, depth + 1) for c in g.ifs):
                    continue
                if isinstance(expr, ast.DictComp):
                    res_d[self.fold(mod, expr.key, e2, depth + 1)] = self.fold(mod, expr.value, e2, depth + 1)
                else:
                    res_l.append(self.fold(mod, expr.elt, e2, depth + 1))
            if isinstance(expr, ast.DictComp):
                return res_d
            if isinstance(expr, ast.SetComp):
                return set(res_l)
            return res_l
        if isinstance(expr, ast.Call):
            return self._call(mod, expr, env, depth)
        if isinstance(expr, ast.Compare) and len(expr.ops) == 1:
            l, r_ = f(expr.left), f(expr.comparators[0])
            op = expr.ops[0]
            if isinstance(op, ast.Eq):
                return l == r_
            if isinstance(op, ast.NotEq):
                return l != r_
            if isinstance(op, ast.In):
                return l in r_
            if isinstance(op, ast.NotIn):
                return l not in r_
            raise NotConst("compare")
        if isinstance(expr, ast.Subscript):
            v = f(expr.value)
            if isinstance(expr.slice, ast.Slice):
                sl = expr.slice
                lo, hi, st = (None if x is None else f(x) for x in (sl.lower, sl.upper, sl.step))
                if not all(x is None or isinstance(x, int) for x in (lo, hi, st)) or not isinstance(v, (str, bytes, list, tuple)):
                    raise NotConst("slice")
                return v[lo:hi:st]
            k = f(expr.slice)
            try:
                return v[k]
            except Exception:
                raise NotConst("subscript")
        if isinstance(expr, ast.UnaryOp) and isinstance(expr.op, ast.USub):
            v = f(expr.operand)
            if isinstance(v, int):
                return -v
        raise NotConst(type(expr).__name__)

    def _call(self, mod: Module, call: ast.Call, env, depth) -> Any:
        f = lambda e: self.fold(mod, e, env, depth + 1)  # noqa: E731
        fn = call.func
        if isinstance(fn, ast.Name):
            r = self.p.lookup_name(mod, fn.id)
            name = fn.id if r is None else (r[1] if isinstance(r, tuple) and r[0] == "ext" else None)
        elif isinstance(fn, ast.Attribute):
            r = self.p.resolve_dotted(mod, fn)
            name = r[1] if isinstance(r, tuple) and r[0] == "ext" else None
            if name is None:
                # method on a constant receiver
                recv = f(fn.value)
                if isinstance(recv, (str, bytes)) and fn.attr in _SAFE_STR_METHODS and not call.keywords:
                    args = [f(a) for a in call.args]
                    try:
                        return getattr(recv, fn.attr)(*args)
                    except Exception as e:
                        raise NotConst(f"str method failed: {e}")
                raise NotConst(f"method {fn.attr}")
        else:
            raise NotConst("callee")
        if call.keywords and name not in ("dict",):
            raise NotConst("keywords")
        if name == "map" and len(call.args) == 2:
            # only map(ord, <str>) / map(chr, <ints>)
            a0 = call.args[0]
            if isinstance(a0, ast.Name) and a0.id in ("ord", "chr") and self.p.lookup_name(mod, a0.id) is None:
                seq = f(call.args[1])
                return [ord(c) if a0.id == "ord" else chr(c) for c in seq]
            raise NotConst("map")
        args = [f(a) for a in call.args]
        if name == "re.escape" and len(args) == 1 and isinstance(args[0], (str, bytes)):
            return re.escape(args[0])
        if name == "set" and len(args) <= 1:
            return set(*args)
        if name == "frozenset" and len(args) <= 1:
            return frozenset(*args)
        if name == "range" and all(isinstance(a, int) for a in args) and 1 <= len(args) <= 3:
            r_ = range(*args)
            if len(r_) > 70000:
                raise NotConst("range too large")
            return r_
        if name == "ord" and len(args) == 1 and isinstance(args[0], str) and len(args[0]) == 1:
            return ord(args[0])
        if name == "chr" and len(args) == 1 and isinstance(args[0], int):
            return chr(args[0])
        if name == "len" and len(args) == 1:
            return len(args[0])
        if name == "dict":
            d = dict(*args)
            for kw in call.keywords:
                d[kw.arg] = f(kw.value)
            return d
        if name in ("tuple", "list", "sorted") and len(args) == 1:
            return {"tuple": tuple, "list": list, "sorted": sorted}[name](args[0])
        if name == "str" and len(args) == 1 and isinstance(args[0], (int, str)):
            return str(args[0])
        raise NotConst(f"call {name or ast.unparse(fn)}")

    # convenience -------------------------------------------------------
    def module_const(self, modname: str, name: str) -> Any:
        mod = self.p.module(modname)
        if name not in mod.constants:
            from .loader import AnalysisError

            raise AnalysisError(f"constant {modname}.{name} vanished")
        return self.fold(mod, mod.constants[name])

    def class_attr(self, ci: ClassInfo, name: str) -> Any:
        r = self.p.find_class_attr(ci, name)
        if r is None:
            raise NotConst(f"no class attribute {name}")
        return self.fold(r[0].module, r[1])
