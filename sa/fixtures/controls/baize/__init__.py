"""Tiny positive examples for the zero-expected rules of /verif/sa (never imported, only parsed): every run checks that
the detectors still fire on them."""
import functools

CACHE = {}


class Memo:
    memo = {}
    order = []

    def keep(self, key, value):
        self.memo[key] = value  # class-level container mutated through self
        Memo.order.append(key)  # ... and through the class name
        CACHE.setdefault(key, value)  # module-level container mutated

    def lookup(self, key):
        return key

    def rebind(self):
        self.lookup = functools.lru_cache(maxsize=None)(self.lookup)  # method rebound on the instance, by a cache


def shrink(items, positions):
    indexes = [i for i, x in enumerate(items) if x in positions]
    for i in indexes:
        del items[i]  # ascending positions while deleting


class Conn:
    def __init__(self, environ, start_response):
        self._environ = environ
        self._start_response = start_response


def capture(request, status, headers, exc_info=None):
    request._start_response(status, headers, exc_info)  # the stored server callback called from package code
