"""Loader + resolver: parses every module under <repo>/baize (never imports it),
builds the module/class/function tables, C3 MRO across modules and a call resolver.

Nothing here executes repository code.
"""
from __future__ import annotations

import ast
import os
from dataclasses import dataclass, field
from typing import Dict, List, Optional, Set, Tuple, Union

from .normal import normalise


class AnalysisError(Exception):
    """The analysis cannot be carried out (anchor vanished, parse failure ...)."""


def repo_root() -> str:
    return os.environ.get("BAIZE_REPO", "/repo")


@dataclass(eq=False)
class FuncInfo:
    name: str
    qualname: str  # e.g. "FileResponse.handle_all" or "middleware.d.wsgi"
    module: "Module"
    node: Union[ast.FunctionDef, ast.AsyncFunctionDef, ast.Lambda]
    cls: Optional["ClassInfo"] = None
    parent: Optional["FuncInfo"] = None
    nested: Dict[str, "FuncInfo"] = field(default_factory=dict)
    alternatives: List["FuncInfo"] = field(default_factory=list)  # same name, other branch

    @property
    def is_async(self) -> bool:
        return isinstance(self.node, ast.AsyncFunctionDef)

    @property
    def decorators(self) -> List[str]:
        out = []
        for d in getattr(self.node, "decorator_list", []):
            out.append(ast.unparse(d))
        return out

    @property
    def params(self) -> List[str]:
        a = self.node.args
        return [x.arg for x in (a.posonlyargs + a.args + a.kwonlyargs)]

    @property
    def loc(self) -> str:
        return f"{self.module.relpath}:{self.node.lineno}"

    @property
    def fq(self) -> str:
        return f"{self.module.name}:{self.qualname}"

    def is_generator(self) -> bool:
        for n in walk_shallow(self.node):
            if isinstance(n, (ast.Yield, ast.YieldFrom)):
                return True
        return False

    def __repr__(self) -> str:
        return f"<Func {self.fq}>"


class _Methods(dict):
    def __init__(self, own, program, ci) -> None:
        super().__init__(own)
        self._program = program
        self._ci = ci

    def get(self, name, default=None):  # type: ignore[override]
        if name in self:
            return self[name]
        try:
            m = self._program.find_method(self._ci, name)
        except Exception:
            m = None
        return m if m is not None else default


@dataclass(eq=False)
class ClassInfo:
    name: str
    module: "Module"
    node: ast.ClassDef
    base_exprs: List[ast.expr] = field(default_factory=list)
    methods: Dict[str, FuncInfo] = field(default_factory=dict)
    attrs: Dict[str, ast.expr] = field(default_factory=dict)  # class-level assignments
    ann: Dict[str, ast.expr] = field(default_factory=dict)

    @property
    def fq(self) -> str:
        return f"{self.module.name}:{self.name}"

    @property
    def loc(self) -> str:
        return f"{self.module.relpath}:{self.node.lineno}"

    def __repr__(self) -> str:
        return f"<Class {self.fq}>"


@dataclass(eq=False)
class Module:
    name: str  # dotted, e.g. baize.wsgi.responses
    path: str
    relpath: str  # baize/wsgi/responses.py
    source: str
    tree: ast.Module
    imports: Dict[str, Tuple[str, Optional[str]]] = field(default_factory=dict)
    # local name -> (module dotted, attr or None)
    functions: Dict[str, FuncInfo] = field(default_factory=dict)
    classes: Dict[str, ClassInfo] = field(default_factory=dict)
    constants: Dict[str, ast.expr] = field(default_factory=dict)
    all_funcs: List[FuncInfo] = field(default_factory=list)

    @property
    def is_package(self) -> bool:
        return self.path.endswith("__init__.py")


def walk_shallow(fn_node: ast.AST):
    """Walk a function body without descending into nested defs/lambdas/classes."""
    stack = list(ast.iter_child_nodes(fn_node))
    while stack:
        n = stack.pop()
        yield n
        if isinstance(n, (ast.FunctionDef, ast.AsyncFunctionDef, ast.Lambda, ast.ClassDef)):
            continue
        stack.extend(ast.iter_child_nodes(n))


def set_parents(tree: ast.AST) -> None:
    for node in ast.walk(tree):
        for child in ast.iter_child_nodes(node):
            child._parent = node  # type: ignore[attr-defined]


class Program:
    PACKAGE = "baize"

    def __init__(self, root: Optional[str] = None) -> None:
        self.root = root or repo_root()
        self.modules: Dict[str, Module] = {}
        self._mro_cache: Dict[ClassInfo, List[Union[ClassInfo, str]]] = {}
        self._load()

    # ------------------------------------------------------------------ load
    def _load(self) -> None:
        pkg_dir = os.path.join(self.root, self.PACKAGE)
        if not os.path.isdir(pkg_dir):
            raise AnalysisError(f"package directory {pkg_dir} not found")
        for dirpath, dirnames, filenames in os.walk(pkg_dir):
            dirnames[:] = sorted(d for d in dirnames if d != "__pycache__")
            for fn in sorted(filenames):
                if not fn.endswith(".py"):
                    continue
                path = os.path.join(dirpath, fn)
                rel = os.path.relpath(path, self.root)
                parts = rel[:-3].split(os.sep)
                if parts[-1] == "__init__":
                    parts = parts[:-1]
                name = ".".join(parts)
                with open(path, "r", encoding="utf-8") as f:
                    src = f.read()
                try:
                    tree = ast.parse(src, filename=path)
                except SyntaxError as e:
                    raise AnalysisError(f"cannot parse {rel}: {e}")
                tree = normalise(tree)
                set_parents(tree)
                mod = Module(name=name, path=path, relpath=rel, source=src, tree=tree)
                self.modules[name] = mod
        for mod in self.modules.values():
            self._index_module(mod)
        self._inline_generator_helpers()
        # `cls.methods.get(name)` also finds a method the class inherits (a method merged into / moved to a base class is still
        # the class's method); iteration, `in`, len() and [] keep meaning the class's OWN definitions
        for mod in self.modules.values():
            for ci in mod.classes.values():
                ci.methods = _Methods(ci.methods, self, ci)

    # private helpers that exist on the pinned tree and that rules talk about by name: never dissolved into their callers
    KEEP_HELPERS = ("_parse_multipart", "_raise_on_disconnect", "_quote", "_build_url", "_parse_headers", "_parseparam")

    def _inline_generator_helpers(self) -> None:
        """Normal forms that need the call resolver (hence here and not in normal.py). Both dissolve a PRIVATE helper
        (`_name`, undecorated or a staticmethod, positional parameters only, no nested definitions, not recursive, not one of
        KEEP_HELPERS) into the statement that uses it; the arguments are evaluated once, in order, into fresh locals before the
        body - exactly what the call does - and the helper's own locals get a prefix that cannot clash.

          N8   yield from self._gen(a, b)            ==>   _gen__p = a; _gen__q = b; <body of _gen>
               (synchronous generator helper without `return`)

          N9   x = self._h(a) | self._h(a) | return self._h(a)   (also awaited, for an `async def` helper)
                                                     ==>   _h__p = a; <body of _h, `return E` -> `_h__ret = E`>; x = _h__ret
               A helper whose only `return` is its last statement is spliced in directly; one with early returns (guard
               clauses) is wrapped in a one-pass loop `for _h__once in (None,):` and `return E` becomes `_h__ret = E; break`
               (allowed only when no `return` sits inside a loop, `try` or `with` of the helper)."""
        import copy

        overridden_cache: Dict[str, bool] = {}

        def overridden(fi: FuncInfo) -> bool:
            """a method that some subclass redefines is dispatched on the receiver: `self._m()` is not its body"""
            if fi.cls is None:
                return False
            if fi.fq not in overridden_cache:
                overridden_cache[fi.fq] = any(fi.name in dict.keys(c.methods) and c.methods[fi.name] is not fi for c in self.subclasses(fi.cls))
            return overridden_cache[fi.fq]

        def private(fi: FuncInfo) -> bool:
            return fi.name.startswith("_") and not fi.name.startswith("__") and all(d in ("staticmethod",) for d in fi.decorators) and fi.name not in self.KEEP_HELPERS \
                and not overridden(fi)

        changed_mods = set()
        self.inlined_generators: Set[str] = set()
        self.inlined_into: Dict[str, Set[str]] = {}  # private helper -> the functions it was inlined into (N8/N9)

        def simple_params(h: FuncInfo, call: ast.Call):
            a = h.node.args
            if a.vararg or a.kwarg or a.kwonlyargs or a.posonlyargs or any(isinstance(x, ast.Starred) for x in call.args) or any(k.arg is None for k in call.keywords):
                return None
            params = [x.arg for x in a.args]
            is_method = h.cls is not None and "staticmethod" not in h.decorators
            if is_method:
                if not (isinstance(call.func, ast.Attribute) and isinstance(call.func.value, ast.Name) and call.func.value.id in ("self", "cls")):
                    return None
                recv_name, bind_params, self_param = call.func.value.id, params[1:], params[0]
            else:
                if not isinstance(call.func, (ast.Name, ast.Attribute)):
                    return None
                if isinstance(call.func, ast.Attribute) and not (isinstance(call.func.value, ast.Name) and call.func.value.id in ("self", "cls")):
                    return None
                recv_name, bind_params, self_param = None, params, None
            ndef = len(a.defaults)
            defaults = dict(zip(params[len(params) - ndef:], a.defaults))
            given: Dict[str, ast.expr] = {}
            if len(call.args) > len(bind_params):
                return None
            for pn, av in zip(bind_params, call.args):
                given[pn] = av
            for k in call.keywords:
                if k.arg not in bind_params or k.arg in given:
                    return None
                given[k.arg] = k.value
            order = []
            for pn in bind_params:
                if pn in given:
                    order.append((pn, given[pn]))
                elif pn in defaults:
                    order.append((pn, copy.deepcopy(defaults[pn])))
                else:
                    return None
            # keyword arguments are evaluated in call order, not parameter order: only accept when that is the same
            if call.keywords and [pn for pn, _ in order if pn in given] != [pn for pn in list(bind_params[:len(call.args)]) + [k.arg for k in call.keywords]]:
                return None
            return recv_name, self_param, order

        def returns_ok(h: FuncInfo):
            """(kind, ok): kind 'tail' = a single return as last statement (or none); 'early' = returns under ifs only"""
            rets = [x for x in walk_shallow(h.node) if isinstance(x, ast.Return)]
            body = h.node.body
            if not rets or (len(rets) == 1 and rets[0] is body[-1]):
                return "tail"
            for r in rets:
                q = getattr(r, "_parent", None)
                while q is not None and q is not h.node:
                    if not isinstance(q, ast.If):
                        return None
                    q = getattr(q, "_parent", None)
            return "early"

        def rename(h: FuncInfo, recv_name, self_param, bind_params):
            prefix = f"_{h.name.strip('_')}__"
            locals_ = {x.id for x in ast.walk(h.node) if isinstance(x, ast.Name) and isinstance(x.ctx, (ast.Store, ast.Del))} | set(bind_params)
            ren = {nm: prefix + nm for nm in locals_}
            if self_param is not None:
                ren[self_param] = recv_name
            return prefix, ren

        def body_copy(h: FuncInfo, ren):
            body = [copy.deepcopy(st) for st in h.node.body if not (isinstance(st, ast.Expr) and isinstance(st.value, ast.Constant))]
            for st in body:
                for x in ast.walk(st):
                    if isinstance(x, ast.Name) and x.id in ren:
                        x.id = ren[x.id]
            return body

        def splice(site: ast.stmt, new_stmts: List[ast.stmt]) -> bool:
            par = getattr(site, "_parent", None)
            for fld in ("body", "orelse", "finalbody"):
                blk = getattr(par, fld, None)
                if isinstance(blk, list) and site in blk:
                    i = blk.index(site)
                    blk[i:i + 1] = new_stmts
                    return True
            return False

        for mod in self.modules.values():
            for fn in list(mod.all_funcs):
                for _round in range(3):
                    did = False
                    for site in [n for n in walk_shallow(fn.node) if isinstance(n, (ast.Expr, ast.Assign, ast.AnnAssign, ast.Return))]:
                        val = getattr(site, "value", None)
                        if val is None:
                            continue
                        awaited = isinstance(val, ast.Await)
                        inner = val.value if awaited else val
                        is_yf = isinstance(inner, ast.YieldFrom) and isinstance(site, ast.Expr) and not awaited
                        call = inner.value if is_yf else inner
                        if not isinstance(call, ast.Call):
                            continue
                        try:
                            h = self.resolve_call(fn, call)
                        except Exception:
                            h = None
                        if not isinstance(h, FuncInfo) or h is fn or not private(h) or h.module is not mod:  # (same module: the body's global names keep their meaning)
                            continue
                        if any(isinstance(x, (ast.FunctionDef, ast.AsyncFunctionDef, ast.Lambda, ast.ClassDef, ast.Global, ast.Nonlocal)) for x in ast.walk(h.node) if x is not h.node):
                            continue
                        if any(isinstance(x, ast.Call) and self._same_fn(h, x) for x in ast.walk(h.node)):
                            continue
                        sp = simple_params(h, call)
                        if sp is None:
                            continue
                        recv_name, self_param, order = sp
                        prefix, ren = rename(h, recv_name, self_param, [pn for pn, _ in order])
                        # a parameter of the helper that is given a parameter of the caller - neither of them rebound - IS that name
                        # (no alias local: rules that know the caller's gateway arguments by name keep seeing them)
                        caller_params = {a_.arg for a_ in fn.node.args.posonlyargs + fn.node.args.args + fn.node.args.kwonlyargs}
                        stored_fn = {x.id for x in ast.walk(fn.node) if isinstance(x, ast.Name) and isinstance(x.ctx, (ast.Store, ast.Del))}
                        stored_h = {x.id for x in ast.walk(h.node) if isinstance(x, ast.Name) and isinstance(x.ctx, (ast.Store, ast.Del))}
                        direct = set()
                        for pn, av in order:
                            if isinstance(av, ast.Name) and av.id in caller_params and av.id not in stored_fn and pn not in stored_h:
                                ren[pn] = av.id
                                direct.add(pn)
                        pre = [ast.copy_location(ast.Assign(targets=[ast.copy_location(ast.Name(id=ren[pn], ctx=ast.Store()), site)], value=av, type_comment=None), site) for pn, av in order if pn not in direct]
                        if is_yf:
                            # ---- N8
                            if not h.is_generator() or isinstance(h.node, ast.AsyncFunctionDef) or isinstance(fn.node, ast.AsyncFunctionDef) or any(isinstance(x, ast.Return) for x in ast.walk(h.node)):
                                continue
                            new_stmts = pre + body_copy(h, ren)
                        else:
                            # ---- N9
                            if h.is_generator() or isinstance(h.node, ast.AsyncFunctionDef) != awaited:
                                continue
                            if awaited and not isinstance(fn.node, ast.AsyncFunctionDef):
                                continue
                            if isinstance(site, (ast.Assign, ast.AnnAssign)):
                                tgts = site.targets if isinstance(site, ast.Assign) else [site.target]
                                if len(tgts) != 1:
                                    continue
                            kind = returns_ok(h)
                            if kind is None:
                                continue
                            ret_name = prefix + "ret"
                            body = body_copy(h, ren)
                            init = ast.copy_location(ast.Assign(targets=[ast.copy_location(ast.Name(id=ret_name, ctx=ast.Store()), site)], value=ast.copy_location(ast.Constant(value=None), site), type_comment=None), site)
                            if kind == "tail":
                                if body and isinstance(body[-1], ast.Return):
                                    last = body.pop()
                                    body.append(ast.copy_location(ast.Assign(targets=[ast.Name(id=ret_name, ctx=ast.Store())], value=last.value if last.value is not None else ast.Constant(value=None), type_comment=None), last))
                                    core = body
                                else:
                                    core = [init] + body
                            else:
                                class RT(ast.NodeTransformer):
                                    def visit_Return(self_, node):
                                        a1 = ast.copy_location(ast.Assign(targets=[ast.Name(id=ret_name, ctx=ast.Store())], value=node.value if node.value is not None else ast.Constant(value=None), type_comment=None), node)
                                        return [a1, ast.copy_location(ast.Break(), node)]
                                body = [x for st in body for x in (lambda r: r if isinstance(r, list) else [r])(RT().visit(st))]
                                loop = ast.copy_location(ast.For(target=ast.Name(id=prefix + "once", ctx=ast.Store()), iter=ast.Tuple(elts=[ast.Constant(value=None)], ctx=ast.Load()), body=body or [ast.Pass()], orelse=[], type_comment=None), site)
                                core = [init, loop]
                            use = ast.copy_location(ast.Name(id=ret_name, ctx=ast.Load()), site)
                            if isinstance(site, ast.Expr):
                                tail = []
                            elif isinstance(site, ast.Return):
                                tail = [ast.copy_location(ast.Return(value=use), site)]
                            elif isinstance(site, ast.Assign):
                                tail = [ast.copy_location(ast.Assign(targets=site.targets, value=use, type_comment=None), site)]
                            else:
                                tail = [ast.copy_location(ast.AnnAssign(target=site.target, annotation=site.annotation, value=use, simple=site.simple), site)]
                            new_stmts = pre + core + tail
                        if splice(site, new_stmts):
                            self.inlined_generators.add(h.fq)
                            self.inlined_into.setdefault(h.fq, set()).add(fn.fq)
                            did = True
                            changed_mods.add(mod.name)
                            ast.fix_missing_locations(fn.node)
                            set_parents(mod.tree)
                    if not did:
                        break
        # ---- N10  f(_gen(a, b)) where `_gen` is a private generator helper whose whole body is ONE filter/map loop
        #           def _gen(p, q): for T in ITER: [if C:] yield E        ==>   f((E for T in ITER if C))  with p, q replaced by a, b
        #      Side conditions: same module, positional parameters only, the arguments are names / attribute chains / constants
        #      (cheap and free of side effects, so evaluating them where the parameter was read is the same), loop targets
        #      renamed apart. The helper's `yield`s become the elements of a generator expression - the form the rules know.
        def n10_shape(h: FuncInfo):
            body = [st for st in h.node.body if not (isinstance(st, ast.Expr) and isinstance(st.value, ast.Constant))]
            if len(body) != 1 or not isinstance(body[0], ast.For) or body[0].orelse:
                return None
            lp = body[0]
            inner = lp.body
            cond = None
            if len(inner) == 1 and isinstance(inner[0], ast.If) and not inner[0].orelse:
                cond, inner = inner[0].test, inner[0].body
            if len(inner) != 1 or not (isinstance(inner[0], ast.Expr) and isinstance(inner[0].value, ast.Yield) and inner[0].value.value is not None):
                return None
            return lp.target, lp.iter, cond, inner[0].value.value

        def simple_arg(e: ast.expr) -> bool:
            while isinstance(e, ast.Attribute):
                e = e.value
            return isinstance(e, (ast.Name, ast.Constant))

        for mod in self.modules.values():
            for fn in list(mod.all_funcs):
                replaced = False

                class N10(ast.NodeTransformer):
                    def visit_FunctionDef(self_, node):
                        return node if node is not fn.node else self_.generic_visit(node)

                    visit_AsyncFunctionDef = visit_FunctionDef

                    def visit_Lambda(self_, node):
                        return node

                    def visit_Call(self_, call):
                        nonlocal replaced
                        self_.generic_visit(call)
                        par = getattr(call, "_parent", None)
                        if isinstance(par, ast.YieldFrom) or isinstance(par, (ast.For, ast.AsyncFor)) and par.iter is call:
                            pass  # N8 / plain iteration: also fine as a generator expression
                        try:
                            h = self.resolve_call(fn, call)
                        except Exception:
                            h = None
                        if not isinstance(h, FuncInfo) or h is fn or not private(h) or h.module is not mod or not h.is_generator() or isinstance(h.node, ast.AsyncFunctionDef):
                            return call
                        if any(isinstance(x, (ast.FunctionDef, ast.AsyncFunctionDef, ast.Lambda, ast.ClassDef, ast.Global, ast.Nonlocal)) for x in ast.walk(h.node) if x is not h.node):
                            return call
                        shape = n10_shape(h)
                        sp = simple_params(h, call)
                        if shape is None or sp is None:
                            return call
                        recv_name, self_param, order = sp
                        if not all(simple_arg(av) for _pn, av in order):
                            return call
                        target, it, cond, elt = (copy.deepcopy(x) if x is not None else None for x in shape)
                        prefix = f"_{h.name.strip('_')}__"
                        tnames = {x.id for x in ast.walk(target) if isinstance(x, ast.Name)}
                        subst = {pn: av for pn, av in order}
                        if self_param is not None:
                            subst[self_param] = ast.Name(id=recv_name, ctx=ast.Load())
                        if tnames & set(subst):
                            return call

                        class Sub(ast.NodeTransformer):
                            def visit_Name(s2, n):
                                if n.id in tnames:
                                    return ast.copy_location(ast.Name(id=prefix + n.id, ctx=n.ctx), n)
                                if n.id in subst and isinstance(n.ctx, ast.Load):
                                    return ast.copy_location(copy.deepcopy(subst[n.id]), n)
                                return n
                        target, it, elt = Sub().visit(target), Sub().visit(it), Sub().visit(elt)
                        cond = Sub().visit(cond) if cond is not None else None
                        if any(isinstance(x, ast.Name) and isinstance(x.ctx, ast.Store) and x.id in subst for part in (it, elt, cond) if part is not None for x in ast.walk(part)):
                            return call
                        gen = ast.GeneratorExp(elt=elt, generators=[ast.comprehension(target=target, iter=it, ifs=[cond] if cond is not None else [], is_async=0)])
                        replaced = True
                        self.inlined_generators.add(h.fq)
                        self.inlined_into.setdefault(h.fq, set()).add(fn.fq)
                        return ast.copy_location(gen, call)

                N10().visit(fn.node)
                if replaced:
                    from .normal import _Accumulate
                    _Accumulate(fn.node).visit(fn.node)  # N3/N4 again: `x = list(<genexp>); x.extend(<genexp>)` is one list display now
                    ast.fix_missing_locations(fn.node)
                    changed_mods.add(mod.name)
        for name in changed_mods:
            set_parents(self.modules[name].tree)

    def _same_fn(self, h: FuncInfo, call: ast.Call) -> bool:
        try:
            return self.resolve_call(h, call) is h
        except Exception:
            return False

    def _resolve_relative(self, mod: Module, level: int, target: Optional[str]) -> str:
        if level == 0:
            return target or ""
        parts = mod.name.split(".")
        if not mod.is_package:
            parts = parts[:-1]
        if level > 1:
            parts = parts[: len(parts) - (level - 1)]
        if target:
            parts = parts + target.split(".")
        return ".".join(parts)

    def _index_module(self, mod: Module) -> None:
        def visit_body(body, cls: Optional[ClassInfo], parent: Optional[FuncInfo], prefix: str):
            for st in body:
                if isinstance(st, ast.Import):
                    if cls is None and parent is None:
                        for a in st.names:
                            local = a.asname or a.name.split(".")[0]
                            target = a.name if a.asname else a.name.split(".")[0]
                            mod.imports[local] = (target, None)
                elif isinstance(st, ast.ImportFrom):
                    if cls is None and parent is None:
                        base = self._resolve_relative(mod, st.level, st.module)
                        for a in st.names:
                            mod.imports[a.asname or a.name] = (base, a.name)
                elif isinstance(st, (ast.FunctionDef, ast.AsyncFunctionDef)):
                    qn = prefix + st.name
                    fi = FuncInfo(st.name, qn, mod, st, cls=cls, parent=parent)
                    mod.all_funcs.append(fi)
                    if cls is not None and parent is None:
                        if st.name in cls.methods:
                            # overloads / property setters: keep the last, remember others
                            fi.alternatives = [cls.methods[st.name]] + cls.methods[st.name].alternatives
                        cls.methods[st.name] = fi
                    elif parent is not None:
                        if st.name in parent.nested:
                            fi.alternatives = [parent.nested[st.name]] + parent.nested[st.name].alternatives
                        parent.nested[st.name] = fi
                    else:
                        if st.name in mod.functions:
                            fi.alternatives = [mod.functions[st.name]] + mod.functions[st.name].alternatives
                        mod.functions[st.name] = fi
                    visit_body(st.body, None, fi, qn + ".")
                elif isinstance(st, ast.ClassDef):
                    if cls is None and parent is None:
                        ci = ClassInfo(st.name, mod, st, base_exprs=list(st.bases))
                        mod.classes[st.name] = ci
                        visit_body(st.body, ci, None, st.name + ".")
                elif isinstance(st, ast.Assign):
                    if len(st.targets) == 1 and isinstance(st.targets[0], ast.Name):
                        nm = st.targets[0].id
                        if cls is not None and parent is None:
                            cls.attrs[nm] = st.value
                        elif cls is None and parent is None:
                            mod.constants[nm] = st.value
                elif isinstance(st, ast.AnnAssign):
                    if isinstance(st.target, ast.Name):
                        nm = st.target.id
                        if cls is not None and parent is None:
                            cls.ann[nm] = st.annotation
                            if st.value is not None:
                                cls.attrs[nm] = st.value
                        elif cls is None and parent is None and st.value is not None:
                            mod.constants[nm] = st.value
                elif isinstance(st, (ast.If, ast.Try)):
                    # module/class level conditional definitions (os.name, ImportError shims)
                    if parent is None:
                        for blk in _blocks_of(st):
                            visit_body(blk, cls, parent, prefix)
                    else:
                        for blk in _blocks_of(st):
                            visit_body_nested_only(blk, parent, prefix)
                elif parent is not None and isinstance(st, (ast.For, ast.AsyncFor, ast.While, ast.With, ast.AsyncWith)):
                    for blk in _blocks_of(st):
                        visit_body_nested_only(blk, parent, prefix)

        def visit_body_nested_only(body, parent: FuncInfo, prefix: str):
            for st in body:
                if isinstance(st, (ast.FunctionDef, ast.AsyncFunctionDef)):
                    qn = prefix + st.name
                    fi = FuncInfo(st.name, qn, mod, st, cls=None, parent=parent)
                    mod.all_funcs.append(fi)
                    if st.name in parent.nested:
                        fi.alternatives = [parent.nested[st.name]] + parent.nested[st.name].alternatives
                    parent.nested[st.name] = fi
                    visit_body(st.body, None, fi, qn + ".")
                elif isinstance(st, (ast.If, ast.Try, ast.For, ast.AsyncFor, ast.While, ast.With, ast.AsyncWith)):
                    for blk in _blocks_of(st):
                        visit_body_nested_only(blk, parent, prefix)

        visit_body(mod.tree.body, None, None, "")

    # --------------------------------------------------------------- lookup
    def module(self, name: str) -> Module:
        if name not in self.modules:
            raise AnalysisError(f"module {name} vanished")
        return self.modules[name]

    def cls(self, fq: str) -> ClassInfo:
        m, c = fq.split(":")
        mod = self.module(m)
        if c not in mod.classes:
            raise AnalysisError(f"class {fq} vanished")
        return mod.classes[c]

    def func(self, fq: str) -> FuncInfo:
        """fq = 'module:Qual.name' ; methods are looked up on the class itself (no MRO)."""
        m, q = fq.split(":")
        mod = self.module(m)
        parts = q.split(".")
        cur: Optional[object] = None
        if parts[0] in mod.classes:
            cur = mod.classes[parts[0]]
        elif parts[0] in mod.functions:
            cur = mod.functions[parts[0]]
        else:
            raise AnalysisError(f"function {fq} vanished")
        for p in parts[1:]:
            if isinstance(cur, ClassInfo):
                if p not in cur.methods:
                    raise AnalysisError(f"function {fq} vanished")
                cur = cur.methods[p]
            elif isinstance(cur, FuncInfo):
                if p not in cur.nested:
                    raise AnalysisError(f"function {fq} vanished")
                cur = cur.nested[p]
        if not isinstance(cur, FuncInfo):
            raise AnalysisError(f"{fq} is not a function")
        return cur

    def has_func(self, fq: str) -> bool:
        try:
            self.func(fq)
            return True
        except AnalysisError:
            return False

    def lookup_name(self, mod: Module, name: str, _depth: int = 0):
        """Resolve a module-level name to ClassInfo / FuncInfo / ('const', Module, expr) /
        ('module', dotted) / ('ext', dotted)."""
        if _depth > 8:
            return None
        if name in mod.classes:
            return mod.classes[name]
        if name in mod.functions:
            return mod.functions[name]
        if name in mod.constants:
            return ("const", mod, mod.constants[name])
        if name in mod.imports:
            target, attr = mod.imports[name]
            if attr is None:
                if target in self.modules:
                    return ("module", target)
                return ("ext", target)
            full = f"{target}.{attr}" if target else attr
            if full in self.modules:
                return ("module", full)
            if target in self.modules:
                return self.lookup_name(self.modules[target], attr, _depth + 1) or ("ext", full)
            return ("ext", full)
        return None

    def function(self, modname: str, name: str) -> Optional[FuncInfo]:
        """The function a module makes available under `name`: defined there, or imported from another module of the package
        (a function moved to another module and imported back is still found where the rules look for it)."""
        mod = self.modules.get(modname)
        if mod is None:
            return None
        r = self.lookup_name(mod, name)
        return r if isinstance(r, FuncInfo) else None

    def resolve_expr_to_class(self, mod: Module, expr: ast.expr) -> Union[ClassInfo, str, None]:
        """Resolve a base-class / constructor expression to a ClassInfo or an external dotted name."""
        if isinstance(expr, ast.Subscript):  # Generic[T], BaseRouter[WSGIApp]
            return self.resolve_expr_to_class(mod, expr.value)
        if isinstance(expr, ast.Name):
            r = self.lookup_name(mod, expr.id)
            if isinstance(r, ClassInfo):
                return r
            if isinstance(r, tuple) and r[0] == "ext":
                return r[1]
            if r is None:
                return expr.id  # builtin
            return None
        if isinstance(expr, ast.Attribute):
            base = self.resolve_dotted(mod, expr.value)
            if isinstance(base, tuple) and base[0] == "module":
                r = self.lookup_name(self.modules[base[1]], expr.attr)
                if isinstance(r, ClassInfo):
                    return r
                return None
            if isinstance(base, tuple) and base[0] == "ext":
                return f"{base[1]}.{expr.attr}"
            return None
        return None

    def resolve_dotted(self, mod: Module, expr: ast.expr):
        if isinstance(expr, ast.Name):
            return self.lookup_name(mod, expr.id)
        if isinstance(expr, ast.Attribute):
            base = self.resolve_dotted(mod, expr.value)
            if isinstance(base, tuple) and base[0] == "module":
                full = f"{base[1]}.{expr.attr}"
                if full in self.modules:
                    return ("module", full)
                return self.lookup_name(self.modules[base[1]], expr.attr)
            if isinstance(base, tuple) and base[0] == "ext":
                return ("ext", f"{base[1]}.{expr.attr}")
            if isinstance(base, ClassInfo):
                m = self.find_method(base, expr.attr)
                if m is not None:
                    return m
                a = self.find_class_attr(base, expr.attr)
                if a is not None:
                    return ("const", a[0].module, a[1])
            return None
        return None

    # ------------------------------------------------------------------ MRO
    def bases(self, ci: ClassInfo) -> List[Union[ClassInfo, str]]:
        out: List[Union[ClassInfo, str]] = []
        for b in ci.base_exprs:
            r = self.resolve_expr_to_class(ci.module, b)
            if r is None:
                out.append(ast.unparse(b))
            else:
                out.append(r)
        # typing.Generic[...] among several bases is dropped by __mro_entries__ when another
        # base is itself generic; it never carries repository methods, so drop it always.
        if len(out) > 1:
            out = [b for b in out if b != "typing.Generic"] or out
        return out

    def mro(self, ci: ClassInfo) -> List[Union[ClassInfo, str]]:
        if ci in self._mro_cache:
            return self._mro_cache[ci]

        def lin(c: Union[ClassInfo, str]) -> List[Union[ClassInfo, str]]:
            if isinstance(c, str):
                return [c]
            bs = self.bases(c)
            seqs = [lin(b) for b in bs] + [list(bs)]
            res: List[Union[ClassInfo, str]] = [c]
            seqs = [s for s in seqs if s]
            while seqs:
                cand = None
                for s in seqs:
                    h = s[0]
                    if not any(h in t[1:] for t in seqs):
                        cand = h
                        break
                if cand is None:
                    raise AnalysisError(f"inconsistent MRO for {c}")
                res.append(cand)
                seqs = [[x for x in s if x is not cand and x != cand] if s[0] == cand or cand in s else s for s in seqs]
                seqs = [s for s in seqs if s]
            return res

        r = lin(ci)
        self._mro_cache[ci] = r
        return r

    def find_method(self, ci: ClassInfo, name: str, after: Optional[ClassInfo] = None) -> Optional[FuncInfo]:
        seq = self.mro(ci)
        if after is not None:
            if after not in seq:
                return None
            seq = seq[seq.index(after) + 1 :]
        for c in seq:
            if isinstance(c, ClassInfo) and name in c.methods:
                return c.methods[name]
        return None

    def find_class_attr(self, ci: ClassInfo, name: str) -> Optional[Tuple[ClassInfo, ast.expr]]:
        for c in self.mro(ci):
            if isinstance(c, ClassInfo) and name in c.attrs:
                return c, c.attrs[name]
        return None

    def is_subclass(self, ci: ClassInfo, other: Union[ClassInfo, str]) -> bool:
        return other in self.mro(ci)

    def subclasses(self, ci: ClassInfo) -> List[ClassInfo]:
        out = []
        for m in self.modules.values():
            for c in m.classes.values():
                if c is not ci and ci in self.mro(c):
                    out.append(c)
        return out

    def all_classes(self) -> List[ClassInfo]:
        return [c for m in self.modules.values() for c in m.classes.values()]

    def all_functions(self) -> List[FuncInfo]:
        return [f for m in self.modules.values() for f in m.all_funcs]

    def func_of_node(self, node: ast.AST) -> Optional[FuncInfo]:
        if not hasattr(self, "_by_node"):
            self._by_node = {id(f.node): f for f in self.all_functions()}
        return self._by_node.get(id(node))

    # ------------------------------------------------------------ resolver
    def resolve_call(self, fn: FuncInfo, call: ast.Call, self_cls: Optional[ClassInfo] = None):
        """Resolve the callee of `call` occurring in `fn`.
        Returns FuncInfo | ClassInfo (constructor) | ('ext', dotted) | ('method', name) | None."""
        return self.resolve_callee(fn, call.func, self_cls)

    def enclosing_class(self, fn: FuncInfo) -> Optional[ClassInfo]:
        f: Optional[FuncInfo] = fn
        while f is not None:
            if f.cls is not None:
                return f.cls
            f = f.parent
        return None

    def outermost(self, fn: FuncInfo) -> FuncInfo:
        f = fn
        while f.parent is not None:
            f = f.parent
        return f

    def resolve_callee(self, fn: FuncInfo, func: ast.expr, self_cls: Optional[ClassInfo] = None):
        mod = fn.module
        def_cls = self.enclosing_class(fn)
        recv_cls = self_cls or def_cls
        if isinstance(func, ast.Name):
            # local nested function (search enclosing function chain)
            f: Optional[FuncInfo] = fn
            while f is not None:
                if func.id in f.nested:
                    return f.nested[func.id]
                f = f.parent
            r = self.lookup_name(mod, func.id)
            if isinstance(r, (FuncInfo, ClassInfo)):
                return r
            if isinstance(r, tuple) and r[0] == "ext":
                return r
            if r is None:
                return ("builtin", func.id)
            return None
        if isinstance(func, ast.Attribute):
            v = func.value
            # self.m / cls.m
            outer = self.outermost(fn)
            first = outer.params[0] if outer.params else None
            if isinstance(v, ast.Name) and first is not None and v.id == first and def_cls is not None and v.id in ("self", "cls"):
                if recv_cls is not None:
                    m = self.find_method(recv_cls, func.attr)
                    if m is not None:
                        return m
                return ("method", func.attr)
            # super().m
            if isinstance(v, ast.Call) and isinstance(v.func, ast.Name) and v.func.id == "super" and def_cls is not None:
                base = recv_cls if (recv_cls is not None and def_cls in self.mro(recv_cls)) else def_cls
                m = self.find_method(base, func.attr, after=def_cls)
                if m is not None:
                    return m
                # first external base providing it
                seq = self.mro(base)
                seq = seq[seq.index(def_cls) + 1 :]
                for c in seq:
                    if isinstance(c, str):
                        return ("ext", f"{c}.{func.attr}")
                return None
            r = self.resolve_dotted(mod, func)
            if isinstance(r, (FuncInfo, ClassInfo)):
                return r
            if isinstance(r, tuple) and r[0] == "ext":
                return r
            return ("method", func.attr)
        return None


def _blocks_of(st: ast.stmt) -> List[List[ast.stmt]]:
    out = []
    for fld in ("body", "orelse", "finalbody"):
        b = getattr(st, fld, None)
        if b:
            out.append(b)
    for h in getattr(st, "handlers", []) or []:
        out.append(h.body)
    return out


def enclosing_function(node: ast.AST) -> Optional[ast.AST]:
    n = getattr(node, "_parent", None)
    while n is not None and not isinstance(n, (ast.FunctionDef, ast.AsyncFunctionDef, ast.Lambda)):
        n = getattr(n, "_parent", None)
    return n


def norm_text(node: ast.AST) -> str:
    """Normalised source text of a node (position independent)."""
    return ast.unparse(node)


_PROGRAM_CACHE: Dict[str, Program] = {}


def load_program(root: Optional[str] = None) -> Program:
    root = root or repo_root()
    if root not in _PROGRAM_CACHE:
        _PROGRAM_CACHE[root] = Program(root)
    return _PROGRAM_CACHE[root]
