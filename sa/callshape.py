"""Call-structure baseline: which repository-defined names each function of the package calls on the pinned tree.

A rule of this suite was confirmed by hand against the call structure of the functions it anchors on. When such a function is
restructured - it now calls repository functions / methods / classes it did not call on the pinned tree, or it is a new
function - a finding of the kind "X is NOT done on a path / never happens / is missing" is no longer entitled to the verdict
VIOLATION: the missing thing may be done by the new callee in a way the rule does not read. Such findings are demoted to
UNDECIDED (check.py, `restructure_precondition`); findings that positively identify a construct doing something wrong stay.

`python3 sa/callshape.py --write` regenerates sa/baseline_callshape.json from BAIZE_REPO (done once, on the pinned tree, and
after a "fix:" commit); the file is committed and never written by a check."""
from __future__ import annotations

import ast
import json
import os
import re
import sys
from typing import Dict, List, Set

BASELINE = os.path.join(os.path.dirname(os.path.abspath(__file__)), "baseline_callshape.json")

# a finding that reports the ABSENCE of something (as opposed to a construct that does something wrong)
ABSENCE = re.compile(r"\b(is not|are not|was not|does not|do not|did not|never|no longer|not written|not the|not built|not read|not set|not call|not closed|not sent|"
                     r"without|no path|nothing|missing|neither|cannot|no final|no response|not yielded|not replay|not rewrite|not consult|not return|not re-emitted|outside|"
                     r"not forwarded|not stream|not always|instead of|other than|differ|differently|different|has no|leaves the|is no longer|not guarded|not depend|not recorded|not exactly|"
                     r"not end|not use|not iterated|not merged|not serialised|not split|not both|not rebuild|not started|not elided|not preferred|not looked|not appended|"
                     r"although none|where no|by itself|writes an instance|reaches the header store|can return normally|before start_response|is used on a path where)\b", re.I)


def _stdlib_method_names() -> Set[str]:
    import asyncio
    import io
    import queue
    import threading

    names: Set[str] = set()
    for t in (str, bytes, bytearray, list, dict, set, frozenset, tuple, int, float, object, io.BufferedReader, io.BytesIO, io.StringIO, queue.Queue, asyncio.Queue, asyncio.Future,
              threading.Event, threading.Thread, re.Pattern, re.Match, type(iter(())), type((x for x in ())), memoryview, slice, range):
        names |= {n for n in dir(t) if not n.startswith("__")}
    names |= {"submit", "shutdown", "result", "exception", "cancel", "done", "cancelled", "add_done_callback", "asend", "athrow", "aclose", "send", "throw", "close", "run", "run_in_executor",
              "get_running_loop", "ensure_future", "create_task", "gather", "wait", "wait_for", "sleep", "time", "stat", "open", "lseek", "fspath", "encode", "decode", "loads", "dumps", "quote",
              "unquote", "parse_qsl", "urlencode", "urlsplit", "compile", "escape", "sub", "split", "finditer", "findall", "groups", "group", "groupdict", "span", "start", "end"}
    return names


_STDLIB_METHODS = _stdlib_method_names()


def is_absence_finding(message: str) -> bool:
    """the STATEMENT of the finding (its first clause - what follows ':' / '(' / ';' explains the consequence) reports that something
    is not done, as opposed to naming a construct that does something wrong"""
    m = message
    for _ in range(3):  # leading labels: "wsgi: ", "asgi handle_all: ", "parse_stream: ", "baize.x:f.g: " (at most three words)
        mm = re.match(r"^([^:()'`\"]{0,60}(?::[\w.]+)?): +(.*)$", m, re.S)
        if mm and len(mm.group(1).split()) <= 3:
            m = mm.group(2)
        else:
            break
    clauses = re.split(r": ", m)
    first = clauses[0]
    if len(clauses) > 1 and (re.search(r"[()`\[\]]", first) or re.match(r"\s*(yield|return|await|del)\b", first) or not first.strip()):
        first = clauses[1]  # the first clause only quotes the construct (`yield from X(...)`: not the response's own iterable)
    head = re.split(r"; | \(", first, 1)[0]
    return bool(ABSENCE.search(head)) or bool(re.match(r"\s*no\b", head, re.I))


def called_names(fn_node: ast.AST) -> Set[str]:
    out: Set[str] = set()
    for n in ast.walk(fn_node):
        if isinstance(n, ast.Call):
            f = n.func
            if isinstance(f, ast.Name):
                out.add(f.id)
            elif isinstance(f, ast.Attribute):
                # x.read(...), pattern.match(...): a method name that the standard containers / files / patterns / futures have too says
                # nothing about the repository's call structure (unless it is called on self / cls / super())
                on_self = isinstance(f.value, ast.Name) and f.value.id in ("self", "cls") or (isinstance(f.value, ast.Call) and isinstance(f.value.func, ast.Name) and f.value.func.id == "super")
                if on_self or f.attr not in _STDLIB_METHODS:
                    out.add(f.attr)
        elif isinstance(n, ast.With) or isinstance(n, ast.AsyncWith):
            pass
    return out


def repo_names(program) -> Set[str]:
    names: Set[str] = set()
    for m in program.modules.values():
        for f in m.all_funcs:
            if not (f.name.startswith("__") and f.name.endswith("__")):
                names.add(f.name)
        for c in m.classes.values():
            names.add(c.name)
    return names


# standard-library building blocks whose appearance changes the control / data-flow STRUCTURE of a function (a context-manager stack
# instead of try/finally, a fold instead of a loop, dispatch on type instead of if/else, ...)
_STRUCTURAL_MODULES = ("contextlib.", "functools.", "itertools.", "collections.", "operator.", "abc.", "bisect.", "heapq.")


def shape_of(program) -> Dict[str, List[str]]:
    rn = repo_names(program)
    out: Dict[str, List[str]] = {}
    for m in program.modules.values():
        for f in m.all_funcs:
            names = called_names(f.node) & rn
            for n in ast.walk(f.node):
                if isinstance(n, ast.Call):
                    try:
                        r = program.resolve_call(f, n)
                    except Exception:
                        r = None
                    if isinstance(r, tuple) and r and r[0] == "ext" and isinstance(r[1], str) and r[1].startswith(_STRUCTURAL_MODULES) and r[1] not in ("functools.partial", "functools.wraps", "contextlib.suppress"):
                        names.add("ext:" + r[1])
                    elif hasattr(r, "decorators") and any(d.split(".")[-1].split("(")[0] in ("singledispatch", "singledispatchmethod") for d in getattr(r, "decorators", [])):
                        names.add("ext:functools.singledispatch")  # dispatch on the argument's type: which body runs is not in the call
            out[f.fq] = sorted(names)
    return out


def load_baseline() -> Dict[str, List[str]]:
    with open(BASELINE) as fh:
        d = json.load(fh)
    load_baseline.names = set(d.get("names", []))  # type: ignore[attr-defined]
    return d["functions"]


def restructured(program, fq: str, baseline: Dict[str, List[str]], current: Dict[str, List[str]]) -> List[str]:
    """[] when the function calls no repository-defined name beyond those it called on the pinned tree; else the new names
    (['<new function>'] for a function the pinned tree does not have)."""
    if fq not in current:
        return []
    if fq not in baseline:
        return ["<new function>"]
    # a name the pinned tree does not define at all: a helper / class / hook introduced by the restructuring (calling an EXISTING
    # function of the package from a new place is an ordinary edit, not a new structure)
    old_names = getattr(load_baseline, "names", set())
    return sorted(n for n in set(current[fq]) - set(baseline[fq]) if (n not in old_names or n.startswith("ext:")) and not n.startswith("_undecorated_"))  # (N11's own helper names)


if __name__ == "__main__":
    sys.path.insert(0, os.path.dirname(os.path.dirname(os.path.abspath(__file__))))
    from sa.loader import load_program

    p = load_program()
    sh = shape_of(p)
    if "--write" in sys.argv:
        with open(BASELINE, "w") as fh:
            json.dump({"note": "repository-defined names called by each function on the pinned tree (sa/callshape.py --write)", "functions": sh, "names": sorted(repo_names(p))}, fh, indent=0, sort_keys=True)
        print(f"wrote {BASELINE}: {len(sh)} functions")
    else:
        base = load_baseline()
        for fq in sorted(sh):
            new = restructured(p, fq, base, sh)
            if new:
                print(fq, new)
