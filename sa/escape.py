"""Exception-escape analysis: which (exception class, raising construct) can propagate out of a
function, given which of its inputs carry client data.

Raising constructs are (a) explicit `raise` statements whose guard depends on client data (or
that are unconditional) and (b) operations from a *frozen fact table* of stdlib behaviours whose
operand is tainted by client data. Enclosing `except` clauses (lexical, real class hierarchy)
are subtracted; calls into the repository (functions, methods, constructors, properties /
cached_property accesses, local objects of a known repository class) are followed with the
taint of the actual arguments.
"""
from __future__ import annotations

import ast
import builtins
from dataclasses import dataclass
from typing import Callable, Dict, FrozenSet, List, Optional, Sequence, Set, Tuple

from .common import construct, guards_of, norm_guards, where
from .loader import AnalysisError, ClassInfo, FuncInfo, Program, walk_shallow
from .taint import EMPTY, Origins, TaintAnalysis, TaintSpec

EXT_PARENTS = {
    "asyncio.TimeoutError": "TimeoutError",
    "queue.Empty": "Exception",
    "json.JSONDecodeError": "ValueError",
    "decimal.InvalidOperation": "ArithmeticError",
}

TOTAL_CODECS = {"latin-1", "latin1", "iso-8859-1", "iso8859-1", "l1"}


@dataclass(frozen=True)
class Esc:
    exc: str
    construct: str
    where: str
    why: str
    kind: str  # 'fact' | 'raise'
    op: str = ""  # WHAT fails, independent of where the statement lives and how its operands are named (for known-finding matching)


def _operation(why: str) -> str:
    """the failing operation of a fact-table escape: its description without the provenance list, codec names normalised"""
    import re as _re
    op = _re.sub(r"\s*\((?:data|codec|path|from)\b[^()]*\[.*\]\)\s*$", "", why)
    op = _re.sub(r"decode\('([^']*)'\)", lambda m: "decode('" + m.group(1).lower().replace("-", "").replace("_", "") + "')", op)
    return op


def ancestors(p: Program, name: str) -> List[str]:
    out = [name]
    if ":" in name:
        try:
            ci = p.cls(name)
        except AnalysisError:
            return out + ["Exception", "BaseException"]
        for c in p.mro(ci)[1:]:
            if isinstance(c, ClassInfo):
                out.append(c.fq)
            else:
                out.extend(ancestors(p, c))
        return out
    if name in EXT_PARENTS:
        return out + ancestors(p, EXT_PARENTS[name])
    b = getattr(builtins, name, None)
    if isinstance(b, type) and issubclass(b, BaseException):
        return [c.__name__ for c in b.__mro__ if c is not object]
    return out + ["Exception", "BaseException"]


class EscapeAnalysis:
    def __init__(self, p: Program, spec: TaintSpec, max_depth: int = 8) -> None:
        self.p = p
        self.spec = spec
        self.ta = TaintAnalysis(p, spec)
        self.max_depth = max_depth
        self._memo: Dict[Tuple, FrozenSet[Esc]] = {}
        self._stack: List[Tuple] = []
        self.caught: Set[Tuple[str, str]] = set()  # (exc, construct) of fact points that are handled
        self.functions: Set[str] = set()
        self.call_sites = 0
        self.fact_points = 0
        self.rounds = 0
        self.new_round()

    # ----------------------------------------------------------- helpers
    def _type_name(self, fn: FuncInfo, t: ast.expr) -> str:
        r = self.p.resolve_dotted(fn.module, t) if isinstance(t, (ast.Name, ast.Attribute)) else None
        if isinstance(r, ClassInfo):
            return r.fq
        if isinstance(r, tuple) and r[0] == "ext":
            return r[1]
        if isinstance(t, ast.Name):
            return t.id
        return ast.unparse(t)

    def _caught_locally(self, fn: FuncInfo, node: ast.AST, exc: str) -> bool:
        anc = ancestors(self.p, exc)
        child = node
        n = getattr(node, "_parent", None)
        while n is not None and n is not fn.node:
            if isinstance(n, ast.GeneratorExp) and child is not n.generators[0].iter:
                # a generator expression is LAZY: its element / conditions / inner iterables are evaluated where it is consumed.
                # Only when it is handed straight to a consumer (list(...), sum(...), "".join(...), a for statement's iterable ...)
                # is that inside the try statements that enclose it lexically; bound to a name it is consumed anywhere later
                par_ = getattr(n, "_parent", None)
                consumed_here = isinstance(par_, ast.Call) and n in par_.args or (isinstance(par_, (ast.For, ast.AsyncFor)) and par_.iter is n) \
                    or isinstance(par_, (ast.Starred, ast.YieldFrom, ast.comprehension))
                if not consumed_here:
                    return False
            if isinstance(n, ast.Try) and any(child is b for b in n.body):
                for h in n.handlers:
                    if h.type is None:
                        return True
                    types = h.type.elts if isinstance(h.type, ast.Tuple) else [h.type]
                    for t in types:
                        if self._type_name(fn, t) in anc:
                            return True
            if isinstance(n, (ast.With, ast.AsyncWith)) and any(child is b for b in n.body):
                # `with _errors_as_http():` - a repository @contextmanager generator whose `yield` sits in a try: its handlers are
                # handlers around the with body (the exception is thrown into the generator at the yield)
                for item in n.items:
                    ce = item.context_expr
                    # an instance of a repository class whose __exit__ / __aexit__ converts or swallows the exception
                    # (`with self._json_errors:` / `with _Translate():` - `if isinstance(exc, X): raise Y` or `return True`)
                    for xt in self._exit_handled_types(fn, ce):
                        if xt in anc:
                            return True
                    if not isinstance(ce, ast.Call):
                        continue
                    try:
                        g = self.p.resolve_call(fn, ce)
                    except Exception:
                        g = None
                    if not (isinstance(g, FuncInfo) and any(d.split(".")[-1] in ("contextmanager", "asynccontextmanager") for d in g.decorators)):
                        continue
                    for t_ in ast.walk(g.node):
                        if isinstance(t_, ast.Try) and any(isinstance(st_, ast.Expr) and isinstance(st_.value, ast.Yield) for st_ in t_.body):
                            for h in t_.handlers:
                                if h.type is None:
                                    return True
                                types = h.type.elts if isinstance(h.type, ast.Tuple) else [h.type]
                                for tt in types:
                                    if self._type_name(g, tt) in anc:
                                        return True
            if isinstance(n, (ast.FunctionDef, ast.AsyncFunctionDef, ast.Lambda)):
                break
            child = n
            n = getattr(n, "_parent", None)
        return False

    def _exit_handled_types(self, fn: FuncInfo, ce: ast.expr) -> List[str]:
        ctor = None
        if isinstance(ce, ast.Call):
            ctor = ce
        elif isinstance(ce, ast.Name) and isinstance(fn.module.constants.get(ce.id), ast.Call):
            ctor = fn.module.constants[ce.id]
        elif isinstance(ce, ast.Attribute) and isinstance(ce.value, ast.Name) and ce.value.id in ("self", "cls"):
            owner = self.p.enclosing_class(fn)
            if owner is not None:
                for c in self.p.mro(owner):
                    if isinstance(c, ClassInfo) and isinstance(c.attrs.get(ce.attr), ast.Call):
                        ctor = c.attrs[ce.attr]
                        break
        if ctor is None:
            return []
        try:
            ci = self.p.resolve_call(fn, ctor)
        except Exception:
            ci = None
        if not isinstance(ci, ClassInfo):
            # a class attribute / module constant is resolved in the module that defines it
            nm = ast.unparse(ctor.func).split(".")[-1]
            ci = next((c for m in self.p.modules.values() for c in m.classes.values() if c.name == nm), None)
        if not isinstance(ci, ClassInfo):
            return []
        out: List[str] = []
        for mname in ("__exit__", "__aexit__"):
            ex = self.p.find_method(ci, mname)
            if ex is None:
                continue
            for n in ast.walk(ex.node):
                if isinstance(n, ast.If):
                    converts = any(isinstance(x, ast.Raise) or (isinstance(x, ast.Return) and isinstance(x.value, ast.Constant) and x.value.value is True) for st in n.body for x in ast.walk(st))
                    if not converts:
                        continue
                    for c in ast.walk(n.test):
                        if isinstance(c, ast.Call) and isinstance(c.func, ast.Name) and c.func.id in ("isinstance", "issubclass") and len(c.args) == 2:
                            types = c.args[1].elts if isinstance(c.args[1], ast.Tuple) else [c.args[1]]
                            for t in types:
                                out.append(self._type_name(ex, t))
        return out

    def local_types(self, fn: FuncInfo) -> Dict[str, ClassInfo]:
        out: Dict[str, ClassInfo] = {}
        for n in walk_shallow(fn.node):
            if isinstance(n, ast.Assign) and len(n.targets) == 1 and isinstance(n.targets[0], ast.Name) and isinstance(n.value, ast.Call):
                r = self.p.resolve_call(fn, n.value)
                if isinstance(r, ClassInfo):
                    out[n.targets[0].id] = r
        return out

    # ------------------------------------------------------------- main
    def escapes(self, fn: FuncInfo, self_cls: Optional[ClassInfo], param_taint: Dict[str, Origins], depth: int = 0) -> FrozenSet[Esc]:
        key = (fn.fq, self_cls.fq if self_cls else None, tuple(sorted((k, v) for k, v in param_taint.items() if v)))
        if key in self._round_done:
            return self._memo[key]
        if key in self._stack or depth > self.max_depth:
            return self._memo.get(key, frozenset())
        self._stack.append(key)
        self.functions.add(fn.fq)
        try:
            res = self._escapes(fn, self_cls, param_taint, depth)
        finally:
            self._stack.pop()
        old = self._memo.get(key, frozenset())
        res = res | old
        if res != old:
            self.changed = True
        self._memo[key] = res
        self._round_done.add(key)
        return res

    def new_round(self) -> None:
        self._round_done: Set[Tuple] = set()
        self.changed = False
        self.ta.new_round()
        self.call_sites = 0
        self.fact_points = 0

    def solve(self, entries: Sequence[Tuple[FuncInfo, Optional[ClassInfo]]], max_rounds: int = 8) -> Dict[Tuple[str, Optional[str]], FrozenSet[Esc]]:
        """Repeat rounds until neither taint summaries nor escape sets grow."""
        out: Dict[Tuple[str, Optional[str]], FrozenSet[Esc]] = {}
        for i in range(max_rounds):
            self.new_round()
            for fn, cls in entries:
                out[(fn.fq, cls.fq if cls else None)] = self.escapes(fn, cls, {})
            self.rounds = i + 1
            if not self.changed and not self.ta.changed:
                break
        return out

    def _owner(self, fn: FuncInfo) -> FuncInfo:
        from .common import owner_of
        return owner_of(self.p, fn)

    def _escapes(self, fn: FuncInfo, self_cls, param_taint, depth) -> FrozenSet[Esc]:
        env = self.ta.function_env(fn, self_cls, param_taint)
        ltypes = self.local_types(fn)
        out: Set[Esc] = set()
        T = lambda e: self.ta.expr(fn, e, env, self_cls)  # noqa: E731

        def add(node: ast.AST, exc: str, why: str, kind: str, text: Optional[str] = None) -> None:
            cons = construct(fn, node if text is None else None, text)
            owner = self._owner(fn)
            if owner is not fn and cons.startswith(fn.fq):
                # a private helper with a single caller is part of that caller: the construct is named after it, so that
                # extracting the statement into a helper (or inlining it back) does not make it a different construct
                cons = owner.fq + cons[len(fn.fq):]
            if self._caught_locally(fn, node, exc):
                if kind == "fact":
                    self.caught.add((exc, cons))
                return
            out.add(Esc(exc, cons, where(fn, node), why, kind, _operation(why)))

        def propagate(node: ast.AST, items: FrozenSet[Esc]) -> None:
            for it in items:
                if self._caught_locally(fn, node, it.exc):
                    if it.kind == "fact":
                        self.caught.add((it.exc, it.construct))
                    continue
                out.add(it)

        for node in walk_shallow(fn.node):
            # ---------------- explicit raises
            if isinstance(node, ast.Raise) and node.exc is not None:
                e = node.exc
                target = e.func if isinstance(e, ast.Call) else e
                name = self._type_name(fn, target) if isinstance(target, (ast.Name, ast.Attribute)) else None
                if name is None:
                    continue
                r = self.p.resolve_dotted(fn.module, target) if isinstance(target, (ast.Name, ast.Attribute)) else None
                if not (isinstance(r, ClassInfo) or (isinstance(getattr(builtins, name, None), type))):
                    continue  # re-raise of a variable
                gs = guards_of(node, fn.node)
                data_dependent = (not gs and not self._inside_handler(fn, node)) or any(self._cond_tainted(g, T) for g, _ in gs)
                if data_dependent:
                    add(node, name, "explicit raise reachable under client-controlled conditions", "raise")
            # ---------------- fact table
            elif isinstance(node, ast.Call):
                self._facts_call(fn, node, T, add)
                self._follow_call(fn, node, self_cls, env, ltypes, depth, propagate)
            elif isinstance(node, ast.Assign):
                self._facts_unpack(fn, node, T, add)
            elif isinstance(node, ast.Attribute) and isinstance(node.ctx, ast.Load):
                self._follow_property(fn, node, self_cls, ltypes, depth, propagate)
            elif isinstance(node, ast.Subscript) and isinstance(node.ctx, ast.Load):
                self._facts_subscript(fn, node, T, add)
            elif isinstance(node, ast.Compare) and len(node.ops) == 1 and isinstance(node.ops[0], (ast.Lt, ast.LtE, ast.Gt, ast.GtE)):
                # ordering of two datetimes raises TypeError when exactly one of them is naive: a datetime parsed from client text
                # (parsedate_to_datetime of a date without zone / with -0000, strptime, fromisoformat) is naive or aware as the CLIENT
                # chooses, so comparing it with a datetime the library made itself can always be made to raise
                a_, b_ = node.left, node.comparators[0]
                for x_, y_ in ((a_, b_), (b_, a_)):
                    if self._client_parsed_datetime(fn, x_, T) and self._library_datetime(fn, y_):
                        self.fact_points += 1
                        add(node, "TypeError", "ordering comparison of a datetime parsed from client text (naive or aware as the client writes the date) with a datetime built by the library: "
                            "can't compare offset-naive and offset-aware datetimes", "fact")
                        break
        return frozenset(out)

    def _client_parsed_datetime(self, fn: FuncInfo, e: ast.expr, T) -> bool:
        parsers = ("email.utils.parsedate_to_datetime", "datetime.datetime.strptime", "datetime.datetime.fromisoformat")

        def made(x: ast.expr, depth: int = 0) -> bool:
            if depth > 4:
                return False
            if isinstance(x, ast.Call):
                r = self.p.resolve_call(fn, x)
                if isinstance(r, tuple) and r[0] == "ext" and r[1] in parsers:
                    return bool(x.args) and bool(T(x.args[0]))
                return False   # .replace(tzinfo=...) / .astimezone() normalise the awareness
            if isinstance(x, ast.Name):
                for n in ast.walk(fn.node):
                    if isinstance(n, ast.Assign) and any(isinstance(t, ast.Name) and t.id == x.id for t in n.targets) and made(n.value, depth + 1):
                        return True
            return False

        return made(e)

    def _library_datetime(self, fn: FuncInfo, e: ast.expr) -> bool:
        makers = ("datetime.datetime.fromtimestamp", "datetime.datetime.utcfromtimestamp", "datetime.datetime.now", "datetime.datetime.utcnow", "datetime.datetime")

        def made(x: ast.expr, depth: int = 0) -> bool:
            if depth > 4:
                return False
            if isinstance(x, ast.Call):
                r = self.p.resolve_call(fn, x)
                if isinstance(r, tuple) and r[0] == "ext" and r[1] in makers:
                    return True
                if isinstance(x.func, ast.Attribute) and x.func.attr in ("replace", "astimezone"):
                    return made(x.func.value, depth + 1)
                return False
            if isinstance(x, ast.Name):
                for n in ast.walk(fn.node):
                    if isinstance(n, ast.Assign) and any(isinstance(t, ast.Name) and t.id == x.id for t in n.targets) and made(n.value, depth + 1):
                        return True
            return False

        return made(e)

    def _cond_tainted(self, test: ast.expr, T) -> bool:
        for n in ast.walk(test):
            if isinstance(n, (ast.Name, ast.Attribute, ast.Call, ast.Subscript)) and T(n):
                return True
        return False

    def _inside_handler(self, fn: FuncInfo, node: ast.AST) -> bool:
        n = getattr(node, "_parent", None)
        while n is not None and n is not fn.node:
            if isinstance(n, ast.ExceptHandler):
                return True
            n = getattr(n, "_parent", None)
        return False

    # ------------------------------------------------------------ following
    def _follow_call(self, fn, call: ast.Call, self_cls, env, ltypes, depth, propagate) -> None:
        r = self.p.resolve_call(fn, call, self_cls)
        callee: Optional[FuncInfo] = None
        callee_cls: Optional[ClassInfo] = None
        skip_self = False
        if isinstance(r, FuncInfo):
            callee = r
            callee_cls = self.ta._callee_cls(r, self_cls)
        elif isinstance(r, ClassInfo):
            init = self.p.find_method(r, "__init__")
            if init is not None:
                callee, callee_cls = init, r
                skip_self = True
        elif isinstance(call.func, ast.Attribute) and isinstance(call.func.value, ast.Name) and call.func.value.id in ltypes:
            m = self.p.find_method(ltypes[call.func.value.id], call.func.attr)
            if m is not None:
                callee, callee_cls = m, ltypes[call.func.value.id]
        if callee is None:
            # a repository function handed to an external / unresolved callable as a CALLBACK together with client data
            # (`pattern.sub(_replace, text)`, `map(f, items)`, `sorted(xs, key=f)`): it will be called with (something derived from) that
            # data - its escapes are escapes of this call, every parameter carrying the union of the other arguments' taint
            cbs = []
            others: Origins = EMPTY
            for a in list(call.args) + [k.value for k in call.keywords]:
                cb = None
                if isinstance(a, ast.Name) and a.id not in fn.params:
                    try:
                        cb = self.p.module(fn.module.name).functions.get(a.id)
                    except Exception:
                        cb = None
                if cb is not None and cb.params:
                    cbs.append(cb)
                else:
                    others = others | self.ta.expr(fn, a, env, self_cls)
            if isinstance(call.func, ast.Attribute):
                others = others | self.ta.expr(fn, call.func.value, env, self_cls)
            if cbs and others and depth < 6:
                for cb in cbs:
                    self.call_sites += 1
                    propagate(call, self.escapes(cb, None, {nm: others for nm in cb.params}, depth + 1))
            # dynamic dispatch on an abstract repository method (e.g. Convertor.to_python): follow every override
            if isinstance(call.func, ast.Attribute):
                for impl, icls in self._abstract_impls(call.func.attr):
                    self.call_sites += 1
                    params = impl.params[1:]
                    pt2: Dict[str, Origins] = {}
                    for nm, a in zip(params, call.args):
                        pt2[nm] = self.ta.expr(fn, a, env, self_cls)
                    propagate(call, self.escapes(impl, icls, pt2, depth + 1))
            return
        self.call_sites += 1
        if skip_self:
            params = callee.params[1:]
            pt: Dict[str, Origins] = {}
            for nm, a in zip(params, call.args):
                pt[nm] = self.ta.expr(fn, a, env, self_cls)
            for k in call.keywords:
                if k.arg:
                    pt[k.arg] = self.ta.expr(fn, k.value, env, self_cls)
        else:
            pt = self.ta._bind(fn, call, callee, env, self_cls, 0)
        propagate(call, self.escapes(callee, callee_cls, pt, depth + 1))

    def _abstract_impls(self, name: str) -> List[Tuple[FuncInfo, ClassInfo]]:
        if not hasattr(self, "_abs_cache"):
            self._abs_cache: Dict[str, List[Tuple[FuncInfo, ClassInfo]]] = {}
            roots: Dict[str, List[ClassInfo]] = {}
            for c in self.p.all_classes():
                for mn, m in c.methods.items():
                    if any("abstractmethod" in d for d in m.decorators):
                        roots.setdefault(mn, []).append(c)
            for mn, rs in roots.items():
                if len(rs) != 1:
                    continue  # ambiguous name: not followed
                impls = []
                for sub in self.p.subclasses(rs[0]):
                    m = sub.methods.get(mn)
                    if m is not None:
                        impls.append((m, sub))
                self._abs_cache[mn] = impls
        return self._abs_cache.get(name, [])

    def _follow_property(self, fn, node: ast.Attribute, self_cls, ltypes, depth, propagate) -> None:
        cls = None
        if isinstance(node.value, ast.Name) and node.value.id == "self":
            cls = self_cls or self.p.enclosing_class(fn)
        elif isinstance(node.value, ast.Name) and node.value.id in ltypes:
            cls = ltypes[node.value.id]
        if cls is None:
            return
        m = self.p.find_method(cls, node.attr)
        if m is None or not any(d.endswith("property") for d in m.decorators):
            return
        if isinstance(getattr(node, "_parent", None), ast.Call) and node._parent.func is node:  # type: ignore[attr-defined]
            return
        self.call_sites += 1
        propagate(node, self.escapes(m, cls, {}, depth + 1))

    def _datetime_like(self, fn: FuncInfo, e: ast.expr) -> bool:
        """Is `e` a datetime built from client text: a local assigned from parsedate_to_datetime()/datetime.strptime()/fromisoformat()
        (possibly through .replace()), or such a call itself?"""
        makers = ("email.utils.parsedate_to_datetime", "datetime.datetime.strptime", "datetime.datetime.fromisoformat", "datetime.datetime.fromtimestamp")

        def made(x: ast.expr, depth: int = 0) -> bool:
            if depth > 4:
                return False
            if isinstance(x, ast.Call):
                r = self.p.resolve_call(fn, x)
                if isinstance(r, tuple) and r[0] == "ext" and r[1] in makers:
                    return True
                if isinstance(x.func, ast.Attribute) and x.func.attr in ("replace", "astimezone"):
                    return made(x.func.value, depth + 1)
                return False
            if isinstance(x, ast.Name):
                for n in ast.walk(fn.node):
                    if isinstance(n, ast.Assign) and any(isinstance(t, ast.Name) and t.id == x.id for t in n.targets) and made(n.value, depth + 1):
                        return True
                    if isinstance(n, ast.AnnAssign) and isinstance(n.target, ast.Name) and n.target.id == x.id and n.value is not None and made(n.value, depth + 1):
                        return True
            return False

        return made(e)

    # ----------------------------------------------------------- fact table
    def _facts_call(self, fn: FuncInfo, call: ast.Call, T, add) -> None:
        f = call.func
        r = self.p.resolve_call(fn, call)
        ext = r[1] if isinstance(r, tuple) and r[0] in ("ext", "builtin") else None
        if isinstance(f, ast.Attribute) and f.attr == "decode":
            recv_t = T(f.value)
            codec = call.args[0] if call.args else next((k.value for k in call.keywords if k.arg == "encoding"), None)
            errors = call.args[1] if len(call.args) > 1 else next((k.value for k in call.keywords if k.arg == "errors"), None)
            if recv_t:
                self.fact_points += 1
                lenient = isinstance(errors, ast.Constant) and errors.value in ("replace", "ignore", "surrogateescape", "backslashreplace")
                if codec is not None and not isinstance(codec, ast.Constant) and T(codec):
                    # the construct names the call site by WHAT is decoded; how the client's charset name is obtained (inline
                    # expression, local, helper) is not part of its identity
                    ctext = f"{ast.unparse(f.value)}.decode(<client-chosen codec>)"
                    add(call, "LookupError", f"bytes.decode(<client-chosen codec>): an unknown charset name raises LookupError (codec from {sorted(T(codec))})", "fact", ctext)
                    if not lenient:
                        add(call, "UnicodeDecodeError", f"bytes.decode(<client-chosen codec>) of client bytes raises UnicodeDecodeError for most codecs (data from {sorted(recv_t)})", "fact", ctext)
                elif not lenient and codec is not None and not isinstance(codec, ast.Constant):
                    # a codec that is computed at run time and not traced to client data by the taint analysis (it went through a helper /
                    # an adapter object): not a known total codec - presumed client-chosen, the same operation as above
                    ctext = f"{ast.unparse(f.value)}.decode(<client-chosen codec>)"
                    add(call, "UnicodeDecodeError", f"bytes.decode(<client-chosen codec>) of client bytes raises UnicodeDecodeError for most codecs (codec `{ast.unparse(codec)[:40].replace('(', '<').replace(')', '>')}` "
                                                    f"not a constant: presumed client-chosen; data from {sorted(recv_t)})", "fact", ctext)
                elif not lenient and not (isinstance(codec, ast.Constant) and str(codec.value).lower() in TOTAL_CODECS):
                    cn = codec.value if isinstance(codec, ast.Constant) else "utf-8"
                    add(call, "UnicodeDecodeError", f"bytes.decode({cn!r}) of client bytes is not total (data from {sorted(recv_t)})", "fact")
            return
        if isinstance(f, ast.Attribute) and f.attr == "encode":
            recv_t = T(f.value)
            codec = call.args[0] if call.args else next((k.value for k in call.keywords if k.arg == "encoding"), None)
            if recv_t and isinstance(codec, ast.Constant) and str(codec.value).lower() in ("ascii", "us-ascii"):
                self.fact_points += 1
                add(call, "UnicodeEncodeError", f"str.encode('ascii') of client text is not total (data from {sorted(recv_t)})", "fact")
            elif codec is not None and not isinstance(codec, ast.Constant) and T(codec):
                self.fact_points += 1
                ctext = f"{ast.unparse(f.value)}.encode(<client-chosen codec>)"
                add(call, "LookupError", f"str.encode(<client-chosen codec>): an unknown charset name raises LookupError (codec from {sorted(T(codec))})", "fact", ctext)
                if recv_t:
                    add(call, "UnicodeEncodeError", f"str.encode(<client-chosen codec>) of client text raises UnicodeEncodeError for most codecs (data from {sorted(recv_t)})", "fact", ctext)
            return
        if ext in ("int", "float") and call.args:
            t = T(call.args[0])
            if t:
                self.fact_points += 1
                add(call, "ValueError", f"{ext}() of client text: non-numeric text or a digit string beyond the int conversion limit raises ValueError (data from {sorted(t)})", "fact")
            return
        if ext == "decimal.Decimal" and call.args and T(call.args[0]):
            self.fact_points += 1
            add(call, "decimal.InvalidOperation", "Decimal() of client text", "fact")
            return
        if ext in ("datetime.date", "datetime.datetime") and any(T(a) for a in call.args):
            self.fact_points += 1
            add(call, "ValueError", "date()/datetime() of client numbers validates the calendar", "fact")
            return
        if ext in ("urllib.parse.urlsplit", "urllib.parse.urlparse") and call.args:
            t = T(call.args[0])
            if t:
                self.fact_points += 1
                add(call, "ValueError", f"urlsplit() of client text raises ValueError for e.g. 'http://[' (data from {sorted(t)})", "fact")
            return
        if ext in ("os.stat", "os.lstat", "os.open", "open", "os.listdir", "os.scandir") and call.args:
            t = T(call.args[0])
            if t:
                self.fact_points += 1
                add(call, "NotADirectoryError", f"{ext}() of a client-derived path raises OSError subclasses other than FileNotFoundError ('/file.txt/x' -> NotADirectoryError, over-long name -> OSError) (path from {sorted(t)})", "fact")
                add(call, "ValueError", f"{ext}() of a client-derived path raises ValueError for an embedded NUL (path from {sorted(t)})", "fact")
                add(call, "OSError", f"{ext}() of a client-derived path raises plain OSError for a component longer than NAME_MAX (errno ENAMETOOLONG) or a symbolic-link loop (ELOOP): not a FileNotFoundError / NotADirectoryError (path from {sorted(t)})", "fact")
            return
        if ext in ("codecs.lookup", "codecs.getdecoder", "codecs.getencoder", "codecs.getincrementaldecoder", "codecs.getincrementalencoder", "codecs.getreader", "codecs.getwriter") and call.args and T(call.args[0]):
            self.fact_points += 1
            add(call, "LookupError", f"{ext}(<client-chosen codec>): an unknown charset name raises LookupError (codec from {sorted(T(call.args[0]))})", "fact")
            return
        if ext == "json.loads" and call.args and T(call.args[0]):
            self.fact_points += 1
            add(call, "json.JSONDecodeError", "json.loads() of client text", "fact")
            return
        if ext == "email.utils.parsedate_to_datetime" and call.args and T(call.args[0]):
            self.fact_points += 1
            add(call, "ValueError", "parsedate_to_datetime() of client text", "fact")
            add(call, "OverflowError", "parsedate_to_datetime() of client text: a year such as 99999999999999999999 raises OverflowError (an ArithmeticError, not a ValueError)", "fact")
            return
        if ext in ("urllib.parse.parse_qsl", "urllib.parse.parse_qs") and call.args and T(call.args[0]):
            lim = next((k.value for k in call.keywords if k.arg == "max_num_fields"), call.args[5] if len(call.args) > 5 else None)
            if lim is not None and not (isinstance(lim, ast.Constant) and lim.value is None):
                self.fact_points += 1
                add(call, "ValueError", f"{ext.split('.')[-1]}(<client text>, max_num_fields=...) raises ValueError when the client sends more pairs than the limit", "fact")
            strict = next((k.value for k in call.keywords if k.arg == "strict_parsing"), None)
            if strict is not None and not (isinstance(strict, ast.Constant) and not strict.value):
                self.fact_points += 1
                add(call, "ValueError", f"{ext.split('.')[-1]}(<client text>, strict_parsing=True) raises ValueError for a pair without '='", "fact")
            return
        if isinstance(f, ast.Attribute) and f.attr in ("astimezone", "timestamp", "utctimetuple", "utcoffset") and T(f.value) and self._datetime_like(fn, f.value):
            self.fact_points += 1
            add(call, "OverflowError", f"datetime.{f.attr}() of a client-chosen date shifts it by its UTC offset: year 1 / year 9999 dates with an offset leave the representable range (OverflowError)", "fact")
            return
        if ext in ("os.path.realpath", "os.lstat", "os.readlink", "os.path.getsize", "os.path.getmtime", "os.path.samefile", "os.chdir", "os.access") and call.args:
            t = T(call.args[0])
            if t:
                self.fact_points += 1
                add(call, "ValueError", f"{ext}() of a client-derived path raises ValueError for an embedded NUL byte (path from {sorted(t)})", "fact")
            return

    def _facts_unpack(self, fn: FuncInfo, node: ast.Assign, T, add) -> None:
        if len(node.targets) != 1 or not isinstance(node.targets[0], (ast.Tuple, ast.List)):
            return
        v = node.value
        if isinstance(v, ast.Call) and isinstance(v.func, ast.Attribute) and v.func.attr in ("split", "rsplit") and T(v.func.value):
            n = len(node.targets[0].elts)
            sep = v.args[0] if v.args else None
            maxsplit = v.args[1] if len(v.args) > 1 else next((k.value for k in v.keywords if k.arg == "maxsplit"), None)
            if n == 2 and isinstance(maxsplit, ast.Constant) and maxsplit.value == 1 and isinstance(sep, ast.Constant):
                # guarded by `<sep> in <text>` on the true branch: exactly two parts
                recv = ast.unparse(v.func.value)
                for g, pol in norm_guards(node, fn.node):
                    if pol and isinstance(g, ast.Compare) and len(g.ops) == 1 and isinstance(g.ops[0], ast.In) and isinstance(g.left, ast.Constant) \
                            and g.left.value == sep.value and ast.unparse(g.comparators[0]) == recv:
                        return
            self.fact_points += 1
            add(node, "ValueError", f"unpacking {ast.unparse(v)[:60]} into {n} names: client text without the separator yields fewer parts (ValueError)", "fact")

    def _total_mapping(self, fn: FuncInfo, name: ast.Name, key: str) -> bool:
        """`name[key]` cannot raise KeyError because of what `name` is bound from in this function: a regular-expression match object
        (a named group always exists: m["key"] is None when it did not take part), or a ChainMap / dict display / `dict(k=...)` whose
        literal part provides the key."""
        from .common import _assigned_values
        defs = _assigned_values(fn, name.id)
        loop_iters = [n.iter for n in ast.walk(fn.node) if isinstance(n, (ast.For, ast.AsyncFor, ast.comprehension)) and any(isinstance(t, ast.Name) and t.id == name.id for t in ast.walk(n.target))]
        srcs = defs + loop_iters
        if not srcs:
            return False

        def total(e: ast.expr) -> bool:
            if isinstance(e, ast.Call):
                fname = e.func.attr if isinstance(e.func, ast.Attribute) else (e.func.id if isinstance(e.func, ast.Name) else "")
                if fname in ("finditer", "match", "fullmatch", "search"):
                    return True  # (an `if m is None` is the caller's business: a None would raise TypeError, not KeyError)
                if isinstance(e.func, ast.Name) and e.func.id in self._compiled_finders(fn):
                    return True
                if fname == "ChainMap":
                    return any(total_literal(a) for a in e.args)
                if fname == "dict":
                    return any(k.arg == key for k in e.keywords)
            return total_literal(e)

        def total_literal(e: ast.expr) -> bool:
            return isinstance(e, ast.Dict) and any(isinstance(k, ast.Constant) and k.value == key for k in e.keys)
        return all(total(x) for x in srcs)

    def _is_text_name(self, fn: FuncInfo, name: ast.Name) -> bool:
        """the local / parameter is a str (or bytes): annotated so, or only ever bound from string-producing operations"""
        a = fn.node.args
        for x in a.posonlyargs + a.args + a.kwonlyargs:
            if x.arg == name.id:
                return x.annotation is not None and ast.unparse(x.annotation) in ("str", "bytes")
        from .common import _assigned_values
        vals = _assigned_values(fn, name.id)
        if not vals:
            return False
        # the same identifier is also a loop / comprehension / with / except target somewhere in the function (`for _ in ...`): which
        # binding a given use refers to is not tracked - not known to be text
        for n in ast.walk(fn.node):
            tg = None
            if isinstance(n, (ast.For, ast.AsyncFor, ast.comprehension)):
                tg = n.target
            elif isinstance(n, (ast.With, ast.AsyncWith)):
                tg = ast.Tuple(elts=[i.optional_vars for i in n.items if i.optional_vars is not None], ctx=ast.Store())
            if tg is not None and any(isinstance(x, ast.Name) and x.id == name.id for x in ast.walk(tg)):
                return False

        def texty(e: ast.expr) -> bool:
            if isinstance(e, ast.Call) and isinstance(e.func, ast.Attribute) and e.func.attr in ("strip", "lstrip", "rstrip", "lower", "upper", "decode", "encode", "replace", "join", "format", "title"):
                return True
            if isinstance(e, ast.Call) and isinstance(e.func, ast.Attribute) and e.func.attr in ("partition", "rpartition"):
                return True  # (a piece of the 3-tuple, bound by unpacking)
            if isinstance(e, ast.Subscript) and isinstance(e.slice, ast.Slice):
                return texty(e.value) or isinstance(e.value, ast.Name)
            if isinstance(e, (ast.JoinedStr,)) or (isinstance(e, ast.Constant) and isinstance(e.value, (str, bytes))):
                return True
            return False
        return all(texty(v) for v in vals)

    def _compiled_finders(self, fn: FuncInfo):
        """module-level names bound to `<compiled regex>.finditer` / `.match` ... (`_scan = re.compile(..).finditer`)"""
        out = set()
        for nm, ex in fn.module.constants.items():
            if isinstance(ex, ast.Attribute) and ex.attr in ("finditer", "match", "fullmatch", "search"):
                out.add(nm)
        return out

    def _facts_subscript(self, fn: FuncInfo, node: ast.Subscript, T, add) -> None:
        # dict-literal / module-constant dict indexed by a client-derived key
        base = node.value
        # text[0] / text[-1] of client text that may be EMPTY (a header parameter `name=`): IndexError, unless a guard on its length /
        # truthiness dominates the subscript
        if isinstance(node.slice, ast.Constant) and isinstance(node.slice.value, int) and not isinstance(node.slice.value, bool) and isinstance(base, ast.Name) and isinstance(node.ctx, ast.Load) \
                and T(base) and self._is_text_name(fn, base):
            nm = base.id

            def _guards(e: ast.AST) -> bool:
                for x in ast.walk(e):
                    if isinstance(x, ast.Call) and isinstance(x.func, ast.Name) and x.func.id == "len" and x.args and isinstance(x.args[0], ast.Name) and x.args[0].id == nm:
                        return True
                    if isinstance(x, ast.Call) and isinstance(x.func, ast.Attribute) and isinstance(x.func.value, ast.Name) and x.func.value.id == nm and x.func.attr in ("startswith", "endswith"):
                        return True
                return isinstance(e, ast.Name) and e.id == nm
            guarded = any(_guards(g) for g, _pol in norm_guards(node, fn.node))
            q, child = getattr(node, "_parent", None), node
            while q is not None and not isinstance(q, ast.stmt):
                if isinstance(q, ast.BoolOp) and isinstance(q.op, ast.And):
                    for v_ in q.values:
                        if v_ is child or any(v_ is a_ for a_ in ast.walk(child)):
                            break
                        if _guards(v_):
                            guarded = True
                if isinstance(q, ast.BoolOp) and isinstance(q.op, ast.Or):
                    # `not text or text[0] == "/"` / `len(text) == 0 or ...`: an earlier operand of the `or` that is true for the empty text
                    for v_ in q.values:
                        if v_ is child or any(v_ is a_ for a_ in ast.walk(child)):
                            break
                        if isinstance(v_, ast.UnaryOp) and isinstance(v_.op, ast.Not) and _guards(v_.operand):
                            guarded = True
                        elif isinstance(v_, ast.Compare) and len(v_.ops) == 1 and isinstance(v_.ops[0], (ast.Eq, ast.Lt, ast.LtE)) and _guards(v_.left):
                            guarded = True
                child, q = q, getattr(q, "_parent", None)
            if not guarded:
                self.fact_points += 1
                add(node, "IndexError", f"{nm}[{node.slice.value}] of client text that may be empty (e.g. a header parameter `name=`) raises IndexError (text from {sorted(T(base))})", "fact")
            return
        # a string-keyed lookup in a mapping built from client text (e.g. parsed header parameters)
        if isinstance(node.slice, ast.Constant) and isinstance(node.slice.value, str) and isinstance(base, (ast.Name, ast.Attribute)) and T(base):
            root = base
            while isinstance(root, ast.Attribute):
                root = root.value
            # a gateway object (the scope / environ parameter, a message returned by receive()) has the keys the server
            # guarantees; recognised by provenance, not by what the local is called
            gateway = isinstance(root, ast.Name) and root.id in ("scope", "environ") and root.id in fn.params or ast.unparse(base) in ("self._scope", "self._environ", "self") \
                or all(o == "receive()" for o in T(base))
            if not gateway and isinstance(base, ast.Name) and self._total_mapping(fn, base, node.slice.value):
                return
            if not gateway:
                key = node.slice.value
                bt = ast.unparse(base)
                guarded = False
                for n in ast.walk(fn.node):
                    if isinstance(n, ast.Compare) and len(n.ops) == 1 and isinstance(n.ops[0], (ast.In, ast.NotIn)) and isinstance(n.left, ast.Constant) and n.left.value == key \
                            and ast.unparse(n.comparators[0]) == bt and getattr(n, "lineno", 0) <= getattr(node, "lineno", 0):
                        guarded = True
                if not guarded:
                    self.fact_points += 1
                    add(node, "KeyError", f"mapping built from client text indexed with the constant key {key!r} that the client may omit (from {sorted(T(base))})", "fact")
            return
        if isinstance(base, ast.Dict) and not isinstance(node.slice, ast.Slice):
            t = T(node.slice)
            if t:
                self.fact_points += 1
                add(node, "KeyError", f"constant table indexed by a client-derived key (from {sorted(t)})", "fact")
