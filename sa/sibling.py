"""Sibling normaliser: rewrites a WSGI or ASGI definition into a common vocabulary and extracts an
*effect fingerprint* so that the two hand-copied stacks can be compared with each other
(each side is the other's oracle).

Tier A: the normalised ASTs are equal  -> the pair agrees.
Tier B: otherwise compare fingerprints (multisets): signature/defaults, class attributes,
header writes, statuses, constants, calls into shared code with their lexical guards, raises,
attribute stores, returns/yields. Locals are alpha-renamed, async/await is dropped and the
gateway vocabulary (environ keys <-> scope keys, start_response <-> send_http_start, ...) is
mapped, so one-sided refactorings that do not change effects do not change the fingerprint.
"""
from __future__ import annotations

import ast
import copy
from collections import Counter
from typing import Dict, List, Optional, Set, Tuple

from .loader import ClassInfo, FuncInfo, Program

GATEWAY_PARAMS = {"environ", "start_response", "scope", "receive", "send"}

NAMEMAP = {
    "scope": "REQ", "environ": "REQ", "_scope": "_REQ", "_environ": "_REQ",
    "ASGIApp": "App", "WSGIApp": "App", "asgi": "gateway", "wsgi": "gateway",
    "awrite": "write", "aseek": "seek", "aclose": "close", "aread": "read", "asend": "send",
    "parse_async_stream": "parse_stream", "AsyncIterable": "Iterable", "AsyncIterator": "Iterator",
    "AsyncGenerator": "Generator", "_AsyncUploadFile": "_UploadFile", "_SyncUploadFile": "_UploadFile",
    "__aiter__": "__iter__", "__anext__": "__next__", "StopAsyncIteration": "StopIteration",
}

# environ key -> scope key vocabulary
KEYMAP = {
    "PATH_INFO": "path", "SCRIPT_NAME": "root_path", "QUERY_STRING": "query_string", "REQUEST_METHOD": "method",
    "PATH_PARAMS": "path_params", "CONTENT_TYPE": "hdr:content-type", "CONTENT_LENGTH": "hdr:content-length",
}


def norm_key(k):
    if isinstance(k, bytes):
        import re as _re

        try:
            t = k.decode("ascii")
        except Exception:
            return k
        if _re.fullmatch(r"[a-z][a-z0-9-]*", t):  # looks like a lower-case header name
            return "hdr:" + t
        return k
    if isinstance(k, str):
        if k in KEYMAP:
            return KEYMAP[k]
        if k.startswith("HTTP_"):
            return "hdr:" + k[5:].lower().replace("_", "-")
    return k


class _Norm(ast.NodeTransformer):
    """async/await removal, vocabulary mapping, annotation/docstring removal."""

    def visit_AsyncFunctionDef(self, n):
        self.generic_visit(n)
        return ast.FunctionDef(name=n.name, args=n.args, body=n.body or [ast.Pass()], decorator_list=n.decorator_list, returns=None, type_comment=None)

    def visit_FunctionDef(self, n):
        self.generic_visit(n)
        n.returns = None
        if not n.body:
            n.body = [ast.Pass()]
        return n

    def visit_AsyncFor(self, n):
        self.generic_visit(n)
        return ast.For(target=n.target, iter=n.iter, body=n.body, orelse=n.orelse, type_comment=None)

    def visit_AsyncWith(self, n):
        self.generic_visit(n)
        return ast.With(items=n.items, body=n.body, type_comment=None)

    def visit_Await(self, n):
        self.generic_visit(n)
        return n.value

    def visit_Name(self, n):
        n.id = NAMEMAP.get(n.id, n.id)
        return n

    def visit_Attribute(self, n):
        self.generic_visit(n)
        n.attr = NAMEMAP.get(n.attr, n.attr)
        return n

    def visit_arg(self, n):
        n.arg = NAMEMAP.get(n.arg, n.arg)
        n.annotation = None
        return n

    def visit_AnnAssign(self, n):
        self.generic_visit(n)
        if n.value is None:
            return None
        return ast.Assign(targets=[n.target], value=n.value, type_comment=None)

    def visit_Expr(self, n):
        if isinstance(n.value, ast.Constant) and isinstance(n.value.value, str):
            return None
        self.generic_visit(n)
        return n

    def visit_comprehension(self, n):
        self.generic_visit(n)
        n.is_async = 0
        return n

    def visit_IfExp(self, n):
        # m[k] if k in m else d  ==  m.get(k, d)      (and the negated form)
        self.generic_visit(n)
        t, a, b = n.test, n.body, n.orelse
        if isinstance(t, ast.Compare) and len(t.ops) == 1 and isinstance(t.ops[0], (ast.In, ast.NotIn)):
            if isinstance(t.ops[0], ast.NotIn):
                a, b = b, a
            k, m = t.left, t.comparators[0]
            if isinstance(a, ast.Subscript) and ast.dump(a.value) == ast.dump(m) and ast.dump(a.slice) == ast.dump(k):
                return ast.Call(func=ast.Attribute(value=m, attr="get", ctx=ast.Load()), args=[k, b], keywords=[])
        return n

    def visit_Constant(self, n):
        nk = norm_key(n.value)
        if nk is not n.value and nk != n.value:
            return ast.copy_location(ast.Constant(value=nk), n)
        return n


def _alpha(tree: ast.AST, params: List[str]) -> ast.AST:
    """Rename locals (assigned names that are not parameters) in order of first appearance."""
    order: List[str] = []
    for n in ast.walk(tree):
        if isinstance(n, ast.Name) and isinstance(n.ctx, ast.Store) and n.id not in params and n.id not in order:
            order.append(n.id)
        elif isinstance(n, ast.ExceptHandler) and n.name and n.name not in order:
            order.append(n.name)
        elif isinstance(n, ast.arg) and isinstance(getattr(n, "_lambda", None), bool):
            pass
    # order by position for determinism
    pos: Dict[str, Tuple[int, int]] = {}
    for n in ast.walk(tree):
        if isinstance(n, ast.Name) and n.id in order:
            p_ = (getattr(n, "lineno", 0), getattr(n, "col_offset", 0))
            if n.id not in pos or p_ < pos[n.id]:
                pos[n.id] = p_
    mapping = {nm: f"v{i}" for i, nm in enumerate(sorted(order, key=lambda x: pos.get(x, (0, 0))))}
    if getattr(_alpha, "anonymous", False):
        mapping = {nm: "_L" for nm in order}

    class R(ast.NodeTransformer):
        def visit_Name(self, n):
            if n.id in mapping:
                n.id = mapping[n.id]
            return n

        def visit_ExceptHandler(self, n):
            self.generic_visit(n)
            if n.name in mapping:
                n.name = mapping[n.name]
            return n

        def visit_Nonlocal(self, n):
            n.names = [mapping.get(x, x) for x in n.names]
            return n

    return R().visit(tree)


def normalised(fn: FuncInfo) -> ast.AST:
    t = copy.deepcopy(fn.node)
    for n in ast.walk(t):
        for attr in ("_parent",):
            if hasattr(n, attr):
                try:
                    delattr(n, attr)
                except Exception:
                    pass
    t = _Norm().visit(t)
    t = _propagate_aliases(t)
    ast.fix_missing_locations(t)
    params = [a.arg for a in t.args.posonlyargs + t.args.args + t.args.kwonlyargs]
    t = _alpha(t, params)
    return t


def _propagate_aliases(t: ast.AST) -> ast.AST:
    """A local bound exactly once to a plain attribute path of self / a parameter (`headers = self.headers`,
    `cache = self.__dict__`) is that path: replace its uses and drop the binding, so that hoisting such a path into a local - or
    not - gives the same normalised function."""
    counts: Dict[str, int] = {}
    vals: Dict[str, ast.expr] = {}
    for n in ast.walk(t):
        if isinstance(n, ast.Name) and isinstance(n.ctx, (ast.Store, ast.Del)):
            counts[n.id] = counts.get(n.id, 0) + 1
        elif isinstance(n, ast.arg):
            counts[n.arg] = counts.get(n.arg, 0) + 2
    for n in ast.walk(t):
        if isinstance(n, ast.Assign) and len(n.targets) == 1 and isinstance(n.targets[0], ast.Name) and counts.get(n.targets[0].id) == 1:
            v = n.value
            chain = v
            depth = 0
            while isinstance(chain, ast.Attribute):
                chain = chain.value
                depth += 1
            if depth >= 1 and isinstance(chain, ast.Name) and chain.id in ("self", "cls"):
                vals[n.targets[0].id] = v
            elif isinstance(v, (ast.BoolOp, ast.Compare)) or (isinstance(v, ast.UnaryOp) and isinstance(v.op, ast.Not)):
                # a condition given a name (`range_applies = a and (b or c)` ... `if range_applies:`) is that condition
                uses = [u for u in ast.walk(t) if isinstance(u, ast.Name) and u.id == n.targets[0].id and isinstance(u.ctx, ast.Load)]
                if 1 <= len(uses) <= 2:
                    vals[n.targets[0].id] = v
    if not vals:
        return t

    class R(ast.NodeTransformer):
        def visit_Assign(self, n):
            if len(n.targets) == 1 and isinstance(n.targets[0], ast.Name) and n.targets[0].id in vals:
                return None
            self.generic_visit(n)
            return n

        def visit_Name(self, n):
            if isinstance(n.ctx, ast.Load) and n.id in vals:
                return copy.deepcopy(vals[n.id])
            return n

    # definitions may mention other propagated locals: resolve them first (bounded), then rewrite the uses
    for _ in range(3):
        for k_ in list(vals):
            vals[k_] = R().visit(copy.deepcopy(vals[k_])) if not isinstance(vals[k_], ast.Name) or vals[k_].id not in vals else copy.deepcopy(vals[vals[k_].id])
    t2 = R().visit(t)
    for n in ast.walk(t2):
        for fld in ("body", "orelse", "finalbody"):
            b = getattr(n, fld, None)
            if isinstance(b, list) and not b and fld == "body" and isinstance(n, (ast.If, ast.For, ast.While, ast.With, ast.FunctionDef, ast.Try, ast.ExceptHandler)):
                n.body = [ast.Pass()]
    return t2


def tier_a_equal(f: FuncInfo, g: FuncInfo) -> bool:
    a, b = normalised(f), normalised(g)
    a.name = b.name = "_"
    return ast.dump(a, include_attributes=False) == ast.dump(b, include_attributes=False)


# ----------------------------------------------------------------------------- fingerprint
import re as _re2

_HDR_READ = _re2.compile(r"REQ(?:\.get\('hdr:[^']+'(?:, [^()]*)?\)|\['hdr:[^']+'\])")
_KEY_GET = _re2.compile(r"REQ\.get\('(path|root_path|query_string|method|path_params)'(?:, [^()]*)?\)")


_PRIVATE_CALL = _re2.compile(r"(?<![\w.])(?:self\.|cls\.)?_(?!_)[A-Za-z]\w*\((?:[^()]|\([^()]*\))*\)")


def _txt(n: ast.AST) -> str:
    t = " ".join(ast.unparse(n).split())
    if "_" in t:
        t = _PRIVATE_CALL.sub("_L", t)  # the value of a private helper is a local of its caller
    t = _HDR_READ.sub("_L", t)  # a request-header read is a local on the ASGI side (header scan loop)
    t = _KEY_GET.sub(lambda m: f"REQ['{m.group(1)}']", t)
    t = t.replace("environ=REQ", "req=REQ").replace("scope=REQ", "req=REQ").replace("environ=self._REQ", "req=self._REQ").replace("scope=self._REQ", "req=self._REQ")
    t = _re2.sub(r"'hdr:[^']+' not in REQ", "_L == ''", t)
    t = _re2.sub(r"'hdr:[^']+' in REQ", "_L != ''", t)
    return t


def _guard_chain(node: ast.AST, root: ast.AST, parents: Dict[int, ast.AST]) -> Tuple[str, ...]:
    out: List[str] = []
    child = node
    p_ = parents.get(id(node))
    while p_ is not None and p_ is not root:
        if isinstance(p_, ast.If):
            if any(child is b for b in p_.body):
                out.append(_txt(p_.test))
            elif any(child is b for b in p_.orelse):
                out.append("not (" + _txt(p_.test) + ")")
        elif isinstance(p_, ast.IfExp):
            if child is p_.body:
                out.append(_txt(p_.test))
            elif child is p_.orelse:
                out.append("not (" + _txt(p_.test) + ")")
        elif isinstance(p_, ast.ExceptHandler):
            out.append("except " + (_txt(p_.type) if p_.type else "*"))
        elif isinstance(p_, ast.Try) and any(child is b for b in p_.finalbody):
            out.append("finally")
        elif isinstance(p_, (ast.For, ast.While)):
            if any(child is b for b in p_.body):
                out.append("loop")
        child = p_
        p_ = parents.get(id(p_))
    return tuple(reversed(out))


PROGRAM = None  # set by the check so that helpers inherited from a base class are found


def is_private_helper(fi: FuncInfo) -> bool:
    n = fi.name
    return n.startswith("_") and not n.startswith("__") and all(d in ("staticmethod", "classmethod") for d in fi.decorators)


def _helper_of(fn: FuncInfo, call: ast.Call) -> Optional[FuncInfo]:
    """the private helper of the same module / class that `call` (in the normalised copy of fn) invokes, if any"""
    f = call.func
    name = None
    if isinstance(f, ast.Name):
        name = f.id
        cand = fn.module.functions.get(name)
    elif isinstance(f, ast.Attribute) and isinstance(f.value, ast.Name) and f.value.id in ("self", "cls"):
        name = f.attr
        owner = fn.cls
        g = fn
        while owner is None and g.parent is not None:
            g = g.parent
            owner = g.cls
        cand = owner.methods.get(name) if owner is not None else None
        if cand is None and owner is not None and PROGRAM is not None:
            cand = PROGRAM.find_method(owner, name)
    else:
        return None
    if cand is not None and is_private_helper(cand) and cand is not fn:
        return cand
    return None


def fingerprint(fn: FuncInfo, shared_names: Set[str], _depth: int = 0, _outer: Tuple[str, ...] = ()) -> Counter:
    """Multiset of effect items of one function in the common vocabulary. The effects of private helpers of the same module
    or class (functions whose name starts with one underscore) are folded into their callers, under the caller's guards:
    extracting statements into such a helper - on one side or on both - does not change the fingerprint."""
    from .common import effective_guards

    _alpha.anonymous = True  # type: ignore[attr-defined]
    try:
        t = normalised(fn)
    finally:
        _alpha.anonymous = False  # type: ignore[attr-defined]
    parents: Dict[int, ast.AST] = {}
    for n in ast.walk(t):
        for c in ast.iter_child_nodes(n):
            parents[id(c)] = n
    fp: Counter = Counter()
    _gcache: Dict[int, Tuple[str, ...]] = {}

    def _guard_chain(n, root, parents_):  # canonical, order-free (shadowing the lexical version below)
        stmt = n
        while stmt is not None and not isinstance(stmt, (ast.stmt, ast.IfExp)) and parents_.get(id(stmt)) is not None:
            nxt = parents_.get(id(stmt))
            if isinstance(nxt, ast.IfExp):
                break
            stmt = nxt
        key = id(n)
        if key not in _gcache:
            _gcache[key] = tuple(sorted(set(_outer) | set(effective_guards(n, root, _txt, parents_))))
        return _gcache[key]
    a = t.args
    pos = a.posonlyargs + a.args
    dmap: Dict[str, str] = {}
    for arg, d in zip(pos[len(pos) - len(a.defaults):], a.defaults):
        dmap[arg.arg] = _txt(d)
    for arg, d in zip(a.kwonlyargs, a.kw_defaults):
        if d is not None:
            dmap[arg.arg] = _txt(d)
    if _depth == 0:
        for arg in pos + a.kwonlyargs:
            if arg.arg in ("REQ", "start_response", "receive", "send", "self", "cls"):
                continue
            fp[("param", arg.arg, dmap.get(arg.arg, "<required>"))] += 1
        for d in t.decorator_list:
            fp[("decorator", _txt(d))] += 1
    for n in ast.walk(t):
        if n is t:
            continue
        if isinstance(n, (ast.FunctionDef, ast.Lambda)) and n is not t:
            continue
        g = _guard_chain(n, t, parents)
        if isinstance(n, ast.Constant) and not isinstance(n.value, (type(None), bool)) and n.value not in ("", b"", 0, 1):
            par = parents.get(id(n))
            if isinstance(par, ast.Expr):
                continue
            fp[("const", repr(n.value))] += 1
        elif isinstance(n, (ast.Assign, ast.AugAssign)):
            tg = n.targets[0] if isinstance(n, ast.Assign) else n.target
            if isinstance(tg, ast.Subscript) and "headers" in _txt(tg.value).lower():
                k = tg.slice.value.lower() if isinstance(tg.slice, ast.Constant) and isinstance(tg.slice.value, str) else _txt(tg.slice)
                fp[("header", k, _txt(n.value), g)] += 1
            elif isinstance(tg, ast.Subscript) and _txt(tg.value) == "REQ":
                fp[("req-store", _txt(tg.slice), _txt(n.value), g)] += 1
            elif isinstance(tg, ast.Attribute) and isinstance(tg.value, ast.Name) and tg.value.id == "self":
                fp[("attr-store", tg.attr, _txt(n.value), g)] += 1
        elif isinstance(n, ast.Raise) and n.exc is not None:
            fp[("raise", _txt(n.exc), g)] += 1
        elif isinstance(n, ast.Compare) and len(n.ops) == 1 and isinstance(n.ops[0], (ast.In, ast.NotIn)) and isinstance(n.left, ast.Constant) \
                and isinstance(n.left.value, str) and n.left.value.startswith("hdr:") and isinstance(n.comparators[0], ast.Name) and n.comparators[0].id == "REQ":
            fp[("header-presence-test", n.left.value)] += 1
        elif isinstance(n, ast.Call):
            f = n.func
            name = f.attr if isinstance(f, ast.Attribute) else (f.id if isinstance(f, ast.Name) else "")
            helper = _helper_of(fn, n) if _depth < 3 else None
            if helper is not None:
                fp.update(fingerprint(helper, shared_names, _depth + 1, g))
            elif name in shared_names and not (name.startswith("_") and not name.startswith("__")):
                # (constructing a private holder / calling a private name is not an effect of its own)
                args = [_txt(x) for x in n.args if _txt(x) not in ("REQ", "start_response", "receive", "send")]
                kws = sorted(_txt(ast.keyword(arg=k.arg, value=k.value)) if False else f"{ {'environ': 'req', 'scope': 'req'}.get(k.arg, k.arg) }={_txt(k.value)}" for k in n.keywords)
                fp[("call", name, tuple(args), tuple(kws), g)] += 1
        elif isinstance(n, ast.Return) and n.value is not None and _depth == 0:
            fp[("return", _shape(n.value))] += 1
    return fp


def _shape(e: ast.AST) -> str:
    """Coarse shape of a returned expression (gateway-specific plumbing removed)."""
    if isinstance(e, ast.Call):
        f = e.func
        name = f.attr if isinstance(f, ast.Attribute) else (f.id if isinstance(f, ast.Name) else "?")
        return f"call:{name}"
    if isinstance(e, ast.Constant):
        return f"const:{e.value!r}"
    if isinstance(e, ast.Name):
        return "name"
    return type(e).__name__
