"""Shared extraction for the multipart checks (C01, C15): the event loop of the two stream helpers
as a list of effects with their lexical guard chains, in a vocabulary common to sync and async."""
from __future__ import annotations

import ast
from dataclasses import dataclass
from typing import Dict, List, Optional, Tuple

from ..common import guards_of
from ..loader import AnalysisError, FuncInfo, Program, walk_shallow

HELPERS = ("parse_stream", "parse_async_stream")
VOC = {"awrite": "write", "aseek": "seek", "aclose": "close"}


@dataclass
class Effect:
    kind: str  # call | assign | augassign | raise | break
    text: str  # normalised statement text
    guards: Tuple[str, ...]  # enclosing tests, "not (...)" for else-branches
    node: ast.AST
    block: int  # id of the enclosing statement list (to test "same block, after")
    index: int  # position inside that block


def _norm(t: str) -> str:
    t = t.replace("await ", "")
    for a, b in VOC.items():
        t = t.replace("." + a + "(", "." + b + "(")
    return " ".join(t.split())


def helper_effects(fn: FuncInfo) -> List[Effect]:
    out: List[Effect] = []

    def walk_block(body: List[ast.stmt]) -> None:
        for i, st in enumerate(body):
            gs = []
            for g, pol in guards_of(st, fn.node):
                t = _norm(ast.unparse(g))
                gs.append(t if pol else f"not ({t})")
            gt = tuple(gs)
            if isinstance(st, ast.Expr):
                out.append(Effect("call", _norm(ast.unparse(st.value)), gt, st, id(body), i))
            elif isinstance(st, ast.Assign):
                out.append(Effect("assign", _norm(ast.unparse(st)), gt, st, id(body), i))
            elif isinstance(st, ast.AnnAssign) and st.value is not None:
                out.append(Effect("assign", _norm(f"{ast.unparse(st.target)} = {ast.unparse(st.value)}"), gt, st, id(body), i))
            elif isinstance(st, ast.AugAssign):
                out.append(Effect("augassign", _norm(ast.unparse(st)), gt, st, id(body), i))
            elif isinstance(st, ast.Raise):
                out.append(Effect("raise", _norm(ast.unparse(st)), gt, st, id(body), i))
            elif isinstance(st, ast.Break):
                out.append(Effect("break", "break", gt, st, id(body), i))
            for fld in ("body", "orelse", "finalbody"):
                sub = getattr(st, fld, None)
                if isinstance(sub, list) and sub and isinstance(sub[0], ast.stmt):
                    walk_block(sub)
            for h in getattr(st, "handlers", []) or []:
                walk_block(h.body)

    walk_block(fn.node.body)
    return out


def helpers(p: Program) -> Dict[str, FuncInfo]:
    m = p.module("baize.multipart_helper")
    out = {}
    for n in HELPERS:
        if n not in m.functions:
            raise AnalysisError(f"baize.multipart_helper.{n} vanished")
        out[n] = m.functions[n]
    return out


def has_guard(e: Effect, *needles: str) -> bool:
    return all(any(n == g or (n in g and not g.startswith("not (") and not n.startswith("not (")) for g in e.guards) for n in needles)


def guard_pol(e: Effect, needle: str) -> Optional[bool]:
    """True if `needle` appears as a positive guard, False if negated, None if absent."""
    for g in e.guards:
        if g == needle:
            return True
        if g == f"not ({needle})":
            return False
        if g == f"not {needle}":
            return False
    return None


# ----------------------------------------------------------------------------- decoder DATA branch
def data_branch_emissions(p: Program):
    """For every path of MultipartDecoder.next_event in the DATA state that emits a Data event:
    (path, emitted-prefix bound, deleted-prefix bound, more_data truth, no_complete_boundary_buffered, node, fn, collector)."""
    from ..collect import callee_is, run_paths
    from ..flow import NONE, subterms

    dec = p.cls("baize.multipart:MultipartDecoder")
    ne = dec.methods.get("next_event")
    if ne is None:
        raise AnalysisError("MultipartDecoder.next_event vanished")
    BUF = ("attr", ("param", "self"), "buffer")
    paths, col, it = run_paths(p, ne, dec, inline=lambda fi: False)
    out = []

    def truth_of(v, pa):
        if v[0] == "const":
            return bool(v[1])
        if (v, True) in pa.facts:
            return True
        if (v, False) in pa.facts:
            return False
        if v[0] == "not":
            t = truth_of(v[1], pa)
            return None if t is None else not t
        return None

    for pa in paths:
        if not any(t and f[0] == "cmp" and f[1] == "Eq" and f[2] == ("attr", ("param", "self"), "state") and f[3][0] == "attr" and f[3][2] == "DATA" for f, t in pa.facts):
            continue
        datas = [e for e in pa.events if e.kind == "call" and callee_is(e.a, "Data") and e.a[0] == "cls"]
        dels = [e for e in pa.events if e.kind == "delete" and e.a[0] == "sub" and e.a[1] == BUF]
        if not datas:
            continue
        kw = dict(datas[0].c)
        dv, mv = kw.get("data"), kw.get("more_data")
        emit_bound = del_bound = None
        if dv is not None:
            for t in subterms(dv):
                if t[0] == "sub" and t[1] == BUF and t[2][0] == "slice" and t[2][1] == NONE:
                    emit_bound = t[2][2]
        if dels:
            dk = dels[0].a[2]
            del_bound = dk[2] if dk[0] == "slice" and dk[1] == NONE else None
        more = truth_of(mv, pa) if mv is not None else None
        no_boundary = any(t and f[0] == "cmp" and f[1] == "Eq" and f[3] == ("const", -1) and f[2][0] == "call" and f[2][1][0] == "attr" and f[2][1][2] == "find" for f, t in pa.facts)
        node, fnn = col.nodes[datas[0].tag]
        out.append((pa, emit_bound, del_bound, more, no_boundary, node, ne, bool(dels)))
    return out, len(paths)
