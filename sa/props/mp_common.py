"""Shared extraction for the multipart checks (C01, C15): the event loop of the two stream helpers
as a list of effects with their lexical guard chains, in a vocabulary common to sync and async."""
from __future__ import annotations

import ast
from dataclasses import dataclass
from typing import Dict, List, Optional, Tuple

from ..common import guards_of
from ..loader import AnalysisError, FuncInfo, Program, walk_shallow

HELPERS = ("parse_stream", "parse_async_stream")
VOC = {"awrite": "write", "aseek": "seek", "aclose": "close"}


@dataclass
class Effect:
    kind: str  # call | assign | augassign | raise | break
    text: str  # normalised statement text
    guards: Tuple[str, ...]  # enclosing tests, "not (...)" for else-branches
    node: ast.AST
    block: int  # id of the enclosing statement list (to test "same block, after")
    index: int  # position inside that block


def _norm(t: str) -> str:
    t = t.replace("await ", "")
    for a, b in VOC.items():
        t = t.replace("." + a + "(", "." + b + "(")
    return " ".join(t.split())


def _roles(fn: FuncInfo) -> Dict[str, str]:
    """Identify the loop's variables by ROLE (not by name) so that a rename does not change the extracted effects:
    parser = MultipartDecoder(...), event = parser.next_event(), file = file_factory(...), items = the returned list,
    field_name = <event>.name, data = the accumulator that is decoded at flush, chunk = the stream loop variable."""
    import re as _re

    roles: Dict[str, str] = {}
    src_nodes = list(ast.walk(fn.node))
    for n in src_nodes:
        if isinstance(n, ast.Assign) and len(n.targets) == 1 and isinstance(n.targets[0], ast.Name):
            t, v = n.targets[0].id, n.value
            vs = ast.unparse(v).replace("await ", "")
            if vs.startswith("MultipartDecoder("):
                roles.setdefault(t, "parser")
    inv = {v: k for k, v in roles.items()}
    for n in src_nodes:
        if isinstance(n, (ast.Assign, ast.AnnAssign)):
            tgt = n.targets[0] if isinstance(n, ast.Assign) else n.target
            if not isinstance(tgt, ast.Name) or n.value is None:
                continue
            vs = ast.unparse(n.value).replace("await ", "")
            if "parser" in inv and vs == f"{inv['parser']}.next_event()":
                roles.setdefault(tgt.id, "event")
            elif vs.startswith("file_factory("):
                roles.setdefault(tgt.id, "file")
    inv = {v: k for k, v in roles.items()}
    for n in src_nodes:
        if isinstance(n, ast.Assign) and isinstance(n.targets[0], ast.Name) and "event" in inv and ast.unparse(n.value) == f"{inv['event']}.name":
            roles.setdefault(n.targets[0].id, "field_name")
        if isinstance(n, ast.Return) and isinstance(n.value, ast.Name):
            roles.setdefault(n.value.id, "items")
        if isinstance(n, (ast.For, ast.AsyncFor)) and isinstance(n.target, ast.Name) and ast.unparse(n.iter) == "stream":
            roles.setdefault(n.target.id, "chunk")
        if isinstance(n, ast.Call) and isinstance(n.func, ast.Name) and n.func.id == "safe_decode" and n.args and isinstance(n.args[0], ast.Name):
            roles.setdefault(n.args[0].id, "data")
        # the two counters: the variable compared with the corresponding limit parameter
        if isinstance(n, ast.Compare) and len(n.ops) == 1 and isinstance(n.left, ast.Name) and isinstance(n.comparators[0], ast.Name):
            lim = n.comparators[0].id
            if lim == "max_form_parts":
                roles.setdefault(n.left.id, "form_parts_count")
            elif lim == "max_form_memory_size":
                roles.setdefault(n.left.id, "form_memory_size_count")
    return roles


def helper_effects(fn: FuncInfo) -> List[Effect]:
    import re as _re

    out: List[Effect] = []
    roles = _roles(fn)
    _plain = globals()["_norm"]

    def _norm(t: str) -> str:  # role-normalised text
        t = _plain(t)
        for name, role in roles.items():
            if name != role:
                t = _re.sub(rf"(?<![\w.]){_re.escape(name)}(?![\w])", role, t)
        return t

    def walk_block(body: List[ast.stmt]) -> None:
        for i, st in enumerate(body):
            gs = []
            for g, pol in guards_of(st, fn.node):
                t = _norm(ast.unparse(g))
                gs.append(t if pol else f"not ({t})")
            gt = tuple(gs)
            if isinstance(st, ast.Expr):
                out.append(Effect("call", _norm(ast.unparse(st.value)), gt, st, id(body), i))
            elif isinstance(st, ast.Assign):
                out.append(Effect("assign", _norm(ast.unparse(st)), gt, st, id(body), i))
            elif isinstance(st, ast.AnnAssign) and st.value is not None:
                out.append(Effect("assign", _norm(f"{ast.unparse(st.target)} = {ast.unparse(st.value)}"), gt, st, id(body), i))
            elif isinstance(st, ast.AugAssign):
                out.append(Effect("augassign", _norm(ast.unparse(st)), gt, st, id(body), i))
            elif isinstance(st, ast.Raise):
                out.append(Effect("raise", _norm(ast.unparse(st)), gt, st, id(body), i))
            elif isinstance(st, ast.Break):
                out.append(Effect("break", "break", gt, st, id(body), i))
            for fld in ("body", "orelse", "finalbody"):
                sub = getattr(st, fld, None)
                if isinstance(sub, list) and sub and isinstance(sub[0], ast.stmt):
                    walk_block(sub)
            for h in getattr(st, "handlers", []) or []:
                walk_block(h.body)

    walk_block(fn.node.body)
    return out


def helpers(p: Program) -> Dict[str, FuncInfo]:
    m = p.module("baize.multipart_helper")
    out = {}
    for n in HELPERS:
        if n not in m.functions:
            raise AnalysisError(f"baize.multipart_helper.{n} vanished")
        out[n] = m.functions[n]
    return out


def has_guard(e: Effect, *needles: str) -> bool:
    return all(any(n == g or (n in g and not g.startswith("not (") and not n.startswith("not (")) for g in e.guards) for n in needles)


def guard_pol(e: Effect, needle: str) -> Optional[bool]:
    """True if `needle` appears as a positive guard, False if negated, None if absent."""
    for g in e.guards:
        if g == needle:
            return True
        if g == f"not ({needle})":
            return False
        if g == f"not {needle}":
            return False
    return None


# ----------------------------------------------------------------------------- decoder DATA branch
def data_branch_emissions(p: Program):
    """For every path of MultipartDecoder.next_event in the DATA state that emits a Data event:
    (path, emitted-prefix bound, deleted-prefix bound, more_data truth, no_complete_boundary_buffered, node, fn, collector)."""
    from ..collect import callee_is, run_paths
    from ..flow import NONE, subterms

    dec = p.cls("baize.multipart:MultipartDecoder")
    ne = dec.methods.get("next_event")
    if ne is None:
        raise AnalysisError("MultipartDecoder.next_event vanished")
    BUF = ("attr", ("param", "self"), "buffer")
    paths, col, it = run_paths(p, ne, dec, inline=lambda fi: False)
    out = []

    def truth_of(v, pa):
        if v[0] == "const":
            return bool(v[1])
        if (v, True) in pa.facts:
            return True
        if (v, False) in pa.facts:
            return False
        if v[0] == "not":
            t = truth_of(v[1], pa)
            return None if t is None else not t
        return None

    for pa in paths:
        if not any(t and f[0] == "cmp" and f[1] == "Eq" and f[2] == ("attr", ("param", "self"), "state") and f[3][0] == "attr" and f[3][2] == "DATA" for f, t in pa.facts):
            continue
        datas = [e for e in pa.events if e.kind == "call" and callee_is(e.a, "Data") and e.a[0] == "cls"]
        dels = [e for e in pa.events if e.kind == "delete" and e.a[0] == "sub" and e.a[1] == BUF]
        if not datas:
            continue
        kw = dict(datas[0].c)
        dv, mv = kw.get("data"), kw.get("more_data")
        emit_bound = del_bound = None
        if dv is not None:
            for t in subterms(dv):
                if t[0] == "sub" and t[1] == BUF and t[2][0] == "slice" and t[2][1] == NONE:
                    emit_bound = t[2][2]
        if dels:
            dk = dels[0].a[2]
            del_bound = dk[2] if dk[0] == "slice" and dk[1] == NONE else None
        more = truth_of(mv, pa) if mv is not None else None
        no_boundary = any(t and f[0] == "cmp" and f[1] == "Eq" and f[3] == ("const", -1) and f[2][0] == "call" and f[2][1][0] == "attr" and f[2][1][2] == "find" for f, t in pa.facts)
        node, fnn = col.nodes[datas[0].tag]
        out.append((pa, emit_bound, del_bound, more, no_boundary, node, ne, bool(dels)))
    return out, len(paths)
