"""Shared extraction for the multipart checks (C01, C15): the event loop of the two stream helpers
as a list of effects with their lexical guard chains, in a vocabulary common to sync and async."""
from __future__ import annotations

import ast
from dataclasses import dataclass
from typing import Dict, List, Optional, Tuple

from ..common import guards_of, norm_guards
from ..loader import AnalysisError, FuncInfo, Program, walk_shallow

HELPERS = ("parse_stream", "parse_async_stream")
VOC = {"awrite": "write", "aseek": "seek", "aclose": "close"}


@dataclass
class Effect:
    kind: str  # call | assign | augassign | raise | break
    text: str  # normalised statement text
    guards: Tuple[str, ...]  # enclosing tests, "not (...)" for else-branches
    node: ast.AST
    block: int  # id of the enclosing statement list (to test "same block, after")
    index: int  # position inside that block


def _norm(t: str) -> str:
    t = t.replace("await ", "")
    for a, b in VOC.items():
        t = t.replace("." + a + "(", "." + b + "(")
    return " ".join(t.split())


def _roles(fn: FuncInfo) -> Dict[str, str]:
    """Identify the loop's variables by ROLE (not by name) so that a rename does not change the extracted effects:
    parser = MultipartDecoder(...), event = parser.next_event(), file = file_factory(...), items = the returned list,
    field_name = <event>.name, data = the accumulator that is decoded at flush, chunk = the stream loop variable."""
    import re as _re

    roles: Dict[str, str] = {}
    src_nodes = list(ast.walk(fn.node))
    for n in src_nodes:
        if isinstance(n, ast.Assign) and len(n.targets) == 1 and isinstance(n.targets[0], ast.Name):
            t, v = n.targets[0].id, n.value
            vs = ast.unparse(v).replace("await ", "")
            if vs.startswith("MultipartDecoder("):
                roles.setdefault(t, "parser")
    inv = {v: k for k, v in roles.items()}
    for n in src_nodes:
        if isinstance(n, (ast.Assign, ast.AnnAssign)):
            tgt = n.targets[0] if isinstance(n, ast.Assign) else n.target
            if not isinstance(tgt, ast.Name) or n.value is None:
                continue
            vs = ast.unparse(n.value).replace("await ", "")
            if "parser" in inv and vs == f"{inv['parser']}.next_event()":
                roles.setdefault(tgt.id, "event")
            elif vs.startswith("file_factory("):
                roles.setdefault(tgt.id, "file")
    inv = {v: k for k, v in roles.items()}
    for n in src_nodes:
        if isinstance(n, ast.Assign) and isinstance(n.targets[0], ast.Name) and "event" in inv and ast.unparse(n.value) == f"{inv['event']}.name":
            roles.setdefault(n.targets[0].id, "field_name")
        if isinstance(n, ast.Return) and isinstance(n.value, ast.Name):
            roles.setdefault(n.value.id, "items")
        if isinstance(n, (ast.For, ast.AsyncFor)) and isinstance(n.target, ast.Name) and ast.unparse(n.iter) == "stream":
            roles.setdefault(n.target.id, "chunk")
        if isinstance(n, ast.Call) and isinstance(n.func, ast.Name) and n.func.id == "safe_decode" and n.args and isinstance(n.args[0], ast.Name):
            roles.setdefault(n.args[0].id, "data")
        # the two counters: the variable compared with the corresponding limit parameter
        if isinstance(n, ast.Compare) and len(n.ops) == 1 and isinstance(n.left, ast.Name) and isinstance(n.comparators[0], ast.Name):
            lim = n.comparators[0].id
            if lim == "max_form_parts":
                roles.setdefault(n.left.id, "form_parts_count")
            elif lim == "max_form_memory_size":
                roles.setdefault(n.left.id, "form_memory_size_count")
    return roles


def helper_effects(fn: FuncInfo) -> List[Effect]:
    import re as _re

    out: List[Effect] = []
    roles = _roles(fn)
    _plain = globals()["_norm"]

    def _norm(t: str) -> str:  # role-normalised text
        t = _plain(t)
        for name, role in roles.items():
            if name != role:
                t = _re.sub(rf"(?<![\w.]){_re.escape(name)}(?![\w])", role, t)
        return t

    def walk_block(body: List[ast.stmt]) -> None:
        for i, st in enumerate(body):
            gs = []
            for g, pol in norm_guards(st, fn.node):
                t = _norm(ast.unparse(g))
                gs.append(t if pol else f"not ({t})")
            gt = tuple(gs)
            if isinstance(st, ast.Expr):
                out.append(Effect("call", _norm(ast.unparse(st.value)), gt, st, id(body), i))
            elif isinstance(st, ast.Assign):
                out.append(Effect("assign", _norm(ast.unparse(st)), gt, st, id(body), i))
            elif isinstance(st, ast.AnnAssign) and st.value is not None:
                out.append(Effect("assign", _norm(f"{ast.unparse(st.target)} = {ast.unparse(st.value)}"), gt, st, id(body), i))
            elif isinstance(st, ast.AugAssign):
                out.append(Effect("augassign", _norm(ast.unparse(st)), gt, st, id(body), i))
            elif isinstance(st, ast.Raise):
                out.append(Effect("raise", _norm(ast.unparse(st)), gt, st, id(body), i))
            elif isinstance(st, ast.Break):
                out.append(Effect("break", "break", gt, st, id(body), i))
            for fld in ("body", "orelse", "finalbody"):
                sub = getattr(st, fld, None)
                if isinstance(sub, list) and sub and isinstance(sub[0], ast.stmt):
                    walk_block(sub)
            for h in getattr(st, "handlers", []) or []:
                walk_block(h.body)

    walk_block(fn.node.body)
    return out


def helpers(p: Program) -> Dict[str, FuncInfo]:
    m = p.module("baize.multipart_helper")
    out = {}
    for n in HELPERS:
        if n not in m.functions:
            raise AnalysisError(f"baize.multipart_helper.{n} vanished")
        out[n] = m.functions[n]
    return out


def has_guard(e: Effect, *needles: str) -> bool:
    return all(any(n == g or (n in g and not g.startswith("not (") and not n.startswith("not (")) for g in e.guards) for n in needles)


def guard_pol(e: Effect, needle: str) -> Optional[bool]:
    """True if `needle` appears as a positive guard, False if negated, None if absent."""
    for g in e.guards:
        if g == needle:
            return True
        if g == f"not ({needle})":
            return False
        if g == f"not {needle}":
            return False
    return None


# ----------------------------------------------------------------------------- decoder DATA branch
def boundary_absent(pa) -> bool:
    """Do the facts of the path say that no '--boundary' text is in the buffer? Any spelling of the absence test:
    buffer.find(x) == -1 | < 0 | not (!= -1) | not (>= 0) ;  x not in buffer | not (x in buffer)"""
    for f, t in pa.facts:
        if f[0] != "cmp":
            continue
        op, a, b = f[1], f[2], f[3]
        if a[0] == "call" and a[1][0] == "attr" and a[1][2] in ("find", "rfind") and "boundary" in repr(a[2]):
            if b == ("const", -1) and ((op == "Eq" and t) or (op == "NotEq" and not t)):
                return True
            if b == ("const", 0) and ((op == "Lt" and t) or (op == "GtE" and not t)):
                return True
            if b == ("const", -1) and ((op == "LtE" and t) or (op == "Gt" and not t)):
                return True
        if op in ("In", "NotIn") and "boundary" in repr(a) and "buffer" in repr(b):
            if (op == "NotIn" and t) or (op == "In" and not t):
                return True
    return False


def data_branch_emissions(p: Program):
    """For every path of MultipartDecoder.next_event in the DATA state that emits a Data event:
    (path, emitted-prefix bound, deleted-prefix bound, more_data truth, no_complete_boundary_buffered, node, fn, collector)."""
    from ..collect import callee_is, run_paths
    from ..flow import NONE, subterms

    dec = p.cls("baize.multipart:MultipartDecoder")
    ne = dec.methods.get("next_event")
    if ne is None:
        raise AnalysisError("MultipartDecoder.next_event vanished")
    BUF = ("attr", ("param", "self"), "buffer")
    paths, col, it = run_paths(p, ne, dec)
    out = []

    def truth_of(v, pa):
        if v[0] == "const":
            return bool(v[1])
        if (v, True) in pa.facts:
            return True
        if (v, False) in pa.facts:
            return False
        if v[0] == "not":
            t = truth_of(v[1], pa)
            return None if t is None else not t
        return None

    for pa in paths:
        if not any(t and f[0] == "cmp" and f[1] == "Eq" and f[2] == ("attr", ("param", "self"), "state") and f[3][0] == "attr" and f[3][2] == "DATA" for f, t in pa.facts):
            continue
        datas = [e for e in pa.events if e.kind == "call" and callee_is(e.a, "Data") and e.a[0] == "cls"]
        dels = [e for e in pa.events if e.kind == "delete" and e.a[0] == "sub" and e.a[1] == BUF]
        if not datas:
            continue
        kw = dict(datas[0].c)
        dv, mv = kw.get("data"), kw.get("more_data")
        emit_bound = del_bound = None
        if dv is not None:
            for t in subterms(dv):
                if t[0] == "sub" and t[1] == BUF and t[2][0] == "slice" and t[2][1] == NONE:
                    emit_bound = t[2][2]
        if dels:
            dk = dels[0].a[2]
            del_bound = dk[2] if dk[0] == "slice" and dk[1] == NONE else None
        more = truth_of(mv, pa) if mv is not None else None
        no_boundary = boundary_absent(pa)
        node, fnn = col.nodes[datas[0].tag]
        out.append((pa, emit_bound, del_bound, more, no_boundary, node, ne, bool(dels)))
    return out, len(paths)


# ----------------------------------------------------------------------------- decoder input discipline (C01 R1.6, C04, C15)
def _decoder(p: Program):
    dec = p.cls("baize.multipart:MultipartDecoder")
    for m in ("receive_data", "_parse_headers", "next_event"):
        if m not in dec.methods:
            raise AnalysisError(f"MultipartDecoder.{m} vanished")
    return dec


def receive_data_discipline(p: Program, rep=None):
    """An arriving chunk - empty ones included - is only appended; completion is signalled by None alone.
    Yields (kind, fn, node, construct text, message, path facts)."""
    from ..collect import run_paths
    from ..flow import NONE, subterms

    dec = _decoder(p)
    rd = dec.methods["receive_data"]
    BUF = ("attr", ("param", "self"), "buffer")
    if rep is not None:
        rep.analysed(rd.fq)
    rpaths, rcol, _ = run_paths(p, rd, dec)
    if rep is not None:
        rep.cfg_paths += len(rpaths)
    dparam = rd.params[1] if len(rd.params) > 1 else "data"
    IS_NONE = ("cmp", "Is", ("param", dparam), NONE)
    ISNT = ("cmp", "IsNot", ("param", dparam), NONE)
    out = []
    for pa in rpaths:
        if pa.exit != "return":
            continue
        none_t = True if (IS_NONE, True) in pa.facts or (ISNT, False) in pa.facts else (False if (IS_NONE, False) in pa.facts or (ISNT, True) in pa.facts else None)
        completes = [e for e in pa.events if e.kind == "store" and e.a == ("attr", ("param", "self"), "complete") and e.b != ("const", False)]
        extends = [e for e in pa.events if e.kind == "call" and e.a[0] == "attr" and e.a[1] == BUF and e.a[2] in ("extend", "__iadd__") and e.b == (("param", dparam),)]
        extends += [e for e in pa.events if e.kind == "store" and e.a == BUF and ("param", dparam) in list(subterms(e.b))]
        facts = pa.fact_text()[:4]
        if completes and none_t is not True:
            out.append(("violation", rd, None, "complete set for a chunk that is not None",
                        "receive_data marks the body complete on a path where the chunk is not known to be None (e.g. an empty chunk): the decoder then reports the end of the form / "
                        "'cannot parse beyond' although more bytes follow - the result depends on how the body was chunked (ASGI delivers empty messages, WSGI does not)", facts))
        elif not completes and not extends and none_t is not True:
            out.append(("violation", rd, None, "chunk dropped", "receive_data has a path on which a chunk is neither appended to the buffer nor the end-of-body signal", facts))
        elif not completes and none_t is True:
            out.append(("violation", rd, None, "None does not complete", "receive_data does not mark the body complete when it is given None", facts))
        else:
            out.append(("ok", rd, None, "", f"receive_data: {'None -> complete' if completes else 'every other chunk is appended to the buffer'}", facts))
    return out


def header_line_split(p: Program, rep=None):
    """The header block is split into lines as BYTES: str.splitlines also splits at VT FF FS GS RS NEL LS PS, which may occur
    inside a (decoded) field name or filename."""
    from ..collect import callee_is, run_paths
    from ..flow import subterms

    dec = _decoder(p)
    ph = dec.methods["_parse_headers"]
    if rep is not None:
        rep.analysed(ph.fq)
    hpaths, hcol, _ = run_paths(p, ph, dec)
    if rep is not None:
        rep.cfg_paths += len(hpaths)
    n_split = 0
    flagged = set()
    out = []
    for pa in hpaths:
        for e in pa.events:
            if e.kind == "call" and e.a[0] == "attr" and e.a[2] == "splitlines":
                n_split += 1
                dec_calls = [t for t in subterms(e.a[1]) if t[0] == "call" and (callee_is(t[1], "safe_decode") or (t[1][0] == "attr" and t[1][2] == "decode") or t[1] == ("builtin", "str"))]
                node, fnn = hcol.nodes[e.tag]
                if dec_calls and id(node) not in flagged:
                    flagged.add(id(node))
                    out.append(("violation", ph, node, "splitlines() on decoded text",
                                "the part header block is decoded before it is split into lines: str.splitlines() also breaks at VT, FF, FS, GS, RS, NEL, U+2028 and U+2029, so a field name or "
                                "filename containing one of them is cut (bytes.splitlines() breaks at CR/LF only)", []))
    if n_split and not flagged:
        out.append(("ok", ph, None, "", "_parse_headers splits the header block into lines before decoding (bytes.splitlines: CR/LF only)", []))
    elif not n_split:
        out.append(("undecided", ph, None, "", "_parse_headers: no splitlines() call found (line splitting idiom not recognised)", []))
    return out


def header_blank_lines_skipped(p: Program, rep=None):
    """A header block can start with an empty line: when a chunk ends between the CR and the LF that close a delimiter line, the
    delimiter patterns take the lone CR as the line break and the LF becomes a leading empty line of the next header block. The
    header loop therefore skips empty lines; a loop that turns EVERY line into a header gives that part a spurious ('', '') header
    for exactly that chunking."""
    dec = _decoder(p)
    ph = dec.methods["_parse_headers"]
    out = []
    loops = [n for n in ast.walk(ph.node) if isinstance(n, ast.For) and isinstance(n.target, ast.Name)
             and any(isinstance(c, ast.Call) and isinstance(c.func, ast.Attribute) and c.func.attr in ("splitlines", "split") for c in ast.walk(n.iter))]
    if not loops:
        # the same thing written as a pipeline of comprehensions: some stage filters on its line variable
        comps = [n for n in ast.walk(ph.node) if isinstance(n, (ast.ListComp, ast.GeneratorExp, ast.SetComp))]
        over_lines = any(isinstance(c, ast.Call) and isinstance(c.func, ast.Attribute) and c.func.attr == "splitlines" for n in comps for g in n.generators for c in ast.walk(g.iter))
        if comps and over_lines and any(g.ifs and any(isinstance(x, ast.Name) and isinstance(g.target, ast.Name) and x.id == g.target.id for t in g.ifs for x in ast.walk(t)) for n in comps for g in n.generators):
            return [("ok", ph, None, "", "_parse_headers: the line pipeline filters on the line itself (empty lines skipped)", [])]
        return [("undecided", ph, None, "", "_parse_headers: no loop over the lines of the header block found (idiom not recognised)", [])]
    for lp in loops:
        var = lp.target.id
        names = {var}
        # `line = line.strip()` style rebinding keeps the name; `stripped = line.strip()` adds one
        for n in ast.walk(lp):
            if isinstance(n, ast.Assign) and len(n.targets) == 1 and isinstance(n.targets[0], ast.Name) and any(isinstance(x, ast.Name) and x.id in names for x in ast.walk(n.value)) \
                    and isinstance(n.value, ast.Call) and isinstance(n.value.func, ast.Attribute) and n.value.func.attr in ("strip", "rstrip", "lstrip"):
                names.add(n.targets[0].id)
        if any(isinstance(c, ast.Call) and isinstance(c.func, ast.Name) and c.func.id == "filter" for c in ast.walk(lp.iter)) or any(isinstance(c, (ast.GeneratorExp, ast.ListComp)) for c in ast.walk(lp.iter)):
            out.append(("undecided", ph, lp, "", "_parse_headers: the lines are filtered before the loop; that empty lines are dropped is not read off the filter", []))
            continue
        adds = [n for n in ast.walk(lp) if (isinstance(n, ast.Call) and isinstance(n.func, ast.Attribute) and n.func.attr in ("append", "add", "insert", "extend")) or isinstance(n, ast.Yield)]
        if not adds:
            out.append(("undecided", ph, lp, "", "_parse_headers: the line loop collects headers in an idiom outside the table", []))
            continue

        def _tests_var(t: ast.AST) -> bool:
            return any(isinstance(x, ast.Name) and x.id in names for x in ast.walk(t))

        early = any(isinstance(st, ast.If) and _tests_var(st.test) and any(isinstance(x, ast.Continue) for x in ast.walk(st)) for st in lp.body)
        for a in adds:
            guarded = early
            q = getattr(a, "_parent", None)
            while q is not None and q is not lp:
                if isinstance(q, ast.If) and _tests_var(q.test):
                    guarded = True
                if isinstance(q, ast.Try):
                    guarded = True
                q = getattr(q, "_parent", None)
            if guarded:
                out.append(("ok", ph, None, "", "_parse_headers: a line becomes a header only under a test of the line (empty lines skipped)", []))
            else:
                out.append(("violation", ph, a, "every line of the header block becomes a header",
                            f"_parse_headers turns every line of the block into a header (`{' '.join(ast.unparse(a).split())[:60]}` under no test of the line): when a chunk ends between the CR "
                            "and the LF that close a delimiter line the next header block starts with an empty line, and that part alone gets a spurious ('', '') header - the parsed "
                            "headers depend on how the body was chunked", []))
    return out


def safe_decode_declared_first(p: Program, rep=None):
    """Header lines and field text are decoded with the part's DECLARED charset; a fixed codec is the fallback after that one
    failed (inside the handler), never a shortcut taken before it: a 7-bit but not ASCII-compatible charset (ISO-2022-JP, HZ,
    UTF-7) has all-ASCII bytes that mean other text."""
    try:
        sd = p.module("baize.multipart").functions.get("safe_decode")
    except Exception:
        sd = None
    if sd is None:
        return [("undecided", _decoder(p).methods["_parse_headers"], None, "", "multipart.safe_decode vanished (text decoded elsewhere)", [])]
    if rep is not None:
        rep.analysed(sd.fq)
    prm = sd.params[1] if len(sd.params) > 1 else None
    out = []
    declared = 0
    for r in [n for n in walk_shallow(sd.node) if isinstance(n, ast.Return) and n.value is not None]:
        v = r.value
        if not (isinstance(v, ast.Call) and isinstance(v.func, ast.Attribute) and v.func.attr == "decode"):
            out.append(("undecided", sd, r, "", f"safe_decode returns `{ast.unparse(v)[:50]}`, not a decode call", []))
            continue
        codec = v.args[0] if v.args else next((k.value for k in v.keywords if k.arg == "encoding"), None)
        in_handler = False
        q = getattr(r, "_parent", None)
        while q is not None and q is not sd.node:
            if isinstance(q, ast.ExceptHandler):
                in_handler = True
            q = getattr(q, "_parent", None)
        if isinstance(codec, ast.Name) and codec.id == prm:
            declared += 1
        elif isinstance(codec, ast.Constant) and not in_handler:
            out.append(("violation", sd, r, f"fixed codec {codec.value!r} outside the fallback handler",
                        f"safe_decode returns `{ast.unparse(v)[:50]}` on a path that has not tried the declared charset: bytes that are all 7-bit mean other text under a 7-bit charset "
                        "that is not ASCII-compatible (ISO-2022-JP, HZ, UTF-7) - field text and filenames come back as raw escape sequences", []))
        elif codec is None and not in_handler:
            out.append(("violation", sd, r, "default codec outside the fallback handler", f"safe_decode returns `{ast.unparse(v)[:50]}` (UTF-8 by default) without using the declared charset", []))
        elif not isinstance(codec, ast.Constant):
            out.append(("undecided", sd, r, "", f"safe_decode decodes with a computed codec `{ast.unparse(codec)[:40]}`", []))
    if not out:
        if declared:
            out.append(("ok", sd, None, "", "safe_decode tries the declared charset first; the fixed codec is only the fallback inside the handler", []))
        else:
            out.append(("undecided", sd, None, "", "safe_decode: no return of <bytes>.decode(<declared charset>) found", []))
    return out


def file_field_decision(p: Program, rep=None):
    """A part is a file exactly when its Content-Disposition carries a filename parameter (an empty one included)."""
    from ..collect import callee_is, run_paths
    from ..flow import NONE, show

    dec = _decoder(p)
    ne = dec.methods["next_event"]
    if rep is not None:
        rep.analysed(ne.fq)
    paths, col, _ = run_paths(p, ne, dec)
    out = []
    n_kind = 0
    for pa in paths:
        made = [e for e in pa.events if e.kind == "call" and e.a[0] == "cls" and (callee_is(e.a, "File") or callee_is(e.a, "Field"))]
        if not made:
            continue
        e = made[0]
        is_file = callee_is(e.a, "File")
        kw = dict(e.c)
        fnv = kw.get("filename")
        tests = [(f, t) for f, t in pa.facts if f[0] == "cmp" and f[1] in ("Is", "IsNot") and f[3] == NONE and f[2][0] == "call" and f[2][1][0] == "attr" and f[2][1][2] == "get" and f[2][2][:1] == (("const", "filename"),)]
        node, fnn = col.nodes[e.tag]
        n_kind += 1
        which = "File" if is_file else "Field"
        if not tests:
            out.append(("violation", ne, node, f"{which} chosen without `filename is None` test",
                        "the File/Field decision is not the test `filename is (not) None` of the Content-Disposition parameter: a part sent with filename=\"\" (an upload with an empty name) is "
                        "treated as a text field - buffered in memory, counted against the field-size limit and decoded", pa.fact_text()[:6]))
            continue
        f, t = tests[0]
        present = (f[1] == "IsNot") == t
        if present != is_file:
            out.append(("violation", ne, node, "File/Field inverted", "a part with a filename parameter becomes a Field (or one without becomes a File)", pa.fact_text()[:6]))
        elif is_file and fnv != f[2]:
            out.append(("violation", ne, node, f"File(filename={show(fnv)[:40] if fnv else None})", "the File event does not carry the filename parameter that was tested", pa.fact_text()[:6]))
        else:
            out.append(("ok", ne, None, "", f"{which} event <=> Content-Disposition filename parameter {'present' if is_file else 'absent'}", []))
    if n_kind < 2:
        out.append(("undecided", ne, None, "", f"expected a File and a Field construction path in next_event, found {n_kind}", []))
    return out


def parseparam_quote_parity(p: Program, rep=None):
    """`_parseparam` (the header-parameter splitter behind parse_header, a copy of the stdlib's) decides whether a ';' is
    inside a quoted string by the parity of the quotes before it; escaped quotes (backslash quote) must not count. A
    Content-Disposition such as  name="doc\\"s"; filename="big.bin"  otherwise loses (or gains) its filename parameter, which
    flips the File/Field classification."""
    m = p.module("baize.utils")
    fn = p.function(m.name, "_parseparam")
    if fn is None:
        raise AnalysisError("baize.utils._parseparam vanished")
    if rep is not None:
        rep.analysed(fn.fq)
    out = []
    n = 0

    def count_of(e: ast.AST, lit: str):
        return isinstance(e, ast.Call) and isinstance(e.func, ast.Attribute) and e.func.attr == "count" and e.args and isinstance(e.args[0], ast.Constant) and e.args[0].value == lit

    for b in ast.walk(fn.node):
        if isinstance(b, ast.BinOp) and isinstance(b.op, ast.Mod) and isinstance(b.right, ast.Constant) and b.right.value == 2:
            quotes = [c for c in ast.walk(b.left) if count_of(c, '"')]
            if not quotes:
                continue
            n += 1
            L = b.left
            ok = isinstance(L, ast.BinOp) and isinstance(L.op, ast.Sub) and count_of(L.left, '"') and count_of(L.right, '\\"') \
                and [ast.unparse(a) for a in L.left.args[1:]] == [ast.unparse(a) for a in L.right.args[1:]]
            if ok:
                out.append(("ok", fn, None, "", "_parseparam: quote parity discounts escaped quotes (count('\"') - count('\\\\\"'))", []))
            else:
                out.append(("violation", fn, b, f"quote parity {ast.unparse(b.left)[:60]}",
                            "_parseparam decides 'inside a quoted string' from the number of quotes without discounting escaped ones: a parameter value containing an escaped quote shifts the split, "
                            "so a part's filename parameter is lost (an upload is treated as an in-memory field and counted against the field limit) or invented", []))
    if n == 0:
        # the parity may be kept in a running counter (`quotes += s.count('"', a, b)` ... `quotes % 2`): every count of quotes
        # must then be paired, in the same statement and over the same span, with a subtracted count of escaped quotes
        qcalls = [c for c in ast.walk(fn.node) if count_of(c, '"')]
        if not qcalls:
            out.append(("undecided", fn, None, "", "_parseparam: no quote-parity test found (splitter idiom not recognised)", []))
            return out
        from ..common import parents as _par
        for qc in qcalls:
            stmt = next((q for q in _par(qc) if isinstance(q, ast.stmt)), None)
            span = [ast.unparse(a) for a in qc.args[1:]]
            recv = ast.unparse(qc.func.value)
            paired = False
            for b in ast.walk(stmt) if stmt is not None else []:
                if isinstance(b, ast.BinOp) and isinstance(b.op, ast.Sub) and any(c is qc for c in ast.walk(b.left)):
                    for ec in ast.walk(b.right):
                        if count_of(ec, '\\"') and [ast.unparse(a) for a in ec.args[1:]] == span and ast.unparse(ec.func.value) == recv:
                            paired = True
            if paired:
                out.append(("ok", fn, None, "", "_parseparam: every count of quotes is reduced by the count of escaped quotes over the same span", []))
            else:
                out.append(("violation", fn, qc, f"quotes counted without discounting escaped ones: {ast.unparse(qc)[:50]}",
                            "_parseparam counts the double quotes before a ';' without subtracting the escaped ones over the same span: a parameter value containing an escaped quote shifts the split, "
                            "so a part's filename parameter is lost (an upload is treated as an in-memory field and counted against the field limit) or invented (a field is streamed to a file "
                            "and not counted)", []))
    return out


def parse_header_keeps_parameters(p: Program, rep=None):
    """`parse_header` must record EVERY `name=value` parameter whatever the value is - an empty one included: a part sent
    with  filename=""  (a file input left empty) is still a file part. A parser that drops a parameter because of its
    value turns that part into an in-memory field, which is then counted against (and can exceed) the field limits.
    Decided on the paths through one iteration of the parameter loop: whether the result dict is written may depend on
    the shape of the parameter (no '=') but not on a test of the value that is stored."""
    fn = p.function("baize.utils", "parse_header")
    if fn is None:
        raise AnalysisError("baize.utils.parse_header vanished")
    if rep is not None:
        rep.analysed(fn.fq)
    returned = {n.id for r in ast.walk(fn.node) if isinstance(r, ast.Return) and r.value is not None for n in ast.walk(r.value) if isinstance(n, ast.Name)}

    def is_store(st: ast.stmt) -> bool:
        if isinstance(st, ast.Assign) and len(st.targets) == 1 and isinstance(st.targets[0], ast.Subscript) and isinstance(st.targets[0].value, ast.Name) and st.targets[0].value.id in returned:
            return True
        if isinstance(st, ast.Expr) and isinstance(st.value, ast.Call) and isinstance(st.value.func, ast.Attribute) and st.value.func.attr in ("setdefault", "update", "__setitem__") \
                and isinstance(st.value.func.value, ast.Name) and st.value.func.value.id in returned:
            return True
        return False

    loops = [lp for lp in ast.walk(fn.node) if isinstance(lp, (ast.For, ast.While)) and any(is_store(x) for x in ast.walk(lp) if isinstance(x, ast.stmt))]
    if len(loops) != 1:
        return [("undecided", fn, None, "", f"parse_header: expected one parameter loop writing the returned dict, found {len(loops)} (idiom not recognised)", [])]
    lp = loops[0]
    vnames = set()
    for st in ast.walk(lp):
        if isinstance(st, ast.stmt) and is_store(st):
            rhs = st.value if isinstance(st, ast.Assign) else (st.value.args[-1] if st.value.args else None)
            if rhs is not None:
                vnames |= {n.id for n in ast.walk(rhs) if isinstance(n, ast.Name)}
    changed = True
    while changed:  # names computed from the value (its length, an unquoted copy ...)
        changed = False
        for st in ast.walk(lp):
            if isinstance(st, ast.Assign) and any(isinstance(n, ast.Name) and n.id in vnames for n in ast.walk(st.value)):
                for t in st.targets:
                    if isinstance(t, ast.Name) and t.id not in vnames:
                        vnames.add(t.id)
                        changed = True
    loop_vars = {n.id for n in ast.walk(lp.target) if isinstance(n, ast.Name)} if isinstance(lp, ast.For) else set()
    vnames -= loop_vars

    class Opaque(Exception):
        pass

    def run(block, stored, key, vtests, out):
        """enumerate the paths through `block`; a state is (stored, decisions on tests that do NOT look at the value, tests that do);
        returns the states that fall out of the block's end, appends those that leave the iteration to `out`"""
        states = [(stored, key, vtests)]
        for st in block:
            nxt = []
            for s_, k_, v_ in states:
                if is_store(st):
                    nxt.append((True, k_, v_))
                elif isinstance(st, ast.If):
                    dep = any(isinstance(n, ast.Name) and n.id in vnames for n in ast.walk(st.test))
                    for branch, blk in ((True, st.body), (False, st.orelse)):
                        nxt += run(blk, s_, k_ if dep else k_ + ((id(st), branch),), v_ + (st.test,) if dep else v_, out)
                elif isinstance(st, (ast.Continue, ast.Break, ast.Return, ast.Raise)):
                    out.append((s_, k_, v_))
                elif isinstance(st, (ast.For, ast.While, ast.Try, ast.With, ast.Match)) and any(is_store(x) or isinstance(x, (ast.Continue, ast.Break, ast.Return)) for x in ast.walk(st) if isinstance(x, ast.stmt)):
                    raise Opaque(type(st).__name__)
                else:
                    nxt.append((s_, k_, v_))
            states = nxt
        return states

    outs = []
    try:
        outs += run(lp.body, False, (), (), outs)
    except Opaque as e:
        return [("undecided", fn, None, "", f"parse_header: the parameter loop writes the dict inside a {e} statement (idiom not recognised)", [])]
    if not any(s_ for s_, _k, _v in outs):
        return [("undecided", fn, None, "", "parse_header: no path of the parameter loop writes the returned dict", [])]
    # two paths that agree on every test that does not look at the value, one recording the parameter and one not:
    # whether it is recorded was decided by the value
    groups = {}
    for s_, k_, v_ in outs:
        groups.setdefault(k_, []).append((s_, v_))
    for k_, members in groups.items():
        if any(s_ for s_, _v in members) and any(not s_ for s_, _v in members):
            dropped = [v_ for s_, v_ in members if not s_ and v_]
            test = dropped[0][-1] if dropped else next(v_ for s_, v_ in members if v_)[-1]
            return [("violation", fn, test, f"parameter dropped by its value: {ast.unparse(test)[:50]}",
                     f"parse_header records a parameter only under a test of its VALUE (`{ast.unparse(test)[:50]}`): a parameter such as filename=\"\" is dropped, so an (empty) file part "
                     "loses its filename parameter, is decoded as an in-memory field and counted against the field limits (413 for a form within them)", [])]
    return [("ok", fn, None, "", f"parse_header: on all {len(outs)} paths of the parameter loop, whether a name=value parameter is recorded does not depend on a test of the value "
             f"(value names: {', '.join(sorted(vnames))})", [])]


def parse_header_splits_at_first_equals(p: Program, rep=None):
    """`name=value`: the name ends at the FIRST '=' of a parameter - a value may contain '=' itself (filename="a=b.txt",
    boundary="----=_Part_1"). Splitting at the last one (rpartition / rfind / rsplit) loses the `name` / `filename` / `boundary`
    parameter for such values: a file part is decoded as a field, a field has no name, the request boundary is cut."""
    fn = p.function("baize.utils", "parse_header")
    if fn is None:
        raise AnalysisError("baize.utils.parse_header vanished")
    from ..common import with_helpers
    first, last = [], []
    for f_ in with_helpers(p, fn):
        for c in ast.walk(f_.node):
            if isinstance(c, ast.Call) and isinstance(c.func, ast.Attribute) and c.args and isinstance(c.args[0], ast.Constant) and c.args[0].value == "=":
                if c.func.attr in ("find", "index", "partition"):
                    first.append((f_, c))
                elif c.func.attr == "split":
                    ms = c.args[1] if len(c.args) > 1 else next((k.value for k in c.keywords if k.arg == "maxsplit"), None)
                    (first if isinstance(ms, ast.Constant) and ms.value == 1 else last).append((f_, c))
                elif c.func.attr in ("rfind", "rindex", "rpartition", "rsplit"):
                    last.append((f_, c))
    if last:
        f_, c = last[0]
        return [("violation", f_, c, f"parameter split at `{ast.unparse(c)[:40]}`",
                 f"parse_header separates a parameter's name from its value with `{ast.unparse(c)[:40]}`, not at the first '=': a value that contains '=' (filename=\"q=1.txt\", "
                 "name=\"a[b]=c\", boundary=\"----=_Part\") moves into the name, so the real name / filename / boundary parameter is lost (a file part becomes a field, the form is split at a wrong boundary)", [])]
    if first:
        return [("ok", fn, None, "", f"parse_header splits name=value at the first '=' (`{ast.unparse(first[0][1])[:40]}`)", [])]
    return [("undecided", fn, None, "", "parse_header: no split of a parameter at '=' found (idiom not recognised)", [])]


# ----------------------------------------------------------------------------- the "pending partial delimiter" idiom
def decoder_patterns(p: Program, B: bytes):
    """{attr: (pattern bytes, flags, assignment node)} for every `self.<attr> = <compiled regex>` of MultipartDecoder.__init__,
    folded with the boundary standing for `B`. The regex may be written as re.compile(...) in place or come from a helper
    function that returns one; the straight-line locals of __init__ (delimiter = b"--" + boundary, lists of prefixes ...)
    are folded on the way. Patterns the folder cannot evaluate are reported as (None, None, node)."""
    from ..fold import CompiledRe, Folder, NotConst

    F = Folder(p)
    mp = p.module("baize.multipart")
    init = _decoder(p).methods.get("__init__")
    if init is None:
        raise AnalysisError("MultipartDecoder.__init__ vanished")
    env = {init.params[1] if len(init.params) > 1 else "boundary": B}
    out = {}
    F.exec_known(mp, init.node.body, env)
    # every attribute that is (meant to be) a compiled regex
    for st in ast.walk(init.node):
        tgts = []
        if isinstance(st, ast.Assign):
            tgts = [(t, st.value) for t in st.targets]
            if len(st.targets) == 1 and isinstance(st.targets[0], (ast.Tuple, ast.List)) and isinstance(st.value, (ast.Tuple, ast.List)) and len(st.targets[0].elts) == len(st.value.elts):
                tgts = list(zip(st.targets[0].elts, st.value.elts))
            elif len(st.targets) == 1 and isinstance(st.targets[0], (ast.Tuple, ast.List)):
                tgts = [(t, st.value) for t in st.targets[0].elts]
        elif isinstance(st, ast.AnnAssign) and st.value is not None:
            tgts = [(st.target, st.value)]
        for tgt, val in tgts:
            if not (isinstance(tgt, ast.Attribute) and isinstance(tgt.value, ast.Name) and tgt.value.id == "self"):
                continue
            key = f"self.{tgt.attr}"
            v = env.get(key)
            if isinstance(v, CompiledRe):
                out[tgt.attr] = (v.pattern, v.flags, st)
            elif key not in env:
                # not foldable: report it if it looks like a compiled pattern (re.compile in place / a helper returning one / *_re)
                r = p.resolve_call(init, val) if isinstance(val, ast.Call) else None
                if r == ("ext", "re.compile") or _returns_compiled(p, r) or tgt.attr.endswith("_re"):
                    out.setdefault(tgt.attr, (None, "not a constant expression of the boundary", st))
    return out


def _returns_compiled(p: Program, fn) -> bool:
    return isinstance(fn, FuncInfo) and any(isinstance(n, ast.Return) and isinstance(n.value, ast.Call) and p.resolve_call(fn, n.value) == ("ext", "re.compile") for n in ast.walk(fn.node))


def pending_idiom(p: Program):
    """The decoder may hold back `self.<attr>.search(self.buffer).start()` where <attr> is a regex anchored at the end of the
    buffer that matches 'a line break followed by what may still grow into a delimiter'. Decided on automata, with the
    boundary as one opaque symbol:
      sound    every non-empty prefix of a delimiter that does not itself contain a complete delimiter is matched
               (so a delimiter split across chunks is always held back from its line break on);
      bounded  the matched words that do not contain 'line break -- boundary' have a bounded length (so content that does
               not contain the delimiter is held back by at most len(boundary) + K bytes).
    Returns {attr: (sound: bool, witness|None, K|None, pattern)} for every compiled pattern of __init__ that ends in \\Z."""
    import re as _re

    from .. import rx
    from ..fold import Folder, NotConst

    B = b"\x01"
    LB = b"(?:\r\n|\n|\r)"
    H = b"[ \t\x0b\x0c]"
    REF_BOUNDARY = LB + b"--" + B + b"(?:--" + H + b"*" + LB + b"?|" + H + b"*" + LB + b")"
    out = {}
    for attr, (pat, _flags, _node) in decoder_patterns(p, B).items():
        multiline_dollar = isinstance(pat, bytes) and pat.endswith(b"$") and not pat.endswith(b"\\$") and isinstance(_flags, int) and bool(_flags & _re.MULTILINE)
        if not isinstance(pat, bytes) or not (pat.endswith(b"\\Z") or multiline_dollar):
            continue
        body = pat[:-2] if pat.endswith(b"\\Z") else pat[:-1]
        try:
            al = rx.alphabet_for([rx.Regex(REF_BOUNDARY), rx.Regex(body)])
            db, dp = rx.dfa_of(REF_BOUNDARY, al), rx.dfa_of(body, al)
            need = rx.intersect(rx.intersect(rx.prefix_closure(db), rx.complement(rx.then_anything(db))), rx.dfa_of(b"(?s).+", al))
            w = rx.difference_witness(need, dp)
            contains = rx.dfa_of(b"(?s).*" + LB + b"--" + B + b".*", al)
            k = rx.longest_word(rx.intersect(dp, rx.complement(contains)))
            # every match starts with a line break
            fs = dp.first_set()
            starts_lb = not dp.accepts_empty() and fs <= {10, 13}
        except rx.Unsupported:
            continue
        if multiline_dollar:
            # `$` under re.MULTILINE also matches before EVERY line break, not only at the end of the buffer: the search finds the FIRST
            # line break that is followed by a (possibly empty) delimiter prefix and a line end - the hold-back is not bounded
            k = None
        out[attr] = (w is None and starts_lb, w, k, pat)
    return out
