"""C02 - file responses deliver exactly the requested bytes with truthful framing (structural clauses)."""
from __future__ import annotations

import ast
from collections import Counter
from typing import Dict, List, Optional, Tuple

from ..collect import Path, callee_is, default_inline, run_paths
from ..common import with_helpers as with_helpers_, calls_in, construct, defs_of, where
from ..flow import ANY_EXC, NONE, Value, show, strparts, subterms
from ..loader import AnalysisError, ClassInfo, FuncInfo, Program, walk_shallow
from ..report import Report, Undecided

STR_TYPED = {"boundary", "content_type"}  # parameters annotated str: len(str(x)) == len(x)


class Lin(Counter):
    """Linear form: atom -> integer coefficient ('1' is the constant term)."""

    def __add__(self, o):  # type: ignore[override]
        r = Lin(self)
        for k, v in o.items():
            r[k] += v
        return Lin({k: v for k, v in r.items() if v})

    def show(self) -> str:
        return " + ".join((f"{v}*" if v != 1 and k != "1" else "") + (str(v) if k == "1" else k) for k, v in sorted(self.items())) or "0"


# single-assignment locals of generate_multipart that hold a piece of the part-header template (an f-string / a literal)
_STR_LOCALS: Dict[str, ast.expr] = {}


def _atom_len_of(e: ast.expr) -> str:
    t = ast.unparse(e)
    if isinstance(e, ast.Name) and e.id in STR_TYPED:
        return f"|{t}|"
    return f"|str({t})|"


def lin_of(e: ast.expr, env: Dict[str, ast.expr]) -> Lin:
    """Linear form of an integer expression built from +, constants, len(...), locals."""
    if isinstance(e, ast.Constant) and isinstance(e.value, int):
        return Lin({"1": e.value})
    if isinstance(e, ast.Name) and e.id in env:
        return lin_of(env[e.id], env)
    if isinstance(e, ast.BinOp) and isinstance(e.op, ast.Add):
        return lin_of(e.left, env) + lin_of(e.right, env)
    if isinstance(e, ast.BinOp) and isinstance(e.op, ast.Sub):
        return Lin({f"({ast.unparse(e)})": 1})
    if isinstance(e, ast.Call) and isinstance(e.func, ast.Name) and e.func.id == "len" and len(e.args) == 1:
        a = e.args[0]
        if isinstance(a, ast.Call) and isinstance(a.func, ast.Name) and a.func.id == "str":
            return Lin({_atom_len_of(a.args[0]) if not (isinstance(a.args[0], ast.Name) and a.args[0].id in STR_TYPED) else f"|{a.args[0].id}|": 1})
        if isinstance(a, ast.Name) and a.id in _STR_LOCALS:
            return lin_of_fstring(_STR_LOCALS[a.id])  # a piece of the template held in a local: its length is the pieces' lengths
        if isinstance(a, ast.Name):
            return Lin({f"|{a.id}|": 1})
    raise Undecided(f"R2.1: length expression outside the linear fragment: {ast.unparse(e)}")


class MultiByteCodec(Exception):
    def __init__(self, node: ast.AST, codec: str) -> None:
        super().__init__(codec)
        self.node, self.codec = node, codec


def lin_of_fstring(e: ast.expr) -> Lin:
    """Byte length of an f-string / constant encoded in a one-byte-per-character charset."""
    if isinstance(e, ast.Call) and isinstance(e.func, ast.Attribute) and e.func.attr == "encode":
        codec = e.args[0] if e.args else next((k.value for k in e.keywords if k.arg == "encoding"), None)
        cname = codec.value.lower().replace("_", "-") if isinstance(codec, ast.Constant) and isinstance(codec.value, str) else ("utf-8" if codec is None else None)
        if cname not in ("latin-1", "latin1", "iso-8859-1", "iso8859-1", "l1", "ascii", "us-ascii"):
            # the closed-form Content-Length counts CHARACTERS of the template (len(content_type) ...): only a one-byte-per-character
            # codec makes that the number of bytes written
            raise MultiByteCodec(e, cname or ast.unparse(codec))
        return lin_of_fstring(e.func.value)
    if isinstance(e, ast.Constant) and isinstance(e.value, (str, bytes)):
        return Lin({"1": len(e.value)})
    if isinstance(e, ast.JoinedStr):
        r = Lin()
        for v in e.values:
            if isinstance(v, ast.Constant):
                r = r + Lin({"1": len(v.value)})
            elif isinstance(v, ast.FormattedValue) and v.conversion == -1 and v.format_spec is None and isinstance(v.value, ast.Name) and v.value.id in _STR_LOCALS:
                r = r + lin_of_fstring(_STR_LOCALS[v.value.id])
            elif isinstance(v, ast.FormattedValue) and v.conversion == -1 and v.format_spec is None:
                r = r + Lin({_atom_len_of(v.value): 1})
            else:
                raise Undecided("R2.1: format spec in the multipart header template")
        return r
    raise Undecided(f"R2.1: emitted piece outside the template fragment: {ast.unparse(e)[:60]}")


_ROLE_NAMES = {"sendfile", "file_descriptor", "file", "send", "scope", "receive"}  # a two-parameter callable over these is not a (start, end) function


def canon(fn_node: ast.AST) -> ast.AST:
    """Copy of a function with its locals renamed to canonical ROLE names found by structural matching, so that the
    shape checks below do not depend on what the locals are called."""
    import copy

    t = copy.deepcopy(fn_node)
    for n in ast.walk(t):
        if hasattr(n, "_parent"):
            try:
                delattr(n, "_parent")
            except Exception:
                pass
    ren: Dict[str, str] = {}

    def callee(c: ast.AST) -> str:
        if isinstance(c, ast.Await):
            c = c.value
        return ast.unparse(c.func) if isinstance(c, ast.Call) else ""

    def names(tg) -> List[str]:
        return [e.id for e in tg.elts if isinstance(e, ast.Name)] if isinstance(tg, ast.Tuple) else ([tg.id] if isinstance(tg, ast.Name) else [])

    for n in ast.walk(t):
        if isinstance(n, (ast.For, ast.AsyncFor, ast.comprehension)):
            it = n.iter
            tg = names(n.target)
            if isinstance(it, ast.Name) and it.id in ("ranges",) and len(tg) == 2:
                ren.update({tg[0]: "start", tg[1]: "end"})
            elif callee(it) == "range" and len(tg) == 1:
                ren[tg[0]] = "here" if len(it.args) == 3 and ast.unparse(it.args[0]) != "0" else "_"
        elif isinstance(n, (ast.With, ast.AsyncWith)):
            for item in n.items:
                if callee(item.context_expr) == "open" and isinstance(item.optional_vars, ast.Name):
                    ren[item.optional_vars.id] = "file"
        elif isinstance(n, ast.Assign) and len(n.targets) == 1:
            tg = names(n.targets[0])
            c = callee(n.value)
            v = ast.unparse(n.value)
            if c == "open_for_sendfile" and len(tg) == 1:
                ren[tg[0]] = "file_descriptor"
            elif c == "self.create_send_or_zerocopy" and len(tg) == 1:
                ren[tg[0]] = "sendfile"
            elif c == "self.generate_multipart" and len(tg) == 2:
                ren.update({tg[0]: "content_length", tg[1]: "generate_headers"})
            elif "random_choices(" in v and len(tg) == 1:
                ren[tg[0]] = "boundary"
            elif v == "self.stat_result" and len(tg) == 1:
                ren[tg[0]] = "stat_result"
            elif v.endswith(".st_size") and len(tg) == 1:
                ren[tg[0]] = "file_size"
            elif v.endswith("== 'HEAD'") and len(tg) == 1:
                ren[tg[0]] = "send_header_only"
            elif c == "self.parse_range" and len(tg) == 1:
                ren[tg[0]] = "ranges"
            elif v == "len(boundary)" and len(tg) == 1:
                ren[tg[0]] = "boundary_len"
        elif isinstance(n, ast.Lambda) and len(n.args.args) == 2 and not ({a_.arg for a_ in n.args.args} & _ROLE_NAMES):
            ren.update({n.args.args[0].arg: "start", n.args.args[1].arg: "end"})
        elif isinstance(n, ast.FunctionDef) and n is not t and len(n.args.args) == 2 and not n.args.kwonlyargs and not n.args.vararg and not ({a_.arg for a_ in n.args.args} & _ROLE_NAMES):
            ren.update({n.args.args[0].arg: "start", n.args.args[1].arg: "end"})
    # second pass for names that depend on the first (ranges -> start, end ; ranges[0])
    for n in ast.walk(t):
        if isinstance(n, (ast.For, ast.AsyncFor, ast.comprehension)) and isinstance(n.iter, ast.Name) and ren.get(n.iter.id) == "ranges":
            tg = names(n.target)
            if len(tg) == 2:
                ren.update({tg[0]: "start", tg[1]: "end"})
        if isinstance(n, ast.Assign) and isinstance(n.value, ast.Subscript) and isinstance(n.value.value, ast.Name) and ren.get(n.value.value.id, n.value.value.id) == "ranges":
            tg = names(n.targets[0])
            if len(tg) == 2:
                ren.update({tg[0]: "start", tg[1]: "end"})
    params = {a.arg for a in t.args.posonlyargs + t.args.args + t.args.kwonlyargs}
    ren = {k: v for k, v in ren.items() if k not in params and k != v}
    for n in ast.walk(t):
        if isinstance(n, ast.Name) and n.id in ren:
            n.id = ren[n.id]
        elif isinstance(n, ast.arg) and n.arg in ren and any(n in l.args.args for l in ast.walk(t) if isinstance(l, ast.Lambda) or (isinstance(l, ast.FunctionDef) and l is not t)):
            n.arg = ren[n.arg]
    for n in ast.walk(t):
        for c in ast.iter_child_nodes(n):
            c._parent = n  # type: ignore[attr-defined]
    return t


def _stop_flag_linear(loop: ast.While, flag_assign: ast.Assign, cnt: str) -> Optional[bool]:
    """True / False: the flag assigned by `flag_assign` (a top-level statement of the loop body) is / is not equivalent to
    'position at the start of the iteration + length asked for == count'; None when the body is outside the linear fragment."""
    env: Dict[str, Dict[str, int]] = {}
    req: Dict[str, bool] = {}

    class _NL(Exception):
        pass

    def add(a, b, k=1):
        r = dict(a)
        for x, v in b.items():
            r[x] = r.get(x, 0) + k * v
        return {x: v for x, v in r.items() if v}

    def lin(e: ast.expr) -> Dict[str, int]:
        if isinstance(e, ast.Await):
            return lin(e.value)
        if isinstance(e, ast.Constant) and isinstance(e.value, int) and not isinstance(e.value, bool):
            return {"1": e.value} if e.value else {}
        if isinstance(e, ast.Name):
            return dict(env.get(e.id, {e.id: 1}))
        if isinstance(e, ast.BinOp) and isinstance(e.op, (ast.Add, ast.Sub)):
            return add(lin(e.left), lin(e.right), 1 if isinstance(e.op, ast.Add) else -1)
        if isinstance(e, ast.Call) and isinstance(e.func, ast.Name) and e.func.id == "min" and len(e.args) == 2:
            return {"L": 1}
        if isinstance(e, ast.Call) and isinstance(e.func, ast.Name) and e.func.id == "len" and len(e.args) == 1 and isinstance(e.args[0], ast.Name) and req.get(e.args[0].id):
            return {"L": 1}
        raise _NL()
    try:
        for st in loop.body:
            if st is flag_assign:
                cmp_ = st.value
                d = add(lin(cmp_.left), lin(cmp_.comparators[0]), -1)
                pos = [k for k in d if k not in ("L", cnt, "1")]
                if len(pos) != 1 or "1" in d:
                    return None
                want = {pos[0]: 1, "L": 1, cnt: -1}
                neg = {k: -v for k, v in want.items()}
                return d == want or d == neg
            if isinstance(st, ast.Assign) and len(st.targets) == 1 and isinstance(st.targets[0], ast.Name):
                nm = st.targets[0].id
                if any(isinstance(x, ast.Attribute) and ast.unparse(x) == "os.read" for x in ast.walk(st.value)):
                    req[nm] = True  # the bytes read: as many as were asked for (full read)
                    continue
                try:
                    env[nm] = lin(st.value)
                except _NL:
                    env[nm] = {f"?{nm}": 1}
            elif isinstance(st, ast.AugAssign) and isinstance(st.target, ast.Name) and isinstance(st.op, (ast.Add, ast.Sub)):
                env[st.target.id] = add(lin(st.target), lin(st.value), 1 if isinstance(st.op, ast.Add) else -1)
            elif isinstance(st, (ast.If, ast.While, ast.For, ast.Try, ast.With, ast.AsyncWith, ast.AsyncFor)):
                if any(isinstance(x, (ast.Assign, ast.AugAssign)) for x in ast.walk(st)):
                    return None
    except _NL:
        return None
    return None


def wsgi_range_reader(hn: ast.AST, scope: Optional[ast.AST] = None) -> Optional[str]:
    """The WSGI way of sending the bytes [start, end) of the open file: seek(start), then a loop that reads
    min(chunk, <what is left>) per step over exactly end - start bytes. Decided structurally on the role-named copy of the
    handler (locals that are assigned once are read through): the loop is `for v in range(A, B, C)` yielding
    `read(min(C, B - v))` with (A, B) = (start, end) or (0, end - start). None = recognised; otherwise what is wrong."""
    root = scope if scope is not None else hn
    shim = _FnShim(hn)

    def res(e: ast.expr) -> str:
        ds = defs_of(shim, e) if isinstance(e, ast.Name) else [e]
        return ast.unparse(ds[0] if len(ds) == 1 else e)

    seeks = [c for c in ast.walk(root) if isinstance(c, ast.Call) and isinstance(c.func, ast.Attribute) and c.func.attr == "seek" and len(c.args) == 1]
    if not any(res(c.args[0]) == "start" for c in seeks):
        return "no seek(start) before the range is read"
    loops = [n for n in ast.walk(root) if isinstance(n, ast.For) and isinstance(n.iter, ast.Call) and isinstance(n.iter.func, ast.Name) and n.iter.func.id == "range" and len(n.iter.args) == 3
             and any(isinstance(c, ast.Call) and isinstance(c.func, ast.Attribute) and c.func.attr == "read" for c in ast.walk(n))]
    if len(loops) != 1 or not isinstance(loops[0].target, ast.Name):
        return f"{len(loops)} chunk loops of the form `for v in range(a, b, step)` around read()"
    lp = loops[0]
    a, b, c = (res(x) for x in lp.iter.args)
    v = lp.target.id
    if (a, b) not in (("start", "end"), ("0", "end - start")):
        return f"the chunk loop runs over range({a}, {b}, ...), not over the end - start bytes of the range"
    reads = [x for x in ast.walk(lp) if isinstance(x, ast.Call) and isinstance(x.func, ast.Attribute) and x.func.attr == "read"]
    ys = [x for x in ast.walk(lp) if isinstance(x, ast.Yield) and x.value is not None and any(r is y for r in reads for y in ast.walk(x.value))]
    if len(reads) != 1 or len(ys) != 1 or len(reads[0].args) != 1:
        return "the chunk loop does not yield exactly one read() per step"
    ra = reads[0].args[0]
    if not (isinstance(ra, ast.Call) and isinstance(ra.func, ast.Name) and ra.func.id == "min" and len(ra.args) == 2):
        return f"read({ast.unparse(ra)[:40]}) is not clamped with min(chunk, what is left)"
    m1, m2 = res(ra.args[0]), res(ra.args[1])
    left = f"{b} - {v}" if " " not in b else f"({b}) - {v}"
    ok_left = {f"{b} - {v}", left, f"{ast.unparse(lp.iter.args[1])} - {v}"}
    if not ((m1 == c and m2 in ok_left) or (m2 == c and m1 in ok_left)):
        return f"read(min({m1}, {m2})) does not read min(step, bytes left of the range)"
    return None


class _FnShim:
    """what common.defs_of needs of a function, for a canon()-ised copy of its tree"""

    def __init__(self, node: ast.AST) -> None:
        self.node = node
        a = node.args  # type: ignore[attr-defined]
        self.params = [x.arg for x in a.posonlyargs + a.args + a.kwonlyargs] + ([a.vararg.arg] if a.vararg else []) + ([a.kwarg.arg] if a.kwarg else [])


def _length_formula(fn_node: ast.AST, result: ast.expr) -> Tuple[Lin, Lin]:
    """(constant part, per-range part) of the integer `result` computed by the straight-line body of generate_multipart:
    value = constant + SUM over (start, end) in ranges of per-range. Understands `sum(<e> for start, end in ranges)`, and the
    accumulation `acc = <c>; for start, end in ranges: acc += <e>` (with locals assigned inside the loop)."""
    env: Dict[str, Tuple[Lin, Lin]] = {}

    def plain_env(loop_env: Dict[str, ast.expr]):
        return loop_env

    def pair(e: ast.expr, loc: Dict[str, ast.expr]) -> Tuple[Lin, Lin]:
        if isinstance(e, ast.Name) and e.id in env and e.id not in loc:
            return env[e.id]
        if isinstance(e, ast.BinOp) and isinstance(e.op, ast.Add):
            a, b = pair(e.left, loc), pair(e.right, loc)
            return a[0] + b[0], a[1] + b[1]
        if isinstance(e, ast.Call) and isinstance(e.func, ast.Name) and e.func.id == "sum" and len(e.args) == 1 and isinstance(e.args[0], (ast.GeneratorExp, ast.ListComp)):
            g = e.args[0]
            if len(g.generators) == 1 and ast.unparse(g.generators[0].target) == "(start, end)" and ast.unparse(g.generators[0].iter) == "ranges" and not g.generators[0].ifs:
                return Lin(), _lin_env(g.elt, loc, env)
            raise Undecided(f"R2.1: sum over something other than `start, end in ranges`: {ast.unparse(e)[:60]}")
        return _lin_env(e, loc, env), Lin()

    def block(body: List[ast.stmt], in_loop: bool, loc: Dict[str, ast.expr]) -> None:
        for st in body:
            if isinstance(st, ast.Expr) and isinstance(st.value, ast.Constant):
                continue
            if isinstance(st, (ast.Return, ast.FunctionDef, ast.Pass)):
                continue
            if isinstance(st, (ast.Assign, ast.AnnAssign)) and (isinstance(st, ast.AnnAssign) or len(st.targets) == 1):
                tgt = st.target if isinstance(st, ast.AnnAssign) else st.targets[0]
                if st.value is None:
                    continue
                if isinstance(tgt, ast.Name):
                    if in_loop:
                        loc[tgt.id] = st.value
                    else:
                        try:
                            env[tgt.id] = pair(st.value, loc)
                        except Undecided:
                            env.pop(tgt.id, None)  # not a length (boundary text, ...): only matters if the result uses it
                    continue
            if isinstance(st, ast.AugAssign) and isinstance(st.op, ast.Add) and isinstance(st.target, ast.Name):
                cur = env.get(st.target.id)
                if cur is None:
                    raise Undecided(f"R2.1: accumulation into an unknown quantity: {ast.unparse(st)[:60]}")
                if in_loop:
                    env[st.target.id] = (cur[0], cur[1] + _lin_env(st.value, loc, env))
                else:
                    add = pair(st.value, loc)
                    env[st.target.id] = (cur[0] + add[0], cur[1] + add[1])
                continue
            if isinstance(st, ast.For) and not in_loop and ast.unparse(st.target) == "(start, end)" and ast.unparse(st.iter) == "ranges" and not st.orelse:
                block(st.body, True, {})
                continue
            if any(isinstance(n, ast.Name) and isinstance(n.ctx, ast.Store) and n.id in env for n in ast.walk(st)):
                raise Undecided(f"R2.1: a length quantity is changed by a statement outside the accumulation fragment: {' '.join(ast.unparse(st).split())[:60]}")

    block(fn_node.body, False, {})
    c, r = pair(result, {})
    if not r:
        raise Undecided(f"R2.1: content_length has no per-range part: {ast.unparse(result)[:80]}")
    return c, r


def _lin_env(e: ast.expr, loc: Dict[str, ast.expr], env: Dict[str, Tuple[Lin, Lin]]) -> Lin:
    """lin_of with loop-local expressions substituted and function-level quantities (which must be range-independent) looked up"""
    if isinstance(e, ast.Name) and e.id in loc:
        return _lin_env(loc[e.id], loc, env)
    if isinstance(e, ast.Name) and e.id in env:
        c, r = env[e.id]
        if r:
            raise Undecided(f"R2.1: {e.id} already contains a sum over the ranges")
        return c
    if isinstance(e, ast.BinOp) and isinstance(e.op, ast.Add):
        return _lin_env(e.left, loc, env) + _lin_env(e.right, loc, env)
    return lin_of(e, {})


def _subst_names(e: ast.expr, env_: Dict[str, ast.expr]) -> ast.expr:
    import copy as _copy

    class S(ast.NodeTransformer):
        def visit_Name(self, n):
            if isinstance(n.ctx, ast.Load) and n.id in env_:
                return _copy.deepcopy(env_[n.id])
            return n
    return S().visit(e)


def _generator_lambda(p: Program, gm: FuncInfo, gmn: ast.AST, g: ast.expr) -> ast.Lambda:
    """The part-header generator as `lambda start, end: <expression>`: a lambda, or a nested function with a single return,
    whose body may delegate to a module-level helper with a single return (its parameters substituted by the arguments)."""
    import copy

    if isinstance(g, ast.Lambda):
        return g
    if isinstance(g, ast.Name):
        defs = [n for n in ast.walk(gmn) if isinstance(n, ast.FunctionDef) and n is not gmn and n.name == g.id]
        lams = [n.value for n in ast.walk(gmn) if isinstance(n, ast.Assign) and len(n.targets) == 1 and isinstance(n.targets[0], ast.Name) and n.targets[0].id == g.id and isinstance(n.value, ast.Lambda)]
        if len(lams) == 1 and not defs:
            return lams[0]
        if len(defs) == 1:
            d = defs[0]
            body = [st for st in d.body if not (isinstance(st, ast.Expr) and isinstance(st.value, ast.Constant))]
            if len(body) > 1 and isinstance(body[-1], ast.Return) and body[-1].value is not None and all(isinstance(st, ast.Assign) and len(st.targets) == 1 and isinstance(st.targets[0], ast.Name) for st in body[:-1]):
                # straight-line locals before the return (a helper spliced in): substitute them
                env_: Dict[str, ast.expr] = {}
                okl = True
                for st in body[:-1]:
                    if st.targets[0].id in env_:
                        okl = False
                    v_ = copy.deepcopy(st.value)
                    for n_ in ast.walk(v_):
                        pass
                    env_[st.targets[0].id] = _subst_names(v_, env_)
                if okl:
                    body = [ast.Return(value=_subst_names(copy.deepcopy(body[-1].value), env_))]
            if len(body) == 1 and isinstance(body[0], ast.Return) and body[0].value is not None and len(d.args.args) == 2:
                expr = body[0].value
                if isinstance(expr, ast.Call) and isinstance(expr.func, ast.Name) and not expr.keywords:
                    h = gm.module.functions.get(expr.func.id)
                    if h is not None and not h.decorators:
                        hb = [st for st in h.node.body if not (isinstance(st, ast.Expr) and isinstance(st.value, ast.Constant))]
                        hp = [a.arg for a in h.node.args.args]
                        if len(hb) == 1 and isinstance(hb[0], ast.Return) and hb[0].value is not None and len(hp) == len(expr.args) and all(isinstance(a, ast.Name) for a in expr.args):
                            sub = {pn: a.id for pn, a in zip(hp, expr.args)}
                            ex2 = copy.deepcopy(hb[0].value)
                            for n in ast.walk(ex2):
                                if isinstance(n, ast.Name) and n.id in sub:
                                    n.id = sub[n.id]
                            expr = ex2
                return ast.Lambda(args=d.args, body=expr)
    raise Undecided("R2.1: the header generator is not a lambda / single-return function")


def run(p: Program, rep: Report, tier: str) -> None:
    rep.explanation = (
        "R2.1 symbolic length algebra: the multipart/byteranges Content-Length formula and the bytes actually emitted are both "
        "turned into linear forms over the atoms |boundary|, |content_type|, |str(max_size)|, |str(start)|, |str(end-1)|, "
        "(end-start) - the template's constant characters are counted from the f-string of the header generator and from the "
        "per-range and closing emissions of BOTH emitters - and compared coefficient by coefficient. R2.2 the framing headers "
        "are written before the start event and independently of HEAD, the HEAD path opens no file and sends one empty body, "
        "the single-range headers and the reader arguments use the same (start, end). R2.3 Range is honoured only when "
        "If-Range is absent or judge_if_range is true, and judge_if_range compares against the expressions the response "
        "emits as ETag / Last-Modified. R2.4 the 400/416 path forwards the exception's status/headers, opens nothing, and 416 "
        "carries '*/size'. R2.5 (ASGI) every descriptor opened is closed on every exit. R2.6 (ASGI fallback sender) with a byte count every "
        "read is clamped by the remaining count (no fall-back operand) and the loop's stop condition is computed from the count "
        "bookkeeping. R2.7 merged ranges are the hull. R2.8 every response owns its header store (Headers.__init__ builds a fresh dict, never "
        "aliases its argument): the framing headers written for one request cannot appear on another response. NOT decided: that the chunk loops read exactly end-start bytes for every chunk_size alignment (integer "
        "run-time arithmetic)."
    )
    rep.assume("header text of the multipart parts is Latin-1/ASCII: one byte per character (boundary is [a-z0-9]{13}, numbers, content type)")
    mixin = p.cls("baize.responses:FileResponseMixin")
    gm = mixin.methods.get("generate_multipart")
    if gm is None:
        raise AnalysisError("generate_multipart vanished")
    rep.analysed(gm.fq)

    # ---------------------------------------------------------------- R2.1
    gmn = canon(gm.node)
    ret = [n for n in walk_shallow(gmn) if isinstance(n, ast.Return)]
    if len(ret) != 1 or not isinstance(ret[0].value, ast.Tuple) or len(ret[0].value.elts) != 2:
        raise Undecided("R2.1: generate_multipart no longer returns (content_length, header generator)")
    cl_expr, lam = ret[0].value.elts
    _STR_LOCALS.clear()
    _stores: Dict[str, int] = {}
    for n_ in ast.walk(gmn):
        if isinstance(n_, ast.Name) and isinstance(n_.ctx, ast.Store):
            _stores[n_.id] = _stores.get(n_.id, 0) + 1
    for st_ in walk_shallow(gmn):
        if isinstance(st_, ast.Assign) and len(st_.targets) == 1 and isinstance(st_.targets[0], ast.Name) and _stores.get(st_.targets[0].id) == 1 \
                and (isinstance(st_.value, ast.JoinedStr) or (isinstance(st_.value, ast.Constant) and isinstance(st_.value.value, str))):
            _STR_LOCALS[st_.targets[0].id] = st_.value
    # content_length = <closing> + sum over the ranges of <per range>, however it is accumulated
    closing_formula, per_range_formula = _length_formula(gmn, cl_expr)
    lam = _generator_lambda(p, gm, gmn, lam)
    try:
        header_emitted = lin_of_fstring(lam.body)
    except MultiByteCodec as mb:
        rep.violation("R2.1", construct(gm, text=f"part header encoded as {mb.codec}"), where(gm),
                      f"the multipart part header is encoded with {mb.codec}, while the declared Content-Length counts its characters (len(content_type), digit counts): for a content type "
                      "with a non-ASCII character every part is longer than declared (Content-Length too small by one byte per such character and part)")
        raise Undecided("R2.1: length comparison not continued with a multi-byte part-header codec")
    lam_params = [a.arg for a in lam.args.args]
    for side in ("wsgi", "asgi"):
        cls = p.cls(f"baize.{side}.responses:FileResponse")
        h = cls.methods.get("handle_several_ranges")
        if h is None:
            raise AnalysisError(f"{side} handle_several_ranges vanished")
        rep.analysed(h.fq)
        hn = canon(h.node)
        loops = [n for n in ast.walk(hn) if isinstance(n, (ast.For, ast.AsyncFor)) and ast.unparse(n.iter) == "ranges"]
        if not loops:
            # the handler's own statements may live in a private helper it calls (the body of a decorated handler is one)
            for f_ in with_helpers_(p, h)[1:]:
                hn_ = canon(f_.node)
                loops_ = [n for n in ast.walk(hn_) if isinstance(n, (ast.For, ast.AsyncFor)) and ast.unparse(n.iter) == "ranges"]
                if loops_:
                    hn, loops = hn_, loops_
                    break
        if len(loops) != 1 or ast.unparse(loops[0].target) != "(start, end)":
            rep.undecide("R2.1", f"{side}: no `for start, end in ranges` loop")
            continue
        loop = loops[0]

        def emitted_pieces(body: List[ast.stmt]) -> List[ast.expr]:
            out = []
            for st in body:
                for n in ast.walk(st):
                    if side == "wsgi" and isinstance(n, ast.Yield) and n.value is not None:
                        out.append(n.value)
                    if side == "asgi" and isinstance(n, ast.Call) and isinstance(n.func, ast.Name) and n.func.id == "send_http_body" and len(n.args) >= 2:
                        out.append(n.args[1])
                    if side == "asgi" and isinstance(n, ast.Call) and isinstance(n.func, ast.Name) and n.func.id == "sendfile":
                        out.append(n)
            return out

        per = Lin()
        hdr_calls = data_parts = 0
        shim = _FnShim(hn)

        def resolved(es: List[ast.expr]) -> List[ast.expr]:
            # a piece held in a local that is assigned once (`closing = f"--{boundary}--\n".encode(...)`) is that expression
            out_: List[ast.expr] = []
            for e_ in es:
                ds = defs_of(shim, e_) if isinstance(e_, ast.Name) else [e_]
                out_.append(ds[0] if len(ds) == 1 else e_)
            return out_

        for e in resolved(emitted_pieces(loop.body)):
            if isinstance(e, ast.Call) and isinstance(e.func, ast.Name) and e.func.id == "generate_headers":
                if [ast.unparse(a) for a in e.args] != lam_params:
                    rep.violation("R2.1", construct(h, e), where(h, e), f"{side}: the part header is generated for {[ast.unparse(a) for a in e.args]}, not for (start, end) of the range being sent")
                per = per + header_emitted
                hdr_calls += 1
            elif isinstance(e, ast.Call) and isinstance(e.func, ast.Name) and e.func.id == "sendfile":
                args = [ast.unparse(a) for a in e.args]
                if args[1:3] == ["start", "end - start"]:
                    per = per + Lin({"(end - start)": 1})
                    data_parts += 1
                else:
                    rep.violation("R2.1", construct(h, e), where(h, e), f"{side}: the range data sent is sendfile({', '.join(args[1:3])}), not (start, end - start)")
            elif isinstance(e, ast.Call) and isinstance(e.func, ast.Attribute) and e.func.attr == "read":
                # WSGI chunk loop: for here in range(start, end, chunk): read(min(chunk, end - here))
                per = per + Lin({"(end - start)": 1})
                data_parts += 1
            else:
                per = per + lin_of_fstring(e)
        if side == "wsgi":
            why_ = wsgi_range_reader(hn, loop)
            if why_ is None:
                rep.ok("R2.1", "wsgi: range data = seek(start) then read(min(chunk, bytes left)) over exactly end - start bytes")
            else:
                rep.violation("R2.1", construct(h, text="range reader"), where(h, loop), f"wsgi: the multi-range reader does not seek to start and read up to end ({why_})")
        if hdr_calls != 1 or data_parts != 1:
            rep.violation("R2.1", construct(h, text=f"{hdr_calls} headers / {data_parts} data parts per range"), where(h, loop), f"{side}: a range is not sent as exactly one part header and one data block")
        if per == per_range_formula:
            rep.ok("R2.1", f"{side}: bytes emitted per range == formula per range == {per.show()}")
        else:
            rep.violation("R2.1", construct("baize.responses:FileResponseMixin.generate_multipart", text=f"per-range length: formula {per_range_formula.show()} | {side} emits {per.show()}"), where(gm),
                          f"the Content-Length formula of the multipart/byteranges body disagrees with what {side} handle_several_ranges emits per range "
                          f"(formula {per_range_formula.show()}; emitted {per.show()})")
        # closing
        after: List[ast.stmt] = []
        parent_body = loop._parent.body if hasattr(loop._parent, "body") else []  # type: ignore[attr-defined]
        if loop in parent_body:
            after = parent_body[parent_body.index(loop) + 1:]
        closing = Lin()
        for e in resolved(emitted_pieces(after)):
            closing = closing + lin_of_fstring(e)
        if closing == closing_formula:
            rep.ok("R2.1", f"{side}: closing delimiter bytes == formula == {closing.show()}")
        else:
            rep.violation("R2.1", construct("baize.responses:FileResponseMixin.generate_multipart", text=f"closing length: formula {closing_formula.show()} | {side} emits {closing.show()}"), where(gm),
                          f"the closing-delimiter term of the Content-Length formula disagrees with what {side} emits after the last range")
        # content-length header is the formula's value; content-type announces the boundary (decided on the paths: aliases of
        # self.headers and locals do not matter)
        hpaths, hcol, _hit = run_paths(p, h, cls, inline=lambda fi: fi.name == "create_send_or_zerocopy" or default_inline(fi), depth=3)
        rep.cfg_paths += len(hpaths)
        cl_ok = ct_ok = 0
        cl_bad = ct_bad = None
        for pa in hpaths:
            if pa.exit != "return":
                continue
            st_ = {}
            for e in pa.events:
                if e.kind == "store" and e.a[0] == "sub" and e.a[1] == ("attr", ("param", "self"), "headers") and e.a[2][0] == "const":
                    st_[str(e.a[2][1]).lower()] = e.b
            gmc = [e for e in pa.events if e.kind == "call" and callee_is(e.a, "generate_multipart")]
            bnd = gmc[0].b[1] if gmc and len(gmc[0].b) == 4 else None
            okargs = bool(gmc) and len(gmc[0].b) == 4 and gmc[0].b[0] == ("param", "ranges") and gmc[0].b[2] == ("param", "file_size") and gmc[0].b[3] == ("attr", ("param", "self"), "content_type")
            v = st_.get("content-length")
            if okargs and v is not None and v[0] == "call" and v[1] == ("builtin", "str") and len(v[2]) == 1 and v[2][0][0] == "unpack" and v[2][0][2] == 0 \
                    and v[2][0][1][0] == "call" and callee_is(v[2][0][1][1], "generate_multipart"):
                cl_ok += 1
            else:
                cl_bad = show(v)[:60] if v is not None else "missing"
            v = st_.get("content-type")
            parts = strparts(v) if v is not None else None
            if parts is not None and len(parts) == 2 and parts[0] == ("const", "multipart/byteranges; boundary=") and bnd is not None and parts[1] == bnd:
                ct_ok += 1
            else:
                ct_bad = show(v)[:60] if v is not None else "missing"
        if cl_ok and cl_bad is None:
            rep.ok("R2.1", f"{side}: content-length header = str(content_length) of generate_multipart(ranges, boundary, file_size, self.content_type)")
        else:
            rep.violation("R2.1", construct(h, text="content-length of the multipart body"), where(h), f"{side}: the multipart Content-Length header is not the value computed by generate_multipart for these ranges (got {cl_bad})")
        if ct_ok and ct_bad is None:
            rep.ok("R2.1", f"{side}: content-type announces the boundary that is used")
        else:
            rep.violation("R2.1", construct(h, text="multipart content-type"), where(h), f"{side}: Content-Type does not announce multipart/byteranges with the boundary that delimits the parts (got {ct_bad})")
    rep.require_instances("R2.1", 9)

    # ---------------------------------------------------------------- R2.2 handlers
    def raises(c, i, callee, node):
        return [ANY_EXC]

    for side in ("wsgi", "asgi"):
        cls = p.cls(f"baize.{side}.responses:FileResponse")
        for hname, want in (("handle_all", {"content-type": "str(self.content_type)", "content-length": "str(file_size)"}),
                            ("handle_single_range", {"content-range": "f'bytes {start}-{(end - 1)}/{file_size}'", "content-type": "str(self.content_type)", "content-length": "str((end - start))"}),
                            ("handle_several_ranges", {"content-type": None, "content-length": None})):
            h = cls.methods.get(hname)
            if h is None:
                raise AnalysisError(f"{side} {hname} vanished")
            rep.analysed(h.fq)
            paths, col, it = run_paths(p, h, cls, inline=lambda fi: fi.name == "create_send_or_zerocopy" or default_inline(fi), depth=3)
            rep.cfg_paths += len(paths)
            for pa in paths:
                if pa.exit != "return":
                    continue
                starts = [i for i, e in enumerate(pa.events) if e.kind == "call" and (callee_is(e.a, "send_http_start") or e.a == ("param", "start_response"))]
                if len(starts) != 1:
                    continue  # C05 reports protocol problems
                si = starts[0]
                stores = {}
                for i, e in enumerate(pa.events):
                    if e.kind == "store" and e.a[0] == "sub" and e.a[1] == ("attr", ("param", "self"), "headers") and e.a[2][0] == "const":
                        k = str(e.a[2][1]).lower()
                        stores[k] = (i, show(e.b))
                for k, val in want.items():
                    if k not in stores:
                        rep.violation("R2.2", construct(h, text=f"missing {k}"), where(h), f"{side} {hname}: the {k} header is not written on a path")
                    elif stores[k][0] > si:
                        rep.violation("R2.2", construct(h, text=f"{k} after start"), where(h), f"{side} {hname}: {k} is written after the response start was sent")
                    elif val is not None and stores[k][1].replace('"', "'") != val:
                        rep.violation("R2.2", construct(h, text=f"{k} = {stores[k][1][:60]}"), where(h), f"{side} {hname}: {k} is {stores[k][1][:60]}, expected {val}")
                head = (("param", "send_header_only"), True) in pa.facts
                opens = [e for e in pa.events if e.kind == "call" and (callee_is(e.a, "open_for_sendfile") or e.a == ("builtin", "open") or (e.a[0] == "ext" and e.a[1] in ("os.open",)))]
                if head:
                    bodies = [e for e in pa.events if (e.kind == "yield") or (e.kind == "call" and callee_is(e.a, "send_http_body"))]
                    empties = [e for e in bodies if (e.kind == "yield" and e.a == ("const", b"")) or (e.kind == "call" and (len(e.b) < 2 or e.b[1] == ("const", b"")))]
                    if opens:
                        rep.violation("R2.2", construct(h, text="HEAD opens the file"), where(h), f"{side} {hname}: the HEAD path opens the file")
                    elif len(bodies) == 1 and len(empties) == 1:
                        rep.ok("R2.2", f"{side} {hname}: HEAD writes the same headers, opens nothing, sends one empty body")
                    else:
                        rep.violation("R2.2", construct(h, text=f"HEAD body events {len(bodies)}"), where(h), f"{side} {hname}: the HEAD path does not send exactly one empty body")
                else:
                    if not opens:
                        rep.violation("R2.2", construct(h, text="GET path without file"), where(h), f"{side} {hname}: a GET path does not open the file")
            # header stores must not depend on send_header_only
            for n in ast.walk(h.node):
                if isinstance(n, ast.If) and "send_header_only" in ast.unparse(n.test):
                    for m in ast.walk(n):
                        if isinstance(m, ast.Assign) and "self.headers" in ast.unparse(m.targets[0]):
                            rep.violation("R2.2", construct(h, m), where(h, m), f"{side} {hname}: a header is written under the HEAD/GET branch (HEAD and GET headers differ)")
        # single range reader args
        h = cls.methods["handle_single_range"]
        unit_h = with_helpers_(p, h)  # the handler with the private helpers it reaches (a decorated handler's own body is one)
        src = "\n".join(ast.unparse(canon(f_.node)) for f_ in unit_h)
        if side == "wsgi":
            ok = any(wsgi_range_reader(canon(f_.node)) is None for f_ in unit_h)
        else:
            ok = "sendfile(file_descriptor, start, end - start)" in src
        if ok:
            rep.ok("R2.2", f"{side}: the single-range reader uses the same (start, end) as the Content-Range/Content-Length headers")
        elif len(unit_h) > 1 and side == "asgi":
            rep.undecide("R2.2", f"{side}: the single-range sender is spread over {len(unit_h)} functions and not of the form sendfile(fd, start, end - start)")
        else:
            rep.violation("R2.2", construct(h, text="single-range reader arguments"), where(h), f"{side}: the bytes read for a single range are not [start, end) of the headers")
        ha = cls.methods["handle_all"]
        src = "\n".join(ast.unparse(canon(f_.node)) for f_ in with_helpers_(p, ha))
        ok = ("range(0, file_size, self.chunk_size)" in src and "file.read(self.chunk_size)" in src) if side == "wsgi" else "sendfile(file_descriptor)" in src
        if ok:
            rep.ok("R2.2", f"{side}: the whole-file reader covers [0, file_size)")
        else:
            rep.violation("R2.2", construct(ha, text="whole-file reader"), where(ha), f"{side}: the whole-file reader does not cover the file from 0 to file_size")
    # the size/mtime that frame the response are those of the file that is opened: open() follows symbolic links, so the
    # fallback stat of the constructor must too (os.stat, not os.lstat)
    for side in ("wsgi", "asgi"):
        fr_init = p.cls(f"baize.{side}.responses:FileResponse").methods.get("__init__")
        if fr_init is None:
            raise AnalysisError(f"{side} FileResponse.__init__ vanished")
        stats = [(c, p.resolve_call(fr_init, c)) for c in calls_in(fr_init) if isinstance(p.resolve_call(fr_init, c), tuple) and p.resolve_call(fr_init, c)[0] == "ext"
                 and p.resolve_call(fr_init, c)[1] in ("os.stat", "os.lstat", "os.fstat", "os.path.getsize")]
        if not stats:
            rep.undecide("R2.2", f"{side} FileResponse.__init__: no stat call found")
        for c, r in stats:
            arg_ok = c.args and ast.unparse(c.args[0]) == fr_init.params[1]
            if r[1] == "os.stat" and arg_ok:
                rep.ok("R2.2", f"{side}: FileResponse stats the path it will open with os.stat (links followed, like open)")
            else:
                rep.violation("R2.2", construct(fr_init, text=f"{r[1]}({ast.unparse(c.args[0]) if c.args else ''})"), where(fr_init, c),
                              f"{side}: FileResponse takes size and validators from {r[1]}(...) although the body is read through open(): for a path whose last component is a symbolic link the "
                              "Content-Length / ranges / ETag describe the link, not the bytes that are sent")
    # ... and conversely every os.open() of the response modules opens what os.stat() described: read-only, links followed. A flag
    # that makes the open fail (O_NOFOLLOW on a link, O_DIRECTORY, O_EXCL ...) fails AFTER the response start announced the length.
    OPEN_OK = {"O_RDONLY", "O_CLOEXEC", "O_BINARY", "O_NOCTTY", "O_NOINHERIT", "O_SEQUENTIAL"}
    n_open = 0
    for mname in ("baize.asgi.responses", "baize.wsgi.responses"):
        for f_ in p.module(mname).all_funcs:
            for c in calls_in(f_, deep=False):
                try:
                    r_ = p.resolve_call(f_, c)
                except Exception:
                    r_ = None
                flags_e = None
                if r_ == ("ext", "os.open") and len(c.args) >= 2:
                    flags_e = c.args[1]
                elif isinstance(c.func, ast.Name) and c.func.id == "run_in_threadpool" and c.args and ast.unparse(c.args[0]) == "os.open" and len(c.args) >= 3:
                    flags_e = c.args[2]
                if flags_e is None:
                    continue
                n_open += 1
                if isinstance(flags_e, ast.Name):
                    # a module-level constant (possibly defined under `if os.name ...`) is its expression
                    defs_ = [st.value for st in ast.walk(f_.module.tree) if isinstance(st, ast.Assign) and len(st.targets) == 1 and isinstance(st.targets[0], ast.Name) and st.targets[0].id == flags_e.id]
                    if len(defs_) == 1:
                        flags_e = defs_[0]
                names = {n.attr for n in ast.walk(flags_e) if isinstance(n, ast.Attribute)} | {n.value for n in ast.walk(flags_e) if isinstance(n, ast.Constant) and isinstance(n.value, str)}
                bad = sorted(x for x in names if x.startswith("O_") and x not in OPEN_OK)
                other = [n for n in ast.walk(flags_e) if isinstance(n, (ast.Name, ast.Call)) and not (isinstance(n, ast.Name) and n.id in ("os", "getattr"))
                         and not (isinstance(n, ast.Call) and isinstance(n.func, ast.Name) and n.func.id == "getattr")]
                if bad:
                    rep.violation("R2.2", construct(f_, text=f"os.open flags {' | '.join(bad)}"), where(f_, c),
                                  f"the file is opened with {' | '.join(bad)}: the size and validators were taken with os.stat() (links followed, any file type), so for a path this flag refuses "
                                  "(a symbolic link as last component, ...) the open fails after status and Content-Length were sent - the declared bytes never follow")
                elif other or "O_RDONLY" not in names:
                    rep.undecide("R2.2", f"{f_.fq}: flags of os.open not recognised: {ast.unparse(flags_e)[:60]}")
                else:
                    rep.ok("R2.2", f"{f_.fq}: os.open(path, {ast.unparse(flags_e)[:40]}) - read-only, follows links like os.stat")
    if n_open == 0:
        rep.undecide("R2.2", "no os.open call found in the response modules (the ASGI sender's descriptor is opened in an idiom outside the table)")
    rep.require_instances("R2.2", 13)

    # ... and the ASGI __call__ reads BOTH Range and If-Range whatever their order in scope["headers"]: a scan that stops at the first of
    # them never sees the other one (Range honoured although a later If-Range does not match)
    from .hdr_common import multi_header_scan_breaks
    acall = p.cls("baize.asgi.responses:FileResponse").methods.get("__call__")
    if acall is not None:
        for f_ in with_helpers_(p, acall):
            for lp_, leave_, names_ in multi_header_scan_breaks(f_):
                rep.violation("R2.3", construct(f_, text=f"header scan for {names_} left early"), where(f_, leave_),
                              f"asgi: the scan of scope['headers'] for {names_} is left by `{ast.unparse(leave_)}` as soon as one of them was seen: a header that the client sends after it "
                              "(If-Range after Range) is never read, so a Range request is answered 206 although its If-Range validator is stale", positive=True)

    # ---------------------------------------------------------------- R2.3 / R2.4 __call__
    jr = mixin.methods.get("judge_if_range")
    gch = mixin.methods.get("generate_common_headers")
    rep.analysed(jr.fq)
    jpaths, jcol, jit = run_paths(p, jr, mixin)
    forms = set()
    for pa in jpaths:
        if pa.exit == "return":
            for t in subterms(pa.value):
                if t[0] == "cmp" and t[1] == "Eq" and ("param", "if_range_raw_line") in (t[2], t[3]):
                    other = t[3] if t[2] == ("param", "if_range_raw_line") else t[2]
                    forms.add(show(other))
            for f, t in pa.facts:
                if f[0] == "cmp" and f[1] == "Eq" and ("param", "if_range_raw_line") in (f[2], f[3]):
                    other = f[3] if f[2] == ("param", "if_range_raw_line") else f[2]
                    forms.add(show(other))
    # writer/reader agreement: the two values If-Range is compared with are the very expressions generate_common_headers emits
    # as ETag and Last-Modified (of the stat_result each of them is given)
    emitted = {}
    if gch is not None:
        rep.analysed(gch.fq)
        try:
            gpaths, _gc, _gi = run_paths(p, gch, mixin)
        except Exception:
            gpaths = []
        for pa in gpaths:
            if pa.exit != "return":
                continue
            cands_ = [t for t in subterms(pa.value) if t[0] == "dict"] + [e.b for e in pa.events if e.kind == "store" and isinstance(e.b, tuple) and e.b and e.b[0] == "dict"]
            for d_ in cands_:
                for k_, v_ in d_[1]:
                    if k_[0] == "const" and isinstance(k_[1], str) and k_[1].lower() in ("etag", "last-modified"):
                        emitted.setdefault(k_[1].lower(), set()).add(show(_rename_stat(v_, gch)))
            for e in pa.events:
                if e.kind == "store" and e.a[0] == "sub" and e.a[2][0] == "const" and isinstance(e.a[2][1], str) and e.a[2][1].lower() in ("etag", "last-modified"):
                    emitted.setdefault(e.a[2][1].lower(), set()).add(show(_rename_stat(e.b, gch)))
    jforms = set()
    for pa in jpaths:
        if pa.exit == "return":
            for t in list(subterms(pa.value)) + [f for f, _t in pa.facts]:
                if t[0] == "cmp" and t[1] == "Eq" and ("param", "if_range_raw_line") in (t[2], t[3]):
                    jforms.add(show(_rename_stat(t[3] if t[2] == ("param", "if_range_raw_line") else t[2], jr)))
    if set(emitted) != {"etag", "last-modified"} or any(len(v_) != 1 for v_ in emitted.values()):
        rep.undecide("R2.3", f"generate_common_headers: the emitted ETag / Last-Modified expressions are not recognised ({ {k_: sorted(v_) for k_, v_ in emitted.items()} })")
    else:
        want_forms = {next(iter(emitted["etag"])), next(iter(emitted["last-modified"]))}
        if jforms == want_forms:
            rep.ok("R2.3", f"judge_if_range compares If-Range with exactly the two validators the response emits: {sorted(want_forms)}")
        else:
            missing = sorted(want_forms - jforms)
            rep.violation("R2.3", construct(jr, text=f"compares with {sorted(forms)}"), where(jr),
                          f"judge_if_range does not compare If-Range against exactly the emitted ETag and Last-Modified values: it compares with {sorted(jforms)} while the response emits {sorted(want_forms)}"
                          + (f" - an If-Range repeating the emitted {missing[0][:50]} is not recognised (200 instead of 206)" if missing else ""))
    for side in ("wsgi", "asgi"):
        cls = p.cls(f"baize.{side}.responses:FileResponse")
        call = cls.methods.get("__call__")
        rep.analysed(call.fq)
        paths, col, it = run_paths(p, call, cls, raises=lambda c, i, callee, node: ["baize.exceptions:MalformedRangeHeader", "baize.exceptions:RangeNotSatisfiable"] if callee_is(callee, "parse_range") else [])
        rep.cfg_paths += len(paths)
        n_range = n_err = 0
        J = set()
        for pa in paths:
            for e in pa.events:
                if e.kind == "call" and callee_is(e.a, "judge_if_range") and e.b:
                    J.add(e.b[0])
        if not J:
            rep.violation("R2.3", construct(call, text="If-Range never judged"), where(call), f"{side}: __call__ never consults judge_if_range: Range is honoured whatever If-Range says")
        for pa in paths:
            prs = [e for e in pa.events if e.kind == "call" and callee_is(e.a, "parse_range")]
            if not prs:
                continue
            n_range += 1
            rng = prs[0].b[0]
            size = prs[0].b[1] if len(prs[0].b) > 1 else None
            pos = [f for f, t in pa.facts if t]
            neg = [f for f, t in pa.facts if not t]
            range_present = ("cmp", "Eq", rng, ("const", "")) in neg or any(f[0] == "cmp" and f[1] == "In" and f[2][0] == "const" and "RANGE" in str(f[2][1]) for f in pos)
            judged = [f for f in pos if f[0] == "call" and callee_is(f[1], "judge_if_range")]
            ifr_absent = any(f[0] == "cmp" and f[1] == "Eq" and f[3] == ("const", "") and f[2] in J for f in pos) or any(f[0] == "cmp" and f[1] == "In" and "IF_RANGE" in str(f[2]) for f in neg)
            if not ifr_absent and not judged and J and not any(v in J for v in pa.state.env.values()):
                ifr_absent = True  # the If-Range variable is the constant "" on this path (header not present)
            if range_present and (judged or ifr_absent):
                rep.ok("R2.3", f"{side}: parse_range reached only with Range present and (If-Range absent or matching)")
            else:
                node, fnn = col.nodes[prs[0].tag]
                rep.violation("R2.3", construct(call, text="range honoured without the If-Range gate"), where(call, node), f"{side}: a path reaches parse_range although If-Range is present and did not match (or Range is absent)", path_facts=pa.fact_text())
            for f in judged:
                if f[2] != (next((x for x in f[2] if x != ("attr", ("param", "self"), "stat_result")), f[2][0]), ("attr", ("param", "self"), "stat_result")):
                    rep.violation("R2.3", construct(call, text=f"judge_if_range({', '.join(show(x)[:30] for x in f[2])})"), where(call), f"{side}: If-Range is not judged against the response's own stat_result")
            if size != ("attr", ("attr", ("param", "self"), "stat_result"), "st_size"):
                rep.violation("R2.4", construct(call, text=f"parse_range(.., {show(size) if size else None})"), where(call), f"{side}: parse_range is not given the file size of the captured stat_result")
            # error path
            if any(e.kind == "call" and (callee_is(e.a, "send_http_start") or e.a == ("param", "start_response")) and any(x[0] == "exc" for a in e.b for x in subterms(a)) for e in pa.events):
                n_err += 1
                opens = [e for e in pa.events if e.kind == "call" and (callee_is(e.a, "open_for_sendfile", "handle_all", "handle_single_range", "handle_several_ranges") or e.a == ("builtin", "open"))]
                st_ev = [e for e in pa.events if e.kind == "call" and (callee_is(e.a, "send_http_start") or e.a == ("param", "start_response"))][0]
                txt = " ".join(show(a) for a in st_ev.b)
                if opens:
                    rep.violation("R2.4", construct(call, text="error path sends file data"), where(call), f"{side}: the 400/416 path reaches a file handler")
                elif ".status_code" in txt and ".headers" in txt:
                    rep.ok("R2.4", f"{side}: the 400/416 path forwards the exception's status and headers and opens nothing")
                else:
                    rep.violation("R2.4", construct(call, text=f"error start {txt[:60]}"), where(call), f"{side}: the range-error path does not forward the exception's status_code and headers")
        # the dual: the whole-file handler answers only when Range is absent or If-Range is present and did not match. A path
        # that reaches it with Range present and nothing against it (another disjunct in the test: an empty file, a method, ...)
        # answers 200 + the whole file where 206 / 416 / 400 is due
        RNG = {e.b[0] for pa in paths for e in pa.events if e.kind == "call" and callee_is(e.a, "parse_range") and e.b}
        seen_whole = set()
        for pa in paths:
            if pa.exit != "return" or any(e.kind == "call" and callee_is(e.a, "parse_range") for e in pa.events):
                continue
            has = [e for e in pa.events if e.kind == "call" and callee_is(e.a, "handle_all")]
            if not has or not RNG:
                continue
            pos = [f for f, t in pa.facts if t]
            neg = [f for f, t in pa.facts if not t]
            rpres = any(("cmp", "Eq", r_, ("const", "")) in neg for r_ in RNG)
            judged_t = [f for f in pos if f[0] == "call" and callee_is(f[1], "judge_if_range")]
            judged_f = [f for f in neg if f[0] == "call" and callee_is(f[1], "judge_if_range")]
            ifr_abs = any(f[0] == "cmp" and f[1] == "Eq" and f[3] == ("const", "") and f[2] in J for f in pos)
            if rpres and not judged_f:
                other = [t_ for t_ in pa.fact_text() if "judge_if_range" not in t_ and not any(show(r_) in t_ for r_ in RNG) and not any(show(j_) in t_ for j_ in J)]
                key_ = tuple(other)
                if key_ in seen_whole:
                    continue
                seen_whole.add(key_)
                node, fnn = col.nodes[has[0].tag]
                rep.violation("R2.3", construct(call, text="whole file sent although Range applies" + (": " + "; ".join(other)[:60] if other else "")), where(call, node),
                              f"{side}: a path reaches the whole-file handler although a Range header is present and If-Range is absent or matches"
                              + (f" (when {'; '.join(other)[:80]})" if other else "") + ": the answer is 200 with the full Content-Length where the range handling owes 206 / 416 / 400 - "
                              "and the other interface still gives that", path_facts=pa.fact_text(), positive=True)
        if n_range == 0 or n_err == 0:
            rep.undecide("R2.3", f"{side}: __call__ has {n_range} range paths / {n_err} error paths")
        # HEAD answers like GET without the body: WHICH handler answers (and with which arguments besides the header-only flag)
        # must not be decided by the request method - a HEAD fast path that skips the Range / If-Range handling answers
        # 200 + full Content-Length where the GET gets 206 / 416 / 400
        def _is_head(f):
            return f[0] == "cmp" and f[1] in ("Eq", "NotEq") and any(x == ("const", "HEAD") for x in (f[2], f[3]))
        head_branching = [pa for pa in paths if any(_is_head(f) for f, _t in pa.facts)]
        if not head_branching:
            rep.ok("R2.2", f"{side}: __call__ does not branch on the request method (HEAD only sets the header-only flag of the handler that GET would use)")
        else:
            def _handler_of(pa_):
                hs = [e for e in pa_.events if e.kind == "call" and callee_is(e.a, "handle_all", "handle_single_range", "handle_several_ranges")]
                errs = any(e.kind == "call" and (callee_is(e.a, "send_http_start") or e.a == ("param", "start_response")) and any(x[0] == "exc" for a in e.b for x in subterms(a)) for e in pa_.events)
                return (show(hs[0].a).split(".")[-1] if hs else ("error" if errs else "none"))
            bad_head = None
            for ph in head_branching:
                others = frozenset((f, t) for f, t in ph.facts if not _is_head(f))
                for pq in paths:
                    if pq is ph or pq.exit != ph.exit:
                        continue
                    qo = frozenset((f, t) for f, t in pq.facts if not _is_head(f))
                    if others <= qo and _handler_of(pq) != _handler_of(ph) and ph.exit == "return":
                        bad_head = (ph, pq)
                        break
                if bad_head:
                    break
            if bad_head:
                ph, pq = bad_head
                rep.violation("R2.2", construct(call, text="the request method chooses the handler"), where(call),
                              f"{side}: __call__ branches on the request method and the two sides answer through different handlers ({_handler_of(ph)} when {'; '.join(ph.fact_text())[:80]} vs "
                              f"{_handler_of(pq)} when {'; '.join(pq.fact_text())[:80]}): a HEAD with a Range header gets 200 and the full Content-Length where the GET gets 206 / 416 / 400")
            else:
                rep.ok("R2.2", f"{side}: __call__ tests the request method but both sides reach the same handler")
        # file_size is the captured stat's size
        SIZE = ("attr", ("attr", ("param", "self"), "stat_result"), "st_size")
        hcalls = [e for pa in paths for e in pa.events if e.kind == "call" and callee_is(e.a, "handle_all", "handle_single_range", "handle_several_ranges")]
        wrong = [e for e in hcalls if len(e.b) < 2 or e.b[1] != SIZE]
        if hcalls and not wrong:
            rep.ok("R2.2", f"{side}: file_size is st_size of the stat_result captured at construction (every handler call receives it)")
        elif wrong:
            rep.violation("R2.2", construct(call, text="file_size"), where(call), f"{side}: file_size is not the st_size of the captured stat_result (a handler is given {show(wrong[0].b[1])[:50] if len(wrong[0].b) > 1 else 'nothing'})")
        else:
            rep.undecide("R2.2", f"{side}: __call__ reaches no file handler")
    ex = p.cls("baize.exceptions:RangeNotSatisfiable").methods.get("__init__")
    _rns_content_range(p, rep, ex)
    pr = mixin.methods.get("parse_range")
    # on the paths of parse_range (its private stages inlined): every RangeNotSatisfiable that is raised carries the size parameter
    try:
        ppaths, _pc, _pi = run_paths(p, pr, mixin)
    except Exception as e_:  # the loops of parse_range can exceed the engine's bounds: fall back to the raise statements themselves
        ppaths = None
        rs_ = [n for f_ in with_helpers_(p, pr) for n in ast.walk(f_.node) if isinstance(n, ast.Raise) and "RangeNotSatisfiable" in ast.unparse(n)]
        if rs_ and all(ast.unparse(n.exc) == "RangeNotSatisfiable(max_size)" for n in rs_):
            rep.ok("R2.4", "parse_range raises RangeNotSatisfiable(max_size)")
        else:
            rep.undecide("R2.4", f"parse_range not explorable: {e_}")
    if ppaths is not None:
        MS = ("param", pr.params[-1] if "max_size" not in pr.params else "max_size")
        rns = [e.a for pa in ppaths for e in pa.events if e.kind == "raise" and "RangeNotSatisfiable" in show(e.a)]
        if rns and all(x[0] == "call" and tuple(x[2]) == (MS,) for x in rns):
            rep.ok("R2.4", "parse_range raises RangeNotSatisfiable(max_size)")
        elif rns:
            bad_ = next(x for x in rns if not (x[0] == "call" and tuple(x[2]) == (MS,)))
            rep.violation("R2.4", construct(pr, text="RangeNotSatisfiable argument"), where(pr), f"parse_range does not raise RangeNotSatisfiable with the file size (got {show(bad_)[:60]})")
        else:
            rep.violation("R2.4", construct(pr, text="RangeNotSatisfiable argument"), where(pr), "parse_range does not raise RangeNotSatisfiable with the file size")
    rep.require_instances("R2.3", 3)
    rep.require_instances("R2.4", 4)

    # ---------------------------------------------------------------- R2.5 descriptor pairing (ASGI)
    cls = p.cls("baize.asgi.responses:FileResponse")
    n_sites = 0
    for hname in ("handle_all", "handle_single_range", "handle_several_ranges"):
        h = cls.methods[hname]
        paths, col, it = run_paths(p, h, cls, raises=lambda c, i, callee, node: [ANY_EXC], yield_raises=False)
        rep.cfg_paths += len(paths)
        bad = None
        seen_open = False
        for pa in paths:
            idx = [i for i, e in enumerate(pa.events) if e.kind == "call" and callee_is(e.a, "open_for_sendfile")]
            if not idx:
                continue
            seen_open = True
            fd = ("call", pa.events[idx[0]].a, pa.events[idx[0]].b, pa.events[idx[0]].c, pa.events[idx[0]].tag)
            later = pa.events[idx[0] + 1:]
            closed = [e for e in later if e.kind == "call" and callee_is(e.a, "run_in_threadpool") and e.b and e.b[0] == ("ext", "os.close") and len(e.b) > 1 and e.b[1] == fd] + \
                     [e for e in later if e.kind == "call" and e.a == ("ext", "os.close") and e.b and e.b[0] == fd]
            if pa.exit == "raise" and not later:
                continue  # the open itself failed: nothing to close
            if not closed:
                bad = pa
        if not seen_open:
            rep.undecide("R2.5", f"asgi {hname}: no open_for_sendfile call")
        elif bad is not None:
            rep.violation("R2.5", construct(h, text="descriptor not closed on every exit"), where(h), f"asgi {hname}: a path ({bad.exit} {bad.value if bad.exit == 'raise' else ''}) leaves the descriptor returned by open_for_sendfile open")
        else:
            n_sites += 1
            rep.ok("R2.5", f"asgi {hname}: the descriptor is closed on every normal and exceptional exit ({len(paths)} paths)")
    for side_h in ("handle_all", "handle_single_range", "handle_several_ranges"):
        h = p.cls("baize.wsgi.responses:FileResponse").methods[side_h]
        withs = [n for n in ast.walk(canon(h.node)) if isinstance(n, ast.With) and "open(self.filepath, 'rb')" in ast.unparse(n.items[0].context_expr)]
        opens = [c for c in calls_in(h) if isinstance(c.func, ast.Name) and c.func.id == "open"]
        if withs and len(opens) == len(withs):
            rep.ok("R2.5", f"wsgi {side_h}: file opened with a context manager")
        else:
            rep.violation("R2.5", construct(h, text="open without with"), where(h), f"wsgi {side_h}: the file is opened outside a `with` block (not closed on every exit)")
    rep.require_instances("R2.5", 6)

    # ---------------------------------------------------------------- R2.6 bounded copy loop of the ASGI fallback sender
    # When a byte count is given, (a) every read asks for min(chunk, <remaining>) where <remaining> is computed from the
    # count with no fall-back value, and (b) the loop's stop condition is computed from the count bookkeeping - not from a
    # short read, which also happens exactly at a chunk boundary only AFTER one chunk too many was sent.
    from ..common import norm_guards as _gof, parents as _parents
    cs = p.cls("baize.asgi.responses:FileResponse").methods.get("create_send_or_zerocopy")
    fs = None
    # the emulation of sendfile: the function of the ASGI response module that reads the descriptor with os.read and takes a
    # byte count - a closure of create_send_or_zerocopy on the pinned tree, possibly a method / module function / __call__ of
    # a private class after a refactoring
    cands = [nf for nf in p.module("baize.asgi.responses").all_funcs
             if len(nf.params) >= 3 and any(isinstance(c, ast.Attribute) and ast.unparse(c) == "os.read" for c in walk_shallow(nf.node))]

    def _count_param(nf: FuncInfo) -> Optional[str]:
        tested = {n.left.id for n in ast.walk(nf.node) if isinstance(n, ast.Compare) and isinstance(n.left, ast.Name) and n.left.id in nf.params
                  and len(n.ops) == 1 and isinstance(n.ops[0], (ast.Is, ast.IsNot)) and isinstance(n.comparators[0], ast.Constant) and n.comparators[0].value is None}
        arith = {x.id for n in ast.walk(nf.node) if isinstance(n, (ast.BinOp, ast.Compare)) and not (isinstance(n, ast.Compare) and isinstance(n.ops[0], (ast.Is, ast.IsNot)))
                 for x in ast.walk(n) if isinstance(x, ast.Name) and x.id in nf.params}
        both = [q for q in nf.params if q in tested and q in arith]
        # the offset is only handed to lseek; the count takes part in arithmetic / comparisons
        both = [q for q in both if not any(isinstance(c, ast.Call) and any(isinstance(a, ast.Name) and a.id == q for a in c.args) and "lseek" in ast.unparse(c) for c in ast.walk(nf.node)) or q.lower().startswith("count")]
        return both[0] if len(both) == 1 else next((q for q in nf.params if q.lower() in ("count", "length", "nbytes", "size")), None)
    cands = [nf for nf in cands if _count_param(nf) is not None]
    if len(cands) == 1:
        fs = cands[0]
    if fs is None:
        rep.undecide("R2.6", f"asgi: the fallback sender (the function that reads the descriptor with os.read for a given byte count) was not found ({len(cands)} candidates)")
    else:
        rep.analysed(fs.fq)
        cnt = _count_param(fs)
        derived = {cnt}
        changed = True
        while changed:
            changed = False
            for n in ast.walk(fs.node):
                tg, val = [], None
                if isinstance(n, ast.Assign):
                    tg, val = [t for t in n.targets if isinstance(t, ast.Name)], n.value
                elif isinstance(n, (ast.AugAssign, ast.AnnAssign)) and isinstance(n.target, ast.Name):
                    tg, val = [n.target], n.value
                if val is None:
                    continue
                uses = {x.id for x in ast.walk(val) if isinstance(x, ast.Name)}
                if isinstance(n, ast.AugAssign) and n.target.id in derived:
                    continue
                # bookkeeping is arithmetic on the count; what a call returns (the bytes that were read) is not
                if any(isinstance(x, ast.Call) and not (isinstance(x.func, ast.Name) and x.func.id in ("min", "max", "int", "abs")) for x in ast.walk(val)) or any(isinstance(x, ast.Await) for x in ast.walk(val)):
                    continue
                if uses & derived:
                    for t in tg:
                        if t.id not in derived:
                            derived.add(t.id)
                            changed = True
        # counters updated next to a derived length (here += length) are bookkeeping of the count as well
        for n in ast.walk(fs.node):
            if isinstance(n, ast.AugAssign) and isinstance(n.target, ast.Name) and {x.id for x in ast.walk(n.value) if isinstance(x, ast.Name)} & derived:
                derived.add(n.target.id)

        def mentions_derived(e: ast.AST) -> bool:
            return any(isinstance(x, ast.Name) and x.id in derived for x in ast.walk(e))

        def bounded(node: ast.AST) -> Optional[bool]:
            for g, pol in _gof(node, fs.node):
                if isinstance(g, ast.Compare) and isinstance(g.left, ast.Name) and g.left.id == cnt and len(g.ops) == 1 and isinstance(g.comparators[0], ast.Constant) and g.comparators[0].value is None:
                    if isinstance(g.ops[0], ast.Is):
                        return not pol
                    if isinstance(g.ops[0], ast.IsNot):
                        return pol
            return None

        reads = [c for c in calls_in(fs, deep=True) if any(isinstance(a, ast.Attribute) and ast.unparse(a) == "os.read" for a in c.args) or ast.unparse(c.func) == "os.read"]
        n_b = 0
        for c in reads:
            b = bounded(c)
            if b is False:
                continue  # the 'until end of file' branch: nothing to clamp
            n_b += 1
            L = c.args[-1]
            loop = next((q for q in _parents(c) if isinstance(q, (ast.While, ast.For))), None)
            defs = [L]
            if isinstance(L, ast.Name):
                defs = [n.value for n in ast.walk(loop if loop is not None else fs.node) if isinstance(n, ast.Assign) and any(isinstance(t, ast.Name) and t.id == L.id for t in n.targets)]
            okc = bool(defs)
            why = ""

            def none_branch(d: ast.expr) -> ast.expr:
                """`A if <derived> is None else B` -> B (the branch taken when a count is given)"""
                if isinstance(d, ast.IfExp) and isinstance(d.test, ast.Compare) and len(d.test.ops) == 1 and mentions_derived(d.test.left) \
                        and isinstance(d.test.comparators[0], ast.Constant) and d.test.comparators[0].value is None:
                    return d.orelse if isinstance(d.test.ops[0], ast.Is) else d.body
                return d

            defs = [none_branch(d) for d in defs]
            for d in defs:
                if not (isinstance(d, ast.Call) and isinstance(d.func, ast.Name) and d.func.id == "min" and len(d.args) == 2):
                    okc, why = False, f"the requested length {ast.unparse(d)[:50]} is not min(chunk size, remaining)"
                    continue
                rem = [a for a in d.args if mentions_derived(a)]
                if not rem:
                    okc, why = False, "the requested length is not clamped by the remaining byte count"
                elif any(isinstance(x, (ast.BoolOp, ast.IfExp)) for a in rem for x in ast.walk(a)):
                    okc, why = False, f"the remaining-count operand of the clamp has a fall-back value ({ast.unparse(rem[0])[:50]}): when nothing remains a full chunk is requested"
            if okc:
                rep.ok("R2.6", "asgi fallback sender: with a byte count every read asks for min(chunk size, remaining count)")
            elif not why:
                # the requested length is not assigned inside the sender (it is the loop variable of a generator that plans the reads,
                # a parameter ...): where it comes from is not read by this rule
                rep.undecide("R2.6", f"asgi fallback sender: the length asked of os.read ({ast.unparse(L)[:40]}) is not computed by an assignment of the sender: the clamp is not recognised")
            else:
                rep.violation("R2.6", construct(fs, text="unclamped read"), where(fs, c), f"asgi: {why}: bytes beyond the requested range can be read and sent (Content-Length no longer matches the body)")
            # stop condition
            if isinstance(loop, ast.While):
                # everything that can end the loop: its test, the flags the test reads, the guards of its `break`s
                const_true = isinstance(loop.test, ast.Constant) and bool(loop.test.value)
                flags = {x.id for x in ast.walk(loop.test) if isinstance(x, ast.Name)}
                stops: List[Tuple[ast.AST, ast.expr]] = []
                direct = (not const_true) and mentions_derived(loop.test)
                if not const_true and not direct:
                    sets = [n for n in ast.walk(loop) if isinstance(n, ast.Assign) and any(isinstance(t, ast.Name) and t.id in flags for t in n.targets)]
                    for n in sets:
                        if isinstance(n.value, ast.Constant) and n.value.value is False:
                            continue
                        if bounded(n) is False:
                            continue
                        stops.append((n, n.value))
                    if not sets:
                        stops.append((loop, loop.test))
                for b_ in ast.walk(loop):
                    if isinstance(b_, (ast.Break, ast.Return)) and next((q for q in _parents(b_) if isinstance(q, (ast.While, ast.For, ast.AsyncFor))), None) is loop:
                        gs = _gof(b_, loop)
                        if not gs:
                            continue
                        if bounded(b_) is False:
                            continue
                        if any(mentions_derived(g_) for g_, _pol in gs):
                            stops.append((b_, next(g_ for g_, _pol in gs if mentions_derived(g_))))
                        else:
                            stops.append((b_, gs[-1][0]))
                bad_stops = [(n_, e_) for n_, e_ in stops if not mentions_derived(e_)]
                # the stop flag must say "this piece reaches the end of the count": with L = the length asked for in this iteration and
                # pos = the position at its start, `flag = <a> == <b>` has to be equivalent to pos + L == count WHEREVER it stands relative
                # to the update of pos (length == count - pos before `pos += length`; pos == count after it). Decided by linear arithmetic
                # over the straight-line statements of the loop body (a full read assumed: len(data) = L).
                flag_sets = [(n, n.value) for n in loop.body if isinstance(n, ast.Assign) and any(isinstance(t, ast.Name) and t.id in flags for t in n.targets)]
                for n_, e_ in flag_sets:
                    if isinstance(e_, ast.Compare) and len(e_.ops) == 1 and isinstance(e_.ops[0], (ast.Eq, ast.GtE, ast.LtE)):
                        verdict = _stop_flag_linear(loop, n_, cnt)
                        if verdict is False:
                            bad_stops.append((n_, e_))
                            rep.violation("R2.6", construct(fs, text=f"stop flag {ast.unparse(n_)[:60]}"), where(fs, n_),
                                          f"asgi: the bounded copy loop sets its stop flag with `{ast.unparse(e_)[:50]}` at a point where the position was already advanced (or not yet): that is not "
                                          "'this piece reaches the end of the count' - for a count that is an exact multiple of the chunk size the loop stops one chunk early (Content-Length bytes "
                                          "never sent) or late")
                            stops = [x for x in stops if x[0] is not n_]
                bad_stops = [x for x in bad_stops if not (isinstance(x[0], ast.Assign) and x[0] not in [y[0] for y in stops] and mentions_derived(x[1]))]
                if direct and not bad_stops:
                    rep.ok("R2.6", "asgi fallback sender: the bounded loop tests the count bookkeeping")
                elif stops and not bad_stops:
                    rep.ok("R2.6", "asgi fallback sender: the bounded loop stops when the count bookkeeping says the last piece was read")
                elif bad_stops:
                    n0, e0 = bad_stops[0]
                    rep.violation("R2.6", construct(fs, text="stop condition independent of the count"), where(fs, n0),
                                  f"asgi: the bounded copy loop decides to stop from `{ast.unparse(e0)[:50]}`, which does not depend on the byte count: a range whose length is a multiple of "
                                  "the chunk size is followed by one more chunk (or an empty final event)")
                else:
                    rep.undecide("R2.6", "asgi fallback sender: the bounded loop has no recognisable stop condition")
        if n_b == 0:
            rep.undecide("R2.6", "asgi fallback sender: no read under `count is not None`")
    rep.require_instances("R2.6", 2)

    # ---------------------------------------------------------------- R2.7 merged ranges are the hull of what they replace
    # (the value-level properties of range resolution are C03, not decided; this is the one structural clause: wherever an
    # interval already in the result list is REPLACED by a merged one, the new end is max(both ends) and the new start is
    # min(both starts) - or the old start when the input is walked in sorted order)
    pr = mixin.methods.get("parse_range")
    if pr is None:
        raise AnalysisError("FileResponseMixin.parse_range vanished")
    rep.analysed(pr.fq)
    from ..common import with_helpers as _wh
    merges = []
    for f_ in _wh(p, pr):  # parse_range and the private stages it is split into
        returned = {n.value.id for n in ast.walk(f_.node) if isinstance(n, ast.Return) and isinstance(n.value, ast.Name)}
        for _ in range(3):  # ... and what is copied into a returned name (`ret = result`)
            returned |= {n.value.id for n in ast.walk(f_.node) if isinstance(n, ast.Assign) and isinstance(n.value, ast.Name) and any(isinstance(t, ast.Name) and t.id in returned for t in n.targets)}
        merges += [n for n in ast.walk(f_.node) if isinstance(n, ast.Assign) and len(n.targets) == 1 and isinstance(n.targets[0], ast.Subscript)
                   and isinstance(n.targets[0].value, ast.Name) and n.targets[0].value.id in returned and isinstance(n.value, ast.Tuple) and len(n.value.elts) == 2]
    for m_ in merges:
        lo, hi = m_.value.elts
        loop = next((q for q in _parents(m_) if isinstance(q, ast.For) and isinstance(q.target, ast.Tuple)), None)
        sorted_in = loop is not None and isinstance(loop.iter, ast.Call) and isinstance(loop.iter.func, ast.Name) and loop.iter.func.id == "sorted"
        incoming = [x.id for x in loop.target.elts if isinstance(x, ast.Name)] if loop is not None else []
        is_max = isinstance(hi, ast.Call) and isinstance(hi.func, ast.Name) and hi.func.id == "max" and len(hi.args) == 2 and (len(incoming) < 2 or any(isinstance(a, ast.Name) and a.id == incoming[1] for a in hi.args))
        is_min = isinstance(lo, ast.Call) and isinstance(lo.func, ast.Name) and lo.func.id == "min" and len(lo.args) == 2
        keeps_old_start = sorted_in and not any(isinstance(x, ast.Name) and x.id in incoming for x in ast.walk(lo))
        if is_max and (is_min or keeps_old_start):
            rep.ok("R2.7", f"parse_range: a merged range is the hull of the two it replaces ({ast.unparse(m_.value)[:60]})")
        elif not is_max:
            rep.violation("R2.7", construct(pr, text="merged end is not max of both ends"), where(pr, m_),
                          f"parse_range replaces a range by ({ast.unparse(lo)[:30]}, {ast.unparse(hi)[:30]}): the end of the merged range is not the maximum of both ends, so a range lying inside an earlier one "
                          "(bytes=0-99,10-19) shrinks it and the 206 body lacks requested bytes")
        else:
            rep.violation("R2.7", construct(pr, text="merged start is not min of both starts"), where(pr, m_), "parse_range: the start of a merged range is not the minimum of both starts (input not sorted)")
    if not merges:
        rep.undecide("R2.7", "parse_range: no in-place replacement of a result interval found (merge idiom not recognised)")
    rep.require_instances("R2.7", 1)
    # ---------------------------------------------------------------- R2.8 the header mapping's constructor (shared rule, sa/props/hdr_common.py)
    from .hdr_common import headers_ctor_own_store
    for _f in (headers_ctor_own_store,):
        for kind, fn_, node, cons, msg in _f(p):
            if kind == "ok":
                rep.analysed(fn_.fq)
                rep.ok("R2.8", msg)
            elif kind == "undecided":
                rep.undecide("R2.8", msg)
            else:
                rep.violation("R2.8", construct(fn_, text=cons), where(fn_, node), msg)
    rep.require_instances("R2.8", 1)


def _rns_content_range(p: Program, rep: Report, ex) -> None:
    """On EVERY path of RangeNotSatisfiable.__init__ the base initialiser receives 416 and a header mapping whose
    Content-Range is '*/' + <the size parameter> (a size of 0 included: no truthiness test of the size)."""
    K = construct("baize.exceptions:RangeNotSatisfiable.__init__", text="Content-Range")
    if ex is None:
        rep.undecide("R2.4", "RangeNotSatisfiable has no __init__ of its own: where Content-Range is built is not recognised")
        return
    rep.analysed(ex.fq)
    size = ex.params[1] if len(ex.params) > 1 else None
    try:
        paths, _c, _i = run_paths(p, ex, ex.cls)
    except Exception as e_:
        rep.undecide("R2.4", f"RangeNotSatisfiable.__init__ is not analysable ({e_})")
        return
    rep.cfg_paths += len(paths)
    bad = None
    n_ok = 0
    for pa in paths:
        if pa.exit != "return":
            continue
        inits = [e for e in pa.events if e.kind == "call" and e.a[0] == "func" and e.a[1].endswith(".__init__")]
        if len(inits) != 1:
            rep.undecide("R2.4", f"RangeNotSatisfiable.__init__: a path with {len(inits)} base initialiser calls ({'; '.join(pa.fact_text())})")
            return
        e = inits[0]
        args = list(e.b) + [v for _k, v in (e.c or ())]
        kw = dict(e.c or ())
        status = kw.get("status_code", e.b[0] if e.b else None)
        headers = kw.get("headers", e.b[1] if len(e.b) > 1 else None)
        if status != ("const", 416):
            bad = bad or f"the status passed on is {show(status) if status else 'missing'}, not 416"
            continue
        cr = None
        if headers is not None and headers[0] == "dict":
            for k, v in headers[1]:
                if k[0] == "const" and isinstance(k[1], str) and k[1].lower() == "content-range":
                    cr = v
        elif headers is not None and headers[0] not in ("const", "dict"):
            rep.undecide("R2.4", f"RangeNotSatisfiable.__init__: header mapping of an unrecognised form {show(headers)[:60]}")
            return
        parts = strparts(cr) if cr is not None else None
        if parts is not None and len(parts) == 2 and parts[0] == ("const", "*/") and (parts[1] == ("param", size) or (parts[1][0] == "call" and parts[1][1] in (("ext", "str"), ("builtin", "str")) and parts[1][2] == (("param", size),))):
            n_ok += 1
            continue
        why = ("when " + " and ".join(pa.fact_text())) if pa.facts else "always"
        bad = bad or (f"{why}, the 416 response carries " + (f"Content-Range {show(cr)[:40]}" if cr is not None else "no Content-Range") + f" instead of */<{size}> (a file of size 0 included)")
    if bad:
        rep.violation("R2.4", K, where(ex), "RangeNotSatisfiable: " + bad)
    elif n_ok:
        rep.ok("R2.4", f"416 carries Content-Range: */<size given by parse_range> on all {n_ok} path(s) of its constructor")
    else:
        rep.undecide("R2.4", "RangeNotSatisfiable.__init__: no returning path")


def _rename_stat(v: Value, fn) -> Value:
    """the term with the function's stat_result parameter (the one whose st_* attributes / generate_etag argument it is) renamed to a common name"""
    names = [q for q in fn.params if q not in ("self", "cls")]
    stat = None
    for t in subterms(v):
        if t[0] == "attr" and t[1][0] == "param" and isinstance(t[2], str) and t[2].startswith("st_"):
            stat = t[1][1]
        elif t[0] == "call" and t[1][0] == "func" and t[1][1].endswith("generate_etag") and t[2] and t[2][0][0] == "param":
            stat = t[2][0][1]
    if stat is None or stat not in names:
        return v

    def ren(x):
        if isinstance(x, tuple):
            if x == ("param", stat):
                return ("param", "<stat_result>")
            return tuple(ren(y) for y in x)
        return x

    return ren(v)
