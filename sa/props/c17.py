"""C17 - multi-value mappings stay consistent (every operation updates both representations in step)."""
from __future__ import annotations

import ast
from typing import Dict, List, Optional, Set, Tuple

from ..collect import default_inline, Path, callee_is, run_paths
from ..common import construct, where, with_helpers
from ..flow import NONE, Value, contains, show, subterms
from ..loader import AnalysisError, ClassInfo, FuncInfo, Program, walk_shallow
from ..report import Report

DS = "baize.datastructures"
SELF = ("param", "self")
D = ("attr", SELF, "_dict")
L = ("attr", SELF, "_list")


def _touch(pa: Path) -> Tuple[List, List, List]:
    """(dict effects, list effects, delegations) on a path."""
    de, le, dg = [], [], []
    for e in pa.events:
        if e.kind in ("store", "delete"):
            k = e.a
            if k == D or (k[0] == "sub" and k[1] == D):
                de.append(e)
            elif k == L or (k[0] == "sub" and k[1] == L):
                le.append(e)
            elif k[0] == "sub" and k[1] == SELF:
                dg.append(e)  # self[key] = v / del self[key]: goes through the audited dunder
        elif e.kind == "call" and e.a[0] == "attr":
            if e.a[1] == L and e.a[2] in ("append", "extend", "clear", "insert", "pop", "remove", "sort", "reverse"):
                le.append(e)
            elif e.a[1] == D and e.a[2] in ("update", "pop", "clear", "setdefault", "popitem", "__setitem__", "__delitem__"):
                de.append(e)
    return de, le, dg


def run(p: Program, rep: Report, tier: str) -> None:
    rep.explanation = (
        "Decides the mechanism the statement's rationale names, not the model equality: R17.1 every mutator of "
        "MutableMultiMapping that touches one of the two representations (_dict: key -> last value, _list: ordered pairs) "
        "touches both on every normal path, for the key it was given, with the values the statement requires (assignment "
        "stores the new value in both, append adds the pair and makes it the last value, setlist stores the last of the "
        "values, delete removes the key from both) or delegates to an audited dunder; R17.2 the constructor builds both from "
        "one fresh list; R17.3 no method hands out the internal list/dict; R17.4 pop/popitem/clear/update/setdefault are the "
        "inherited MutableMapping mixins and the read views are split as the statement says. R17.7 str(QueryParams) percent-escapes "
        "with the codec the parser unquotes with; R17.8 == compares the pair lists with multiplicities. NOT decided: equality with the "
        "list-of-pairs model for all operation sequences (values), the str/parse round trip of QueryParams beyond the codec agreement."
    )
    rep.assume("typing.MutableMapping mixins (pop, popitem, clear, update, setdefault) are implemented on top of __getitem__/__setitem__/__delitem__ (stdlib contract)")
    mm = p.cls(f"{DS}:MultiMapping")
    mmm = p.cls(f"{DS}:MutableMultiMapping")

    # ---------------------------------------------------------------- R17.1
    KEY = ("param", "key")
    expect_methods = ["__setitem__", "__delitem__", "setlist", "poplist", "append"]
    setitem_pair_paths: List[Path] = []
    setitem_rebuilds: List[str] = []
    for name, m in sorted(mmm.methods.items()):
        if default_inline(m):
            continue  # a private helper is analysed as part of the public mutators that call it
        rep.analysed(m.fq)
        raises = (lambda c, i, callee, node: ["KeyError"] if callee[0] in ("delitem",) else [])
        paths, col, it = run_paths(p, m, mmm, raises=raises)
        rep.cfg_paths += len(paths)
        mutates = False
        for pa in paths:
            if pa.exit != "return":
                continue
            de, le, dg = _touch(pa)
            if not (de or le or dg):
                if name in ("__setitem__", "append"):
                    rep.violation("R17.1", construct(m, text="path returns without updating"), where(m),
                                  f"{name} has a normal path that updates neither representation: an assignment must leave exactly one pair for the key (duplicates collapsed) and the new value indexed", path_facts=pa.fact_text())
                continue
            mutates = True
            if dg and not de and not le:
                # pure delegation to self[...] = / del self[...]
                for e in dg:
                    if e.a[2] != KEY:
                        rep.violation("R17.1", construct(m, text=f"delegates for {show(e.a[2])}"), where(m), f"{name} delegates to the item protocol with another key than the one it was given")
                rep.ok("R17.1", f"{name}: delegates to the audited item protocol for the same key")
                continue
            if bool(de) != bool(le):
                which = "_list" if not le else "_dict"
                rep.violation("R17.1", construct(m, text=f"path updates only {'_dict' if de else '_list'}"), where(m),
                              f"{name} has a path that updates {'_dict' if de else '_list'} but not {which}: indexing/keys and the item list disagree afterwards", path_facts=pa.fact_text())
                continue
            # keys and values
            ok = True
            for e in de:
                if e.kind in ("store", "delete") and e.a[0] == "sub" and e.a[2] != KEY:
                    ok = False
                    rep.violation("R17.1", construct(m, text=f"_dict[{show(e.a[2])}]"), where(m), f"{name} updates _dict under {show(e.a[2])}, not under the key it was given")
            if name == "__setitem__":
                vals = [e.b for e in de if e.kind == "store"]
                if vals != [("param", "value")]:
                    ok = False
                    rep.violation("R17.1", construct(m, text="_dict value"), where(m), "__setitem__ does not store exactly the new value in _dict")
                pair = ("tuple", (KEY, ("param", "value")))
                rebuilt = [e for e in le if e.kind == "store" and (e.a == L or (e.a[0] == "sub" and e.a[1] == L and e.a[2][0] == "slice"))]
                if any((e.kind == "store" and e.b == pair) or (e.kind == "call" and e.b and e.b[0] == pair) for e in le):
                    setitem_pair_paths.append(pa)
                elif rebuilt:
                    # the whole pair list is replaced by a list built in a loop of its own: where the new pair lands in it is a property
                    # of that loop's values, which the path events do not carry
                    setitem_rebuilds.append(show(rebuilt[0].b)[:50])
                elif any(e.kind == "store" or (e.kind == "call" and e.a[2] in ("append", "insert", "extend")) for e in le):
                    ok = False
                    rep.violation("R17.1", construct(m, text="_list pair"), where(m), "__setitem__ puts something other than the pair (key, value) into _list")
            if name == "append":
                pair = ("tuple", (KEY, ("param", "value")))
                apps = [e for e in le if e.kind == "call" and e.a[2] == "append"]
                if len(apps) != 1 or apps[0].b != (pair,):
                    ok = False
                    rep.violation("R17.1", construct(m, text="append pair"), where(m), "append does not add exactly the pair (key, value) at the end of _list")
                if [e.b for e in de if e.kind == "store"] != [("param", "value")]:
                    ok = False
                    rep.violation("R17.1", construct(m, text="append last value"), where(m), "append does not make the appended value the indexed (last) value")
            if name == "setlist":
                st = [e for e in de if e.kind == "store"]
                if st and not (st[0].b[0] == "sub" and st[0].b[1] == ("param", "values") and st[0].b[2] == ("const", -1)):
                    ok = False
                    rep.violation("R17.1", construct(m, text=f"_dict value {show(st[0].b)}"), where(m), "setlist does not make the LAST of the given values the indexed value")
                ls = [e for e in le if e.kind == "store" and e.a == L]
                if ls:
                    txt = show(ls[0].b)
                    if not ("!= key" in txt or "not (" in txt and "== key" in txt) or "for _ in values" not in txt:
                        ok = False
                        rep.violation("R17.1", construct(m, text=f"_list = {txt[:70]}"), where(m), "setlist does not rebuild _list as (pairs of other keys) followed by (key, v) for every given value")
            if name == "__delitem__":
                if not any(e.kind == "delete" for e in de):
                    ok = False
                    rep.violation("R17.1", construct(m, text="_dict not deleted"), where(m), "__delitem__ does not delete the key from _dict")
            if ok:
                rep.ok("R17.1", f"{name}: both representations updated for the given key on this path")
        if name in expect_methods and not mutates:
            rep.violation("R17.1", construct(m, text="no mutation"), where(m), f"{name} no longer mutates the mapping")
    kinds = set()
    for pa in setitem_pair_paths:
        de, le, dg = _touch(pa)
        for e in le:
            if e.kind == "store" and e.a[0] == "sub":
                kinds.add("replace-in-place")
            if e.kind == "call" and e.a[2] == "append":
                kinds.add("append-new")
    if kinds == {"replace-in-place", "append-new"}:
        rep.ok("R17.1", "__setitem__: an existing key is replaced in place (other duplicates deleted), a new key is appended")
    elif setitem_rebuilds:
        rep.undecide("R17.1", f"__setitem__ replaces the whole pair list by a list built in a loop of its own ({setitem_rebuilds[0]}): where the new pair lands (first occurrence replaced, "
                     "later ones dropped, a new key appended) is not read off that loop")
    else:
        rep.violation("R17.1", construct(mmm.methods["__setitem__"], text=f"pair placement {sorted(kinds)}"), where(mmm.methods["__setitem__"]),
                      "__setitem__ does not both replace the pair of an existing key in place and append the pair of a new key")
    # deletions by position inside a loop over positions must run from the back
    from ..common import stale_index_deletes
    for name, m in sorted(mmm.methods.items()):
        for node, desc, okk in stale_index_deletes(m, p):
            if okk:
                rep.ok("R17.1", f"{name}: {desc}")
            else:
                rep.violation("R17.1", construct(m, text="delete by stale position"), where(m, node),
                              f"{name}: {desc}: after the first deletion the remaining positions are off by one, so with three or more pairs of the key a pair of ANOTHER key is removed (or IndexError is raised) "
                              "and the item list no longer matches a plain list of pairs")
    # ... and never as a contiguous SLICE with computed bounds: the pairs of one key need not be adjacent in the pair list
    from ..common import with_helpers as _wh17
    for name, m in sorted(mmm.methods.items()):
        for f_ in _wh17(p, m):
            for n in ast.walk(f_.node):
                sl = None
                if isinstance(n, ast.Delete):
                    sl = next((t for t in n.targets if isinstance(t, ast.Subscript) and isinstance(t.slice, ast.Slice) and ast.unparse(t.value).endswith("_list")), None)
                elif isinstance(n, ast.Assign) and len(n.targets) == 1 and isinstance(n.targets[0], ast.Subscript) and isinstance(n.targets[0].slice, ast.Slice) \
                        and ast.unparse(n.targets[0].value).endswith("_list") and isinstance(n.value, (ast.List, ast.Tuple)) and not n.value.elts:
                    sl = n.targets[0]
                if sl is not None and (sl.slice.lower is not None or sl.slice.upper is not None):
                    rep.violation("R17.1", construct(m, text="pairs removed as a contiguous slice"), where(f_, n),
                                  f"{name}: `{' '.join(ast.unparse(n).split())[:70]}` removes a contiguous run of the pair list computed from the number of occurrences: the pairs of one key need not be "
                                  "adjacent (a=1&b=2&a=3), so a pair of ANOTHER key is removed and a stale pair of this key stays")
    for name in expect_methods:
        if name not in mmm.methods:
            rep.violation("R17.1", construct(mmm, text=f"{name} missing"), mmm.loc, f"MutableMultiMapping.{name} vanished")
    # __delitem__ must remove ALL pairs of the key from _list
    di = mmm.methods.get("__delitem__")
    if di is not None:
        okf = False
        for n in ast.walk(di.node):
            if isinstance(n, ast.comprehension):
                for c in n.ifs:
                    if isinstance(c, ast.Compare) and len(c.ops) == 1 and isinstance(c.ops[0], ast.NotEq) and isinstance(c.left, ast.Name) and isinstance(c.comparators[0], ast.Name) \
                            and {"key"} & {c.left.id, c.comparators[0].id} and isinstance(n.target, ast.Tuple) and n.target.elts and isinstance(n.target.elts[0], ast.Name) \
                            and n.target.elts[0].id in (c.left.id, c.comparators[0].id):
                        okf = True
        if okf:
            rep.ok("R17.1", "__delitem__ keeps exactly the pairs whose key differs")
        else:
            rep.violation("R17.1", construct(di, text="filter"), where(di), "__delitem__ does not rebuild _list from the pairs whose key differs from the deleted key")
    rep.require_instances("R17.1", 8)

    # ---------------------------------------------------------------- R17.2 constructor
    init = mm.methods.get("__init__")
    if init is None:
        raise AnalysisError("MultiMapping.__init__ vanished")
    rep.analysed(init.fq)
    paths, col, it = run_paths(p, init, mm)
    for pa in paths:
        if pa.exit != "return":
            continue
        sd = [e for e in pa.events if e.kind == "store" and e.a == D]
        sl = [e for e in pa.events if e.kind == "store" and e.a == L]
        if len(sd) != 1 or len(sl) != 1:
            rep.violation("R17.2", construct(init, text="constructor stores"), where(init), "the constructor does not set both _dict and _list on a path")
            continue
        items = sl[0].b
        if not (sd[0].b[0] == "call" and sd[0].b[1] == ("builtin", "dict") and sd[0].b[2] == (items,)):
            rep.violation("R17.2", construct(init, text=f"_dict = {show(sd[0].b)[:50]}"), where(init), "_dict is not dict(<the same pair list that becomes _list>)")
            continue
        fresh = items[0] == "list" or (items[0] == "call" and (items[1] == ("builtin", "list") or (items[1] == ("ext", "typing.cast") and len(items[2]) == 2 and items[2][1][0] == "call" and items[2][1][1] == ("builtin", "list"))))
        if fresh:
            rep.ok("R17.2", f"constructor: _list is a fresh list ({show(items)[:50]}) and _dict = dict(of it)")
        else:
            rep.violation("R17.2", construct(init, text=f"_list = {show(items)[:50]}"), where(init), "the constructor keeps the caller's own list object as _list (later mutation of either side desynchronises them)")
    # the branch that reads `.items()` must be taken by EVERY Mapping the annotation admits
    from ..common import narrow_mapping_tests
    for ci_ in [mm] + p.subclasses(mm):
        init_ = ci_.methods.get("__init__")
        if init_ is None:
            continue
        rep.analysed(init_.fq)
        nm = narrow_mapping_tests(p, init_)
        for node, desc in nm:
            rep.violation("R17.2", construct(init_, text="mapping branch narrowed: " + desc.split(" although")[0]), where(init_, node),
                          f"{init_.fq}: {desc}: a Mapping that is not a dict (MappingProxyType, ChainMap, Headers, ...) is iterated as if it were a list of pairs - "
                          "its keys are unpacked as (key, value)")
        if not nm and any(isinstance(n, ast.Call) and isinstance(n.func, ast.Name) and n.func.id == "isinstance" for n in ast.walk(init_.node)):
            rep.ok("R17.2", f"{init_.fq}: the mapping branch is selected by the abstract Mapping type")
    # a subclass that wraps the constructor must hand the base constructor its argument as it came: the base has a branch of its
    # own for multi-mappings (multi_items()); a pre-normalisation through `.items()` keeps only the last value of every key
    for sub in p.subclasses(mm):
        own = sub.methods.get("__init__") if "__init__" in dict.keys(sub.methods) else None
        if own is None or own.cls is not sub:
            continue
        rep.analysed(own.fq)
        try:
            spaths, _sc, _si = run_paths(p, own, sub, inline=lambda fi: False)
        except Exception as e_:
            rep.undecide("R17.2", f"{own.fq} is not analysable ({e_})")
            continue
        rawp = ("param", own.params[1]) if len(own.params) > 1 else None
        for pa in spaths:
            if pa.exit != "return":
                continue
            sup = [e for e in pa.events if e.kind == "call" and e.a[0] == "func" and e.a[1].endswith(".__init__")]
            if len(sup) != 1:
                rep.undecide("R17.2", f"{own.fq}: a path with {len(sup)} base constructor calls")
                continue
            arg = sup[0].b[0] if sup[0].b else dict(sup[0].c or ()).get("raw")
            if arg == rawp or arg is None and rawp is None:
                rep.ok("R17.2", f"{own.fq}: the base constructor receives the argument unchanged")
            elif arg is not None and any(t[0] == "call" and ((t[1][0] == "attr" and t[1][2] in ("items", "keys", "values") and t[1][1] == rawp) or (t[1] == ("builtin", "dict") and t[2][:1] == (rawp,)))
                                         for t in subterms(arg)):
                rep.violation("R17.2", construct(own, text="base constructor fed from raw.items()"), where(own),
                              f"{own.fq} builds the pairs for the base constructor from `{rawp[1]}.items()`: for a multi-mapping (QueryParams, MutableMultiMapping) items() yields one value per key, "
                              "so duplicate pairs are dropped before the base constructor's own multi_items() branch can keep them (multi_items / getlist disagree with the source)")
            else:
                rep.ok("R17.2", f"{own.fq}: the base constructor receives {show(arg)[:60] if arg else 'nothing'} (no single-valued view of the argument)")
    rep.require_instances("R17.2", 4)

    # ---------------------------------------------------------------- R17.3 no aliasing out
    fam = [mm] + p.subclasses(mm)
    for ci in fam:
        for m in ci.methods.values():
            for n in walk_shallow(m.node):
                if isinstance(n, ast.Return) and n.value is not None and ast.unparse(n.value) in ("self._list", "self._dict"):
                    rep.violation("R17.3", construct(m, n), where(m, n), f"{m.fq} returns the internal {ast.unparse(n.value)} itself: callers can mutate one representation only")
    mi = mm.methods.get("multi_items")
    if mi is not None and any(isinstance(n, ast.Return) and ast.unparse(n.value) in ("list(self._list)", "self._list[:]", "self._list.copy()", "[*self._list]") for n in walk_shallow(mi.node)):
        rep.ok("R17.3", "multi_items returns a copy of the pair list")
    else:
        rep.violation("R17.3", construct(mm, text="multi_items"), mm.loc, "multi_items does not return a copy of the pair list")

    # ---------------------------------------------------------------- R17.4 inherited mutators / reader split
    for name in ("pop", "popitem", "clear", "update", "setdefault", "__ior__"):
        for ci in [mmm] + p.subclasses(mmm):
            if name in ci.methods:
                m = ci.methods[name]
                touches = any(isinstance(n, ast.Attribute) and n.attr in ("_dict", "_list") for n in ast.walk(m.node))
                if touches:
                    rep.violation("R17.4", construct(m, text="overrides mixin and touches internals"), where(m), f"{m.fq} overrides the MutableMapping mixin and touches the internal representations directly")
    rep.ok("R17.4", "pop/popitem/clear/update/setdefault are the inherited mixins (or do not touch the internals)")
    readers = {"__getitem__": "_dict", "__iter__": "_dict", "__len__": "_dict", "getlist": "_list", "multi_items": "_list", "__eq__": "_list"}
    for name, want in readers.items():
        m = mm.methods.get(name)
        if m is None:
            rep.violation("R17.4", construct(mm, text=f"{name} missing"), mm.loc, f"MultiMapping.{name} vanished")
            continue
        attrs = {n.attr for n in ast.walk(m.node) if isinstance(n, ast.Attribute) and n.attr in ("_dict", "_list")}
        if attrs == {want}:
            rep.ok("R17.4", f"{name} reads {want}")
        else:
            rep.violation("R17.4", construct(m, text=f"reads {sorted(attrs)}"), where(m), f"MultiMapping.{name} reads {sorted(attrs)} instead of {want}")
    gi = mm.methods.get("getlist")
    if gi is not None and "if item_key == key" not in ast.unparse(gi.node) and "== key" not in ast.unparse(gi.node):
        rep.violation("R17.4", construct(gi, text="filter"), where(gi), "getlist does not select the pairs of the given key")
    for cname in ("QueryParams", "FormData"):
        ci = p.cls(f"{DS}:{cname}")
        over = [n for n in readers if n in ci.methods]
        if over:
            rep.violation("R17.4", construct(ci, text=f"overrides {over}"), ci.loc, f"{cname} overrides the read views {over}: it no longer exposes the same views as a plain multi-value mapping")
        else:
            rep.ok("R17.4", f"{cname} inherits all read views")
    rep.require_instances("R17.4", 8)

    # ---------------------------------------------------------------- R17.5 who may change the two representations
    # Only the constructor and MutableMultiMapping's audited mutators (R17.1) change _list / _dict. Any other method of a mapping
    # class (FormData.close dropping the closed uploads from the pair list ...) or any function outside the classes that changes one
    # of them leaves keys()/len()/`in` (from _dict) and multi_items()/getlist() (from _list) describing different contents.
    MUT = ("append", "extend", "insert", "remove", "pop", "clear", "sort", "reverse", "update", "setdefault", "popitem", "__setitem__", "__delitem__")
    audited = {m.fq for m in mmm.methods.values()} | {f_.fq for m in mmm.methods.values() for f_ in with_helpers(p, m)}
    n_w = 0
    for f_ in p.module(DS).all_funcs:
        if f_.name in ("__init__", "__new__") or f_.fq in audited:
            continue
        for n in ast.walk(f_.node):
            hit = None
            if isinstance(n, ast.Call) and isinstance(n.func, ast.Attribute) and n.func.attr in MUT and isinstance(n.func.value, ast.Attribute) and n.func.value.attr in ("_list", "_dict"):
                hit = n.func.value
            elif isinstance(n, (ast.Assign, ast.AugAssign, ast.Delete)):
                for t in (n.targets if isinstance(n, (ast.Assign, ast.Delete)) else [n.target]):
                    base_ = t.value if isinstance(t, ast.Subscript) else t
                    if isinstance(base_, ast.Attribute) and base_.attr in ("_list", "_dict"):
                        hit = base_
            if hit is None:
                continue
            owner = f_.cls
            if owner is not None and mm not in p.mro(owner) and not any(c_.name in ("MultiMapping",) for c_ in p.mro(owner) if isinstance(c_, ClassInfo)):
                continue  # another class's own _dict (Headers, ...)
            n_w += 1
            rep.violation("R17.5", construct(f_, text=f"changes {ast.unparse(hit)} outside the audited mutators"), where(f_, n),
                          f"{f_.fq} changes `{ast.unparse(hit)}` (`{ast.unparse(n)[:60]}`), which only the constructor and MutableMultiMapping's mutators may do: the other representation "
                          "is not updated, so keys()/len()/`in` and multi_items()/getlist() disagree afterwards")
    if n_w == 0:
        rep.ok("R17.5", "no method or function outside the constructor and the audited mutators changes _list / _dict of a multi-value mapping")
    rep.require_instances("R17.5", 1)

    # ---------------------------------------------------------------- R17.6 a query string means the same pairs as text and as bytes
    # "a query mapping and a form mapping built from the same encoded pairs expose the same views": QueryParams parses a str and a
    # bytes query (the ASGI form) with the same parser settings - blank values kept, percent-escapes unquoted with the parser's
    # default codec (UTF-8, what str(q) / urlencode produce and what the form parser uses) - the bytes are only made text first.
    qp = p.cls(f"{DS}:QueryParams")
    qinit = qp.methods.get("__init__")
    if qinit is None:
        raise AnalysisError("QueryParams.__init__ vanished")
    rep.analysed(qinit.fq)
    pcalls = []
    for f_ in with_helpers(p, qinit):
        for c in ast.walk(f_.node):
            if isinstance(c, ast.Call) and ast.unparse(c.func).split(".")[-1] in ("parse_qsl", "parse_qs"):
                pcalls.append((f_, c))
    if not pcalls:
        rep.undecide("R17.6", "QueryParams.__init__: no parse_qsl call found (query parsed in an idiom outside the table)")
    sigs = set()
    for f_, c in pcalls:
        kws = {k.arg: ast.unparse(k.value) for k in c.keywords if k.arg}
        extra_pos = [ast.unparse(a) for a in c.args[1:]]
        sigs.add((tuple(sorted(kws.items())), tuple(extra_pos)))
        codec = {k: v for k, v in kws.items() if k in ("encoding", "errors")}
        if kws.get("keep_blank_values") != "True" and extra_pos[:1] != ["True"]:
            rep.violation("R17.6", construct(f_, text="parse without keep_blank_values"), where(f_, c), "QueryParams parses a query without keep_blank_values=True: pairs with an empty value disappear from every view")
        elif codec and not (codec.get("encoding", "'utf-8'").strip("'\"").lower().replace("_", "-") in ("utf-8", "utf8") and codec.get("errors", "'replace'") == "'replace'"):
            rep.violation("R17.6", construct(f_, text=f"parse_qsl with {codec}"), where(f_, c),
                          f"QueryParams unquotes the percent-escapes of one input form with {codec}: the same encoded pairs (a=caf%C3%A9) give other text from the bytes form (ASGI query_string) "
                          "than from the str form and from a form body - QueryParams(str(q).encode()) != q")
        else:
            rep.ok("R17.6", f"QueryParams parses with {ast.unparse(c)[:70]}")
    if len(sigs) > 1:
        rep.violation("R17.6", construct(qinit, text="str and bytes parsed with different settings"), where(qinit), f"QueryParams parses its input forms with different parser settings: {sorted(sigs)}")
    rep.require_instances("R17.6", 1)  # one parse call for both input forms (the bytes only made text first) is one signature

    # ---------------------------------------------------------------- R17.7 str(q) encodes with the codec the parser unquotes with
    # "a query mapping parsed from its own string form equals itself": urlencode percent-escapes the UTF-8 bytes of the text by
    # default and parse_qsl unquotes as UTF-8 by default (R17.6 pins the parser side). An explicit other codec on the encode side
    # makes every non-ASCII pair come back as other text (or raises for text the codec cannot encode).
    qstr = qp.methods.get("__str__")
    if qstr is None:
        rep.undecide("R17.7", "QueryParams.__str__ vanished (string form produced elsewhere)")
    else:
        rep.analysed(qstr.fq)
        ecalls = []
        for f_ in with_helpers(p, qstr):
            for c in ast.walk(f_.node):
                if isinstance(c, ast.Call) and ast.unparse(c.func).split(".")[-1] in ("urlencode", "quote", "quote_plus"):
                    ecalls.append((f_, c))
        if not ecalls:
            rep.undecide("R17.7", "QueryParams.__str__: no urlencode/quote call found (string form built in an idiom outside the table)")
        for f_, c in ecalls:
            kws = {k.arg: k.value for k in c.keywords if k.arg}
            enc = kws.get("encoding")
            err = kws.get("errors")
            if enc is None and err is None:
                rep.ok("R17.7", f"{f_.fq}: `{ast.unparse(c)[:60]}` percent-escapes with the default codec (UTF-8), the one the parser unquotes with")
            elif enc is not None and not (isinstance(enc, ast.Constant) and isinstance(enc.value, str)):
                rep.undecide("R17.7", f"{f_.fq}: `{ast.unparse(c)[:60]}` encodes with a computed codec")
            elif enc is not None and enc.value.lower().replace("_", "-") not in ("utf-8", "utf8"):
                rep.violation("R17.7", construct(f_, text=f"urlencode with encoding={enc.value!r}"), where(f_, c),
                              f"str(QueryParams) percent-escapes the {enc.value} bytes of the text while the parser unquotes percent-escapes as UTF-8: a pair with a non-ASCII "
                              "character does not come back from QueryParams(str(q)) (or str(q) raises for text outside that codec)", positive=True)
            elif err is not None and not (isinstance(err, ast.Constant) and err.value == "strict"):
                rep.undecide("R17.7", f"{f_.fq}: `{ast.unparse(c)[:60]}` encodes with a non-default error handler")
            else:
                rep.ok("R17.7", f"{f_.fq}: `{ast.unparse(c)[:60]}` percent-escapes as UTF-8, the codec the parser unquotes with")
        # ... and on EVERY returning path: a path that hands out text built without the escaper (a "nothing to escape" fast path)
        # is right only when its guard admits nothing the escaper would have changed - decided as a language inclusion of the
        # guard's pattern in urlencode's always-safe set [A-Za-z0-9_.~-]*
        def _escapes(e_: ast.AST) -> bool:
            return any(isinstance(c_, ast.Call) and ast.unparse(c_.func).split(".")[-1] in ("urlencode", "quote", "quote_plus") for c_ in ast.walk(e_))

        par_ = {}
        for n_ in ast.walk(qstr.node):
            for ch_ in ast.iter_child_nodes(n_):
                par_[id(ch_)] = n_
        for r_ in [n_ for n_ in walk_shallow(qstr.node) if isinstance(n_, ast.Return) and n_.value is not None]:
            if _escapes(r_.value) or (isinstance(r_.value, ast.Call) and not isinstance(r_.value.func, ast.Attribute)) or isinstance(r_.value, ast.Name):
                continue  # escaper in place, or a helper / local the collection above already followed
            if isinstance(r_.value, ast.Constant):
                continue
            g_ = par_.get(id(r_))
            while g_ is not None and not isinstance(g_, ast.If):
                g_ = par_.get(id(g_))
            pats_ = []
            if g_ is not None:
                for nm_ in ast.walk(g_.test):
                    if isinstance(nm_, ast.Name) and nm_.id in qstr.module.constants:
                        cv_ = qstr.module.constants[nm_.id]
                        if isinstance(cv_, ast.Attribute) and cv_.attr in ("fullmatch", "match", "search") and isinstance(cv_.value, ast.Call) \
                                and ast.unparse(cv_.value.func) in ("re.compile", "compile") and cv_.value.args and isinstance(cv_.value.args[0], ast.Constant) and isinstance(cv_.value.args[0].value, str):
                            pats_.append((nm_.id, cv_.attr, cv_.value.args[0].value))
            if len({x[0] for x in pats_}) != 1:
                rep.undecide("R17.7", f"QueryParams.__str__ returns `{ast.unparse(r_.value)[:60]}` on a path that does not go through urlencode/quote, and the guard of that path is not a single compiled pattern")
                continue
            nm_, how_, pat_ = pats_[0]
            if how_ != "fullmatch":
                rep.violation("R17.7", construct(qstr, text=f"unescaped string form guarded by {nm_} = re.compile({pat_!r}).{how_}"), where(qstr, r_),
                              f"str(QueryParams) returns unescaped text when `{nm_}` ({how_}, not fullmatch) finds a match: the rest of the key/value is not constrained at all", positive=True)
                continue
            from .. import rx as _rx
            try:
                only_guard, _o, _st = _rx.compare(pat_, r"[A-Za-z0-9_.~\-]*")
            except Exception as ex_:
                rep.undecide("R17.7", f"QueryParams.__str__: the guard pattern {pat_!r} of the unescaped path is not decidable ({ex_})")
                continue
            if only_guard is None:
                rep.ok("R17.7", f"the unescaped fast path of __str__ is guarded by {pat_!r}, a subset of urlencode's always-safe set")
            else:
                rep.violation("R17.7", construct(qstr, text=f"unescaped string form guarded by re.compile({pat_!r})"), where(qstr, r_),
                              f"str(QueryParams) returns the pairs unescaped whenever every key and value matches {pat_!r}, and that pattern admits {_rx.show(only_guard)}, which urlencode "
                              "would have percent-escaped: a key containing '=' (or '&', '+', '%', '#') does not come back from QueryParams(str(q))", positive=True)
    rep.require_instances("R17.7", 1)

    # ---------------------------------------------------------------- R17.8 == compares the pair lists as multisets
    # "its observable views agree with a plain ordered list of pairs ... ==": two mappings whose pair lists differ (as multisets) are
    # different mappings - multi_items()/getlist() tell them apart. An equality that only asks whether every pair of one side
    # occurs in the other (membership, sets, the last-value dict) calls [(a,1),(a,1),(a,2)] and [(a,1),(a,2),(a,2)] equal.
    eq = mm.methods.get("__eq__")
    if eq is None:
        rep.undecide("R17.8", "MultiMapping.__eq__ vanished (equality inherited from Mapping compares the last-value view only)")
    else:
        rep.analysed(eq.fq)
        rets = [n for n in walk_shallow(eq.node) if isinstance(n, ast.Return) and n.value is not None]
        decided = False
        for r in rets:
            v = r.value
            if isinstance(v, ast.Constant) or isinstance(v, ast.Name) and v.id == "NotImplemented":
                continue
            txt = ast.unparse(v)
            lossy = None
            for n in ast.walk(v):
                if isinstance(n, ast.Call) and isinstance(n.func, ast.Name) and n.func.id in ("all", "any") and n.args and isinstance(n.args[0], ast.GeneratorExp) \
                        and isinstance(n.args[0].elt, ast.Compare) and any(isinstance(o, (ast.In, ast.NotIn)) for o in n.args[0].elt.ops):
                    lossy = "asks only whether every pair of one side occurs in the other (membership)"
                elif isinstance(n, ast.Call) and isinstance(n.func, ast.Name) and n.func.id in ("set", "frozenset") and n.args and "_list" in ast.unparse(n.args[0]):
                    lossy = "compares the pair lists as sets"
                elif isinstance(n, ast.Compare) and len(n.comparators) == 1 and all(isinstance(x, ast.Attribute) and x.attr == "_dict" for x in (n.left, n.comparators[0])):
                    lossy = "compares the last-value dicts only"
            if lossy:
                decided = True
                rep.violation("R17.8", construct(eq, text=f"== {lossy.split(' (')[0]}"), where(eq, r),
                              f"MultiMapping.__eq__ {lossy} (`{txt[:70]}`): pair lists with the same distinct pairs but other multiplicities - "
                              "[(a,1),(a,1),(a,2)] and [(a,1),(a,2),(a,2)] - compare equal although multi_items()/getlist() differ", positive=True)
                continue
            cmpn = v if isinstance(v, ast.Compare) and len(v.ops) == 1 and isinstance(v.ops[0], ast.Eq) else None
            if cmpn is not None:
                l_, r_ = ast.unparse(cmpn.left), ast.unparse(cmpn.comparators[0])
                def _shape(s: str) -> Optional[str]:
                    for wrap in ("sorted", "Counter", "collections.Counter", "list", "tuple"):
                        if s.startswith(wrap + "(") and s.endswith(")") and s[len(wrap) + 1:-1].split(".")[-1].rstrip("()") in ("_list", "multi_items"):
                            return wrap.split(".")[-1]
                    if s.split(".")[-1].rstrip("()") in ("_list", "multi_items"):
                        return "list"
                    return None
                sl, sr = _shape(l_), _shape(r_)
                if sl is not None and sl == sr:
                    decided = True
                    rep.ok("R17.8", f"MultiMapping.__eq__ compares the two pair lists with multiplicities (`{txt[:60]}`)")
                    continue
            rep.undecide("R17.8", f"MultiMapping.__eq__ returns `{txt[:70]}`, a comparison outside the idiom table (sorted/Counter/list of both pair lists)")
            decided = True
        if not decided:
            rep.undecide("R17.8", "MultiMapping.__eq__ has no comparing return statement")
    rep.require_instances("R17.8", 1)
