"""C09 - mounting preserves the full path; segment-boundary dispatch; host dispatch."""
from __future__ import annotations

import ast
from typing import List, Optional, Tuple

from ..collect import Path, callee_is, run_paths
from ..common import with_helpers, calls_in, construct, where
from ..flow import contains, subterms, NONE, Value, show
from ..loader import AnalysisError, ClassInfo, FuncInfo, Program
from ..report import Report

KEYS = {"wsgi": ("SCRIPT_NAME", "PATH_INFO"), "asgi": ("root_path", "path")}


def _is_get(v: Value, mapping: str, key: str) -> bool:
    """v == mapping.get(key, '') or mapping[key]"""
    if v[0] == "call" and v[1][0] == "attr" and v[1][2] == "get" and show(v[1][1]) == mapping and v[2] and v[2][0] == ("const", key):
        return len(v[2]) == 1 or v[2][1] == ("const", "")
    if v[0] == "sub" and show(v[1]) == mapping and v[2] == ("const", key):
        return True
    return False


def _table_order(p: Program, rep: Report, rule: str, cls: ClassInfo, search: FuncInfo, init: FuncInfo) -> Optional[str]:
    """search() iterates `self.<attr>` directly, and <attr> is built from the constructor's
    *routes in order."""
    attr = None
    for node in ast.walk(search.node):
        if isinstance(node, ast.For):
            it = node.iter
            if isinstance(it, ast.Attribute) and isinstance(it.value, ast.Name) and it.value.id == "self":
                attr = it.attr
                rep.ok(rule, f"{search.fq} iterates self.{attr} directly (table order)")
            else:
                rep.violation(rule, construct(search, text=f"for ... in {ast.unparse(it)}"), where(search, node),
                              "dispatch table is not iterated in declaration order")
                return None
    if attr is None:
        rep.undecide(rule, f"{search.fq} has no for-loop over a self attribute")
        return None
    va = init.node.args.vararg.arg if init.node.args.vararg else None
    found = False
    for node in ast.walk(init.node):
        tgt = val = None
        if isinstance(node, ast.Assign):
            tgt, val = node.targets[0], node.value
        elif isinstance(node, ast.AnnAssign):
            tgt, val = node.target, node.value
        if isinstance(tgt, ast.Attribute) and tgt.attr == attr and val is not None:
            found = True
            okv = False
            if isinstance(val, ast.List) and len(val.elts) == 1 and isinstance(val.elts[0], ast.Starred) and isinstance(val.elts[0].value, ast.Name) and val.elts[0].value.id == va:
                okv = True
            if isinstance(val, ast.Call) and isinstance(val.func, ast.Name) and val.func.id in ("list", "tuple") and len(val.args) == 1 and isinstance(val.args[0], ast.Name) and val.args[0].id == va:
                okv = True
            if isinstance(val, ast.ListComp) and len(val.generators) == 1 and isinstance(val.generators[0].iter, ast.Name) and val.generators[0].iter.id == va and not val.generators[0].ifs:
                okv = True
            if not okv and isinstance(val, ast.Name):
                # a local whose only definition is one of the copy forms above (also what the loader's normal forms make of a bare
                # `for x in routes: acc.append(x)` loop)
                from ..common import defs_of
                try:
                    ds_ = [d for d in defs_of(init, val, depth=3) if not (isinstance(d, ast.List) and not d.elts)]
                except Exception:
                    ds_ = []
                def _copy_form(d):
                    if isinstance(d, ast.List) and len(d.elts) == 1 and isinstance(d.elts[0], ast.Starred):
                        inner = d.elts[0].value
                        if isinstance(inner, ast.Name) and inner.id == va:
                            return True
                        if isinstance(inner, (ast.GeneratorExp, ast.ListComp)) and len(inner.generators) == 1 and isinstance(inner.generators[0].iter, ast.Name) and inner.generators[0].iter.id == va \
                                and not inner.generators[0].ifs and ast.unparse(inner.elt) == ast.unparse(inner.generators[0].target):
                            return True
                    if isinstance(d, ast.Call) and isinstance(d.func, ast.Name) and d.func.id in ("list", "tuple") and len(d.args) == 1 and isinstance(d.args[0], ast.Name) and d.args[0].id == va:
                        return True
                    if isinstance(d, ast.ListComp) and len(d.generators) == 1 and isinstance(d.generators[0].iter, ast.Name) and d.generators[0].iter.id == va and not d.generators[0].ifs:
                        return True
                    return False
                if ds_ and all(_copy_form(d) for d in ds_):
                    okv = True
            wrong = None
            acc_name = val.id if isinstance(val, ast.Name) else (ast.unparse(tgt) if isinstance(val, ast.List) and not val.elts else None)
            if not okv and acc_name is not None:
                # a list (a local, or the attribute itself starting empty) filled by ONE unconditional append per element of the
                # arguments, in a plain loop over them
                def _nearest_loop(n_):
                    q_ = getattr(n_, "_parent", None)
                    while q_ is not None and not isinstance(q_, (ast.For, ast.While, ast.AsyncFor)):
                        q_ = getattr(q_, "_parent", None)
                    return q_
                loops = [lp for lp in ast.walk(init.node) if isinstance(lp, ast.For) and isinstance(lp.iter, ast.Name) and lp.iter.id == va]
                muts = [c for c in ast.walk(init.node) if isinstance(c, ast.Call) and isinstance(c.func, ast.Attribute) and ast.unparse(c.func.value) == acc_name
                        and c.func.attr in ("append", "insert", "extend", "sort", "reverse", "remove", "pop")]
                other = [c for c in muts if c.func.attr != "append"]
                apps = [c for c in muts if c.func.attr == "append"]
                loops = [lp for lp in loops if any(c is x for c in apps for x in ast.walk(lp))]   # the loop(s) that fill the list
                if other:
                    wrong = f"{acc_name}.{other[0].func.attr}(...)"
                elif len(loops) == 1 and apps:
                    direct = [c for c in apps if any(isinstance(st_, ast.Expr) and st_.value is c for st_ in loops[0].body)]
                    jumps = [x for x in ast.walk(loops[0]) if isinstance(x, (ast.Break, ast.Continue)) and _nearest_loop(x) is loops[0]]
                    if len(apps) == 1 and direct and not jumps and not loops[0].orelse:
                        okv = True
                    elif len(direct) < len(apps) or jumps:
                        wrong = "an append that not every element of the arguments reaches (conditional / skipped by continue or break)"
            for c in ast.walk(val):
                if isinstance(c, ast.Call) and isinstance(c.func, ast.Name) and c.func.id in ("sorted", "reversed", "set", "frozenset", "dict"):
                    wrong = c.func.id + "(...)"
                if isinstance(c, ast.Subscript) and isinstance(c.slice, ast.Slice) and c.slice.step is not None:
                    wrong = "a stepped slice"
            if okv:
                rep.ok(rule, f"self.{attr} is built from the constructor arguments in order")
            elif wrong is not None:
                rep.violation(rule, construct(init, node), where(init, node), f"dispatch table is not an order-preserving copy of the constructor arguments ({wrong})")
            else:
                rep.undecide(rule, f"self.{attr} = {ast.unparse(val)[:50]}: how the dispatch table is copied from the constructor arguments is not in the idiom table")
    if not found:
        rep.undecide(rule, f"assignment of self.{attr} not found in {init.fq}")
    for fn in p.all_functions():
        for c in calls_in(fn):
            f = c.func
            if isinstance(f, ast.Attribute) and f.attr in ("sort", "reverse", "insert") and isinstance(f.value, ast.Attribute) and f.value.attr == attr:
                rep.violation(rule, construct(fn, c), where(fn, c), "dispatch table is re-ordered after construction")
    return attr


def run(p: Program, rep: Report, tier: str) -> None:
    rep.explanation = (
        "All clauses of C09 are structural. R9.1: on every returning path of BaseSubpaths.search the acceptance "
        "facts are `path == prefix` or `path.startswith(prefix + '/')` (segment-aware idiom table; bare "
        "startswith(prefix) is a violation), table order, None fallback. R9.2: on the match path of both "
        "Subpaths.__call__ the two stores are root' = root + P and path' = path[len(P):] with the same P that "
        "search returned and the same path that was searched, hence root'+path' = root+path symbolically. "
        "R9.3: the no-match path performs no store before Response(404). R9.4: hosts use fullmatch in table order "
        "with a 404 fallback. Path-sensitive AST dataflow over all paths of the 8 functions."
    )
    sub = p.cls("baize.routing:BaseSubpaths")
    search = p.find_method(sub, "search")
    init = p.find_method(sub, "__init__")
    if search is None or init is None:
        raise AnalysisError("BaseSubpaths.search/__init__ vanished")
    rep.analysed(search.fq, init.fq)
    _table_order(p, rep, "R9.1", sub, search, init)

    paths, col, it = run_paths(p, search, sub)
    rep.cfg_paths += len(paths)
    forms = set()
    for pa in paths:
        if pa.exit != "return":
            continue
        if pa.value == NONE:
            # acceptance tests that held on this path: a prefix test / equality on the searched path
            pos = [f for f, t in pa.facts if t and ((f[0] == "call" and f[1] == ("attr", ("param", "path"), "startswith")) or (f[0] == "cmp" and f[1] == "Eq" and ("param", "path") in (f[2], f[3])))]
            if pos:
                rep.violation("R9.1", construct(search, text="return None after accept"), where(search), "search() returns None on a path where an entry was accepted")
            continue
        v = pa.value
        if v[0] == "tuple" and len(v[1]) == 2 and v[1][0] == ("param", "path"):
            # (path, <something looked up by the whole path>): an entry answered without the in-order scan of the table
            rep.violation("R9.1", construct(search, text=f"return {show(v)[:60]}"), where(search),
                          "search() answers with an entry looked up by the whole path, outside the in-order scan of the table: with overlapping prefixes (a '' default entry first, '/a' before '/a/b') "
                          "a later entry that equals the path wins over the first entry that matches it")
            continue
        if not (v[0] == "tuple" and len(v[1]) == 2 and v[1][0][0] == "unpack" and v[1][0][1][0] == "elem"):
            rep.undecide("R9.1", f"unrecognised return value {show(v)}")
            continue
        prefix = v[1][0]
        accepted = None
        for f, t in pa.facts:
            if not t:
                continue
            if f[0] == "cmp" and f[1] == "Eq" and {f[2], f[3]} == {("param", "path"), prefix}:
                accepted = "eq"
            elif f[0] == "call" and f[1] == ("attr", ("param", "path"), "startswith") and len(f[2]) == 1:
                a = f[2][0]
                if a == ("binop", "Add", prefix, ("const", "/")):
                    accepted = "seg"
                elif a == ("fstr", (prefix, ("const", "/"))):
                    accepted = "seg"
                elif a == prefix:
                    accepted = accepted or "bare"
        if accepted == "bare":
            # startswith(prefix) AND a test of the ONE character that follows the prefix: '' (path == prefix) or '/' (a new segment)
            def _next_char(t):
                # path[len(prefix):][:1] - the rest after the prefix, then its first character
                if t[0] == "sub" and t[2][0] == "slice" and t[2][1] in (("const", None), ("const", 0)) and t[2][2] == ("const", 1) and t[1][0] == "sub" and t[1][1] == ("param", "path") \
                        and t[1][2][0] == "slice" and t[1][2][1][0] == "call" and t[1][2][1][1] == ("builtin", "len") and t[1][2][1][2] == (prefix,) and t[1][2][2] == ("const", None):
                    return True
                if not (t[0] == "sub" and t[1] == ("param", "path") and t[2][0] == "slice"):
                    return False
                lo, hi = t[2][1], t[2][2]
                ln = ("call", ("builtin", "len"), (prefix,), ())
                lo_ok = lo[0] == "call" and lo[1] == ("builtin", "len") and lo[2] == (prefix,)
                hi_ok = hi[0] == "binop" and hi[1] == "Add" and {hi[2][:3] if hi[2][0] == "call" else hi[2], hi[3][:3] if hi[3][0] == "call" else hi[3]} == {ln[:3], ("const", 1)}
                return lo_ok and hi_ok
            for f, t in pa.facts:
                if t and f[0] == "cmp" and f[1] == "Eq" and _next_char(f[2]) and f[3] in (("const", ""), ("const", "/")):
                    accepted = "eq" if f[3] == ("const", "") else "seg"
                elif t and f[0] == "cmp" and f[1] == "In" and _next_char(f[2]) and f[3][0] in ("tuple", "set", "list") and set(f[3][1]) == {("const", ""), ("const", "/")}:
                    accepted = "eq+seg"
                elif t and f[0] == "cmp" and f[1] == "In" and _next_char(f[2]) and f[3] in (("const", "/"),):
                    accepted = "eq+seg"  # '' in '/' and '/' in '/'
            if accepted == "bare":
                # ... or the same two cases stated through the prefix LENGTH: len(prefix) == len(path) (the whole path) and
                # path.startswith("/", len(prefix)) (the character at that index is the separator)
                def _is_len(t, of):
                    return t[0] == "call" and t[1] == ("builtin", "len") and t[2] == (of,)
                for f, t in pa.facts:
                    if t and f[0] == "cmp" and f[1] == "Eq" and ((_is_len(f[2], prefix) and _is_len(f[3], ("param", "path"))) or (_is_len(f[3], prefix) and _is_len(f[2], ("param", "path")))):
                        accepted = "eq"
                    elif t and f[0] == "call" and f[1] == ("attr", ("param", "path"), "startswith") and len(f[2]) == 2 and f[2][0] == ("const", "/") and _is_len(f[2][1], prefix):
                        accepted = "seg"
                    elif t and f[0] == "cmp" and f[1] == "Eq" and f[3] == ("const", "/") and f[2][0] == "sub" and f[2][1] == ("param", "path") and _is_len(f[2][2], prefix):
                        accepted = "seg"   # path[len(prefix)] == "/" (guarded by a length test elsewhere on the path)
                # ... or through the remainder `path[len(prefix):]`: empty (the whole path) / its first character is the separator
                def _rest(t):
                    return t[0] == "sub" and t[1] == ("param", "path") and t[2][0] == "slice" and _is_len(t[2][1], prefix) and t[2][2] in (("const", None),) and (len(t[2]) < 4 or t[2][3] == ("const", None))
                for f, t in pa.facts:
                    if (not t) and _rest(f):
                        accepted = "eq"      # `not path[len(prefix):]`
                    elif t and f[0] == "cmp" and f[1] == "Eq" and _rest(f[2]) and f[3] == ("const", ""):
                        accepted = "eq"
                    elif t and f[0] == "cmp" and f[1] == "Eq" and f[3] == ("const", "/") and f[2][0] == "sub" and _rest(f[2][1]) and f[2][2] == ("const", 0):
                        accepted = "seg"     # path[len(prefix):][0] == "/"
                    elif t and f[0] == "call" and f[1][0] == "attr" and f[1][2] == "startswith" and _rest(f[1][1]) and f[2] == (("const", "/"),):
                        accepted = "seg"     # path[len(prefix):].startswith("/")
                if accepted == "bare" and any(_is_len(x, prefix) for f, _t in pa.facts for x in subterms(f) if isinstance(x, tuple) and len(x) >= 3):
                    accepted = "len-form"
        if accepted == "len-form":
            rep.undecide("R9.1", "startswith(prefix) is combined with a test on len(prefix) that is not in the idiom table: " + "; ".join(pa.fact_text())[:120])
        elif accepted == "eq+seg":
            forms.update(("eq", "seg"))
            rep.ok("R9.1", "accepting path guarded by startswith(prefix) and the character that follows the prefix being '' (path == prefix)")
            rep.ok("R9.1", "accepting path guarded by startswith(prefix) and the character that follows the prefix being '/' (a new segment)")
        elif accepted in ("eq", "seg"):
            forms.add(accepted)
            rep.ok("R9.1", f"accepting path guarded by segment-aware test ({accepted}): " + "; ".join(pa.fact_text()))
        elif accepted == "bare":
            rep.violation("R9.1", construct(search, text="path.startswith(prefix)"), where(search),
                          "prefix accepted with a bare startswith(prefix): '/apix' is dispatched to the '/api' mount (not on a segment boundary)")
        else:
            rep.violation("R9.1", construct(search, text="accept: " + "; ".join(pa.fact_text())), where(search),
                          "an entry is accepted on a path that passed neither `path == prefix` nor `path.startswith(prefix + '/')`")
    if forms and forms != {"eq", "seg"}:
        missing = ({"eq", "seg"} - forms).pop()
        rep.violation("R9.1", construct(search, text=f"missing acceptance form {missing}"), where(search),
                      "the exact-prefix case (path == prefix) is never accepted" if missing == "eq" else "the sub-path case (prefix followed by '/') is never accepted")
    if not any(pa.exit == "return" and pa.value == NONE for pa in paths):
        rep.violation("R9.1", construct(search, text="fallback"), where(search), "search() never returns None")
    rep.require_instances("R9.1", 4)

    # ---------------------------------------------------------------- R9.2 / R9.3
    for side in ("wsgi", "asgi"):
        root_key, path_key = KEYS[side]
        mapping = "environ" if side == "wsgi" else "scope"
        cls = p.cls(f"baize.{side}.routing:Subpaths")
        call = p.find_method(cls, "__call__")
        rep.analysed(call.fq)
        paths, col, it = run_paths(p, call, cls)
        rep.cfg_paths += len(paths)
        seen_match = seen_none = False
        for pa in paths:
            if pa.exit != "return":
                continue
            searches = pa.calls(lambda c: callee_is(c, "BaseSubpaths.search", "search"))
            if not searches:
                rep.violation("R9.2", construct(call, text="no search"), where(call), f"{side} Subpaths.__call__ has a normal path that does not consult search()")
                continue
            s = searches[0]
            sv = ("call", s.a, s.b, s.c, s.tag)
            searched = s.b[0] if s.b else None
            stores = [e for e in pa.events if e.kind == "store" and show(e.a[1]) == mapping]
            is_none = (("cmp", "Is", sv, NONE), True) in pa.facts
            if is_none:
                seen_none = True
                if stores:
                    n, f = col.nodes[stores[0].tag]
                    rep.violation("R9.3", construct(call, n), where(call, n), f"{side}: the request is modified on the no-match path")
                else:
                    rep.ok("R9.3", f"{side}: no-match path leaves {mapping} untouched")
                invoked = [e for e in pa.events if e.kind == "call" and e.a[0] == "call" and callee_is(e.a[1], "Response") and e.a[2] and e.a[2][0] == ("const", 404)]
                if invoked:
                    rep.ok("R9.3", f"{side}: no-match -> Response(404)")
                else:
                    rep.violation("R9.3", construct(call, text="no-match branch"), where(call), f"{side}: no-match branch does not answer 404")
                continue
            seen_match = True
            P = ("unpack", sv, 0)
            if searched is None or not _is_get(searched, mapping, path_key):
                rep.violation("R9.2", construct(call, text=f"search({show(searched)})"), where(call), f"{side}: the value searched is not {mapping}[{path_key!r}]")
            want_root = None
            want_path = None
            for e in stores:
                k = e.a[2]
                if k == ("const", root_key):
                    want_root = e
                elif k == ("const", path_key):
                    want_path = e
            if want_root is None or want_path is None:
                rep.violation("R9.2", construct(call, text="match branch stores"), where(call), f"{side}: match branch does not rewrite both {root_key!r} and {path_key!r}")
                continue
            rv = want_root.b
            n_root, _ = col.nodes[want_root.tag]
            n_path, _ = col.nodes[want_path.tag]
            ok_root = rv[0] == "binop" and rv[1] == "Add" and _is_get(rv[2], mapping, root_key) and rv[3] == P
            if not ok_root and rv[0] == "fstr" and len(rv[1]) == 2 and _is_get(rv[1][0], mapping, root_key) and rv[1][1] == P:
                ok_root = True
            if ok_root:
                rep.ok("R9.2", f"{side}: {root_key}' = {show(rv)}")
            else:
                rep.violation("R9.2", construct(call, n_root), where(call, n_root), f"{side}: root path is not extended by exactly the matched prefix (got {show(rv)})")
            pv = want_path.b
            ok_path = pv[0] == "sub" and pv[1] == searched and pv[2][0] == "slice" and pv[2][2] == NONE and pv[2][3] == NONE \
                and pv[2][1][0] == "call" and pv[2][1][1] == ("builtin", "len") and pv[2][1][2] == (P,)
            if not ok_path and pv[0] == "call" and pv[1] == ("attr", searched, "removeprefix") and pv[2] == (P,):
                ok_path = True
            if ok_path:
                rep.ok("R9.2", f"{side}: {path_key}' = {show(pv)} (same P, same searched path => root'+path' = root+path)")
            else:
                rep.violation("R9.2", construct(call, n_path), where(call, n_path), f"{side}: sub-application path is not the searched path minus the matched prefix (got {show(pv)})")
            # the sub application invoked is the one search returned
            inv = [e for e in pa.events if e.kind == "call" and e.a == ("unpack", sv, 1)]
            if inv:
                rep.ok("R9.2", f"{side}: the endpoint returned by search() is invoked")
            else:
                rep.violation("R9.2", construct(call, text="endpoint"), where(call), f"{side}: the endpoint returned by search() is not the application invoked")
            # order: stores happen before the invocation
            if inv:
                idx = {id(e): i for i, e in enumerate(pa.events)}
                if not (idx[id(want_root)] < idx[id(inv[0])] and idx[id(want_path)] < idx[id(inv[0])]):
                    rep.violation("R9.2", construct(call, text="order"), where(call), f"{side}: the sub-application is invoked before the rewrite")
        if not (seen_match and seen_none):
            rep.undecide("R9.2", f"{side}: could not find both the match and the no-match path of Subpaths.__call__")
    rep.require_instances("R9.2", 6)
    rep.require_instances("R9.3", 4)

    # ---------------------------------------------------------------- R9.4 hosts
    hosts = p.cls("baize.routing:BaseHosts")
    hsearch = p.find_method(hosts, "search")
    hinit = p.find_method(hosts, "__init__")
    rep.analysed(hsearch.fq, hinit.fq)
    attr = None
    for node in ast.walk(hsearch.node):
        if isinstance(node, ast.For):
            if isinstance(node.iter, ast.Attribute) and isinstance(node.iter.value, ast.Name) and node.iter.value.id == "self":
                attr = node.iter.attr
                rep.ok("R9.4", f"hosts: search iterates self.{attr} directly")
            else:
                rep.violation("R9.4", construct(hsearch, text=f"for ... in {ast.unparse(node.iter)}"), where(hsearch, node), "host table not iterated in declaration order")
    paths, col, it = run_paths(p, hsearch, hosts)
    rep.cfg_paths += len(paths)
    got = False
    for pa in paths:
        if pa.exit == "return" and pa.value != NONE:
            pos = [f for f, t in pa.facts if t]
            negs = [f for f, t in pa.facts if not t]
            okm = False
            for f in negs:  # `pattern.fullmatch(host) is not None`  == not (x is None)
                if f[0] == "cmp" and f[1] == "Is" and f[3] == NONE and f[2][0] == "call" and f[2][1][0] == "attr":
                    meth = f[2][1][2]
                    if meth == "fullmatch" and f[2][2] == (("param", "host"),):
                        okm = True
                    elif meth in ("match", "search"):
                        rep.violation("R9.4", construct(hsearch, text=f"pattern.{meth}(host)"), where(hsearch), f"host pattern applied with .{meth}(): does not require the entire Host header to match")
                        okm = None
            for f in pos:
                if f[0] == "call" and f[1][0] == "attr" and f[1][2] in ("match", "search", "fullmatch"):
                    if f[1][2] == "fullmatch":
                        okm = True
                    else:
                        rep.violation("R9.4", construct(hsearch, text=f"pattern.{f[1][2]}(host)"), where(hsearch), f"host pattern applied with .{f[1][2]}(): does not require the entire Host header to match")
                        okm = None
            if okm:
                got = True
                rep.ok("R9.4", "hosts: entry returned only after pattern.fullmatch(host) succeeded")
            elif okm is False and any(t[0] == "call" and t[1] in (("builtin", "filter"), ("builtin", "next"), ("builtin", "map"), ("ext", "itertools.dropwhile"), ("ext", "itertools.compress")) for f, _t in pa.facts for t in subterms(f)):
                rep.undecide("R9.4", "the host entry is selected by a filter/next pipeline with a predicate object; the acceptance test is not read off it: " + "; ".join(pa.fact_text())[:100])
            elif okm is False and pa.value[0] == "sub" and pa.value[1][0] == "attr" and pa.value[1][1] == ("param", "self"):
                # an entry taken from a memo of earlier answers kept on the instance
                mkey = pa.value[2]
                if mkey == ("param", "host"):
                    rep.undecide("R9.4", f"hosts: search() answers from a memo self.{pa.value[1][2]} keyed by the Host value itself; that it only ever holds fullmatch results is not followed")
                elif contains(mkey, ("param", "host")):
                    rep.violation("R9.4", construct(hsearch, text=f"memo self.{pa.value[1][2]}[{show(mkey)[:40]}]"), where(hsearch),
                                  f"hosts: search() answers from a memo keyed by `{show(mkey)[:40]}`, not by the Host value the patterns are matched against: two Host values that the key "
                                  "identifies (API.example.com / api.example.com) share one answer although only one of them fullmatches a pattern - the first request decides whether the "
                                  "other is let in or answered 404", positive=True)
                else:
                    rep.undecide("R9.4", f"hosts: search() answers from self.{pa.value[1][2]} under a key not derived from the Host value")
            elif okm is False:
                rep.violation("R9.4", construct(hsearch, text="accept: " + "; ".join(pa.fact_text())), where(hsearch), "host entry accepted without a fullmatch of the Host header")
    if not any(pa.exit == "return" and pa.value == NONE for pa in paths):
        rep.violation("R9.4", construct(hsearch, text="fallback"), where(hsearch), "hosts search() never returns None")
    # patterns are compiled from the user's host strings without flags
    for c in calls_in(hinit, deep=True):
        if p.resolve_call(hinit, c) == ("ext", "re.compile"):
            if len(c.args) > 1 or c.keywords:
                rep.violation("R9.4", construct(hinit, c), where(hinit, c), "host patterns compiled with flags")
            else:
                rep.ok("R9.4", "host patterns compiled without flags")
    for side in ("wsgi", "asgi"):
        cls = p.cls(f"baize.{side}.routing:Hosts")
        call = p.find_method(cls, "__call__")
        rep.analysed(call.fq)
        paths, col, it = run_paths(p, call, cls)
        rep.cfg_paths += len(paths)
        ok404 = okhit = False
        for pa in paths:
            if pa.exit != "return":
                continue
            searches = pa.calls(lambda c: callee_is(c, "BaseHosts.search", "search"))
            if not searches:
                continue
            s = searches[0]
            sv = ("call", s.a, s.b, s.c, s.tag)
            if (("cmp", "Is", sv, NONE), True) in pa.facts:
                inv = [e for e in pa.events if e.kind == "call" and e.a[0] == "call" and callee_is(e.a[1], "PlainTextResponse", "Response") and ("const", 404) in e.a[2]]
                if inv:
                    ok404 = True
                else:
                    rep.violation("R9.4", construct(call, text="no-match branch"), where(call), f"{side} Hosts: unknown host is not answered with 404")
            else:
                inv = [e for e in pa.events if e.kind == "call" and e.a == sv]
                if inv:
                    okhit = True
                else:
                    rep.violation("R9.4", construct(call, text="match branch"), where(call), f"{side} Hosts: the endpoint returned by search() is not the application invoked")
            hv = show(s.b[0]) if s.b else ""
            if side == "wsgi":
                a0 = s.b[0] if s.b else None
                env_reads = [t for t in subterms(a0) if t[0] in ("call", "sub") and ((t[0] == "call" and t[1][0] == "attr" and t[1][1] == ("param", "environ")) or (t[0] == "sub" and t[1] == ("param", "environ")))] if a0 else []
                keys = sorted({(t[2][0][1] if t[0] == "call" and t[2] and t[2][0][0] == "const" else (t[2][1] if t[0] == "sub" and t[2][0] == "const" else "?")) for t in env_reads})
                handed_on = a0 is not None and any(t[0] == "call" and t[1][0] in ("func", "closure") and any(contains(x_, ("param", "environ")) for x_ in t[2]) for t in subterms(a0))
                if not keys and handed_on:
                    rep.undecide("R9.4", f"wsgi Hosts: the value searched ({hv[:60]}) comes out of a repository function that is handed environ: which keys it reads is not followed")
                elif keys != ["HTTP_HOST"]:
                    rep.violation("R9.4", construct(call, text=f"search({hv[:70]})"), where(call),
                                  f"wsgi Hosts: the value searched is computed from environ keys {keys}, not from the Host header alone: a request without a Host header is dispatched by the server's own name "
                                  "instead of being answered 404 (and differently from ASGI)")
                else:
                    rep.ok("R9.4", "wsgi Hosts: the value searched is the Host header (environ HTTP_HOST) alone")
        if ok404 and okhit:
            rep.ok("R9.4", f"{side} Hosts: 404 fallback and dispatch to the found endpoint")
        else:
            rep.undecide("R9.4", f"{side} Hosts.__call__: match / no-match paths not both found")
        if side == "asgi":
            # the ASGI side scans scope['headers'] for b'host'
            consts = [n.value for f_ in with_helpers(p, call) for n in ast.walk(f_.node) if isinstance(n, ast.Constant)]
            if b"host" in consts:
                rep.ok("R9.4", "asgi Hosts reads the b'host' header")
            else:
                rep.violation("R9.4", construct(call, text="host header"), where(call), "asgi Hosts does not read the b'host' header")
    if not got:
        rep.undecide("R9.4", "no accepting path found in BaseHosts.search")
    rep.require_instances("R9.4", 6)
    _only_mounts_move_the_path(p, rep)


PATH_KEYS = {"SCRIPT_NAME", "PATH_INFO", "root_path", "path"}


def _only_mounts_move_the_path(p: Program, rep: Report) -> None:
    """R9.5 (who-may-write): the root path / path pair of a request mapping is written by the mount dispatcher (Subpaths, the
    private helpers and holder classes it uses) and by nothing else in the package. Any other writer - a middleware that
    'restores' the pair after the inner application returned its lazy iterable, a router that normalises the path in place -
    breaks `root path + path is unchanged` for the sub-application (or for code that runs after it)."""
    from ..common import owner_of

    owners_ok = set()
    for side in ("wsgi", "asgi"):
        cls = p.cls(f"baize.{side}.routing:Subpaths")
        for m in cls.methods.values():
            owners_ok.add(m.fq)
    base = p.cls("baize.routing:BaseSubpaths")
    for m in base.methods.values():
        owners_ok.add(m.fq)
    n_ok = 0
    for fn in p.all_functions():
        writes = []
        for n in ast.walk(fn.node):
            tgts = []
            if isinstance(n, ast.Assign):
                for t in n.targets:
                    tgts += list(t.elts) if isinstance(t, (ast.Tuple, ast.List)) else [t]
            elif isinstance(n, (ast.AugAssign, ast.AnnAssign)):
                tgts = [n.target]
            elif isinstance(n, ast.Delete):
                tgts = list(n.targets)
            for t in tgts:
                if isinstance(t, ast.Subscript) and isinstance(t.slice, ast.Constant) and t.slice.value in PATH_KEYS and not (isinstance(t.value, ast.Name) and t.value.id in ("kwargs", "headers", "options", "params")):
                    writes.append((n, t.slice.value))
            if isinstance(n, ast.Call) and isinstance(n.func, ast.Attribute) and n.func.attr in ("pop", "setdefault", "__setitem__", "__delitem__") and n.args \
                    and isinstance(n.args[0], ast.Constant) and n.args[0].value in PATH_KEYS and isinstance(n.func.value, ast.Name) and n.func.value.id in ("environ", "scope", "request"):
                writes.append((n, n.args[0].value))
        if not writes:
            continue
        try:
            own = owner_of(p, fn)
        except Exception:
            own = fn
        top = own
        while top.parent is not None:
            top = top.parent
        in_mount = top.fq in owners_ok or (top.cls is not None and top.cls.name.startswith("_") and top.module.name.endswith("routing")) \
            or (top.cls is None and top.name.startswith("_") and top.module.name.endswith("routing"))
        if in_mount:
            n_ok += 1
            rep.analysed(fn.fq)
        else:
            node, key = writes[0]
            rep.violation("R9.5", construct(fn, text=f"writes {key}"), where(fn, node),
                          f"{fn.fq} writes {key!r} of a request mapping: only the mount dispatcher (Subpaths) moves a prefix between root path and path. A second writer - e.g. a middleware restoring the pair "
                          "once the inner application has returned its (lazy) iterable - makes a mounted sub-application see a root path + path that is no longer the request's")
    if not n_ok:
        # the rewrite may sit in a private helper of a routing module that receives the key names as arguments
        # (`request[root_key] = ...`): a writer with computed keys, still the mount dispatcher's own code
        for fn in p.all_functions():
            if fn.fq in owners_ok and any(isinstance(n, ast.Assign) and any(isinstance(t, ast.Subscript) and not isinstance(t.slice, ast.Constant) and isinstance(t.value, ast.Name) and t.value.id in fn.params
                                                                             for t in n.targets) for n in ast.walk(fn.node)):
                n_ok += 1  # the mount dispatcher itself, writing through key names held in class attributes (`request[self._routed_key] = ...`)
                rep.analysed(fn.fq)
                continue
            if fn.module.name.endswith("routing") and fn.name.startswith("_") and not fn.name.startswith("__") and any(
                    isinstance(n, ast.Assign) and any(isinstance(t, ast.Subscript) and isinstance(t.slice, ast.Name) and t.slice.id in fn.params and isinstance(t.value, ast.Name) and t.value.id in fn.params for t in n.targets)
                    for n in ast.walk(fn.node)):
                n_ok += 1
                rep.analysed(fn.fq)
    if n_ok:
        rep.ok("R9.5", f"the root path / path pair is written only by the mount dispatchers ({n_ok} writer functions, all of Subpaths)")
    else:
        rep.undecide("R9.5", "no writer of SCRIPT_NAME/PATH_INFO/root_path/path found (mount rewrite anchor vanished?)")
    rep.require_instances("R9.5", 1)
