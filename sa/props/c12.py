"""C12 - untrusted input never escapes as a non-HTTP error (exception-escape analysis)."""
from __future__ import annotations

import ast
from typing import Dict, FrozenSet, List, Optional, Set, Tuple

from ..common import construct, where
from ..escape import Esc, EscapeAnalysis, ancestors
from ..fold import Folder, NotConst
from ..loader import AnalysisError, ClassInfo, FuncInfo, Program, walk_shallow
from ..report import Report
from ..taint import EMPTY, Origins, TaintSpec

# keys of the gateway mappings that carry client bytes (everything else is server-provided)
UNTRUSTED_SCOPE = {"path", "raw_path", "query_string", "headers"}
UNTRUSTED_ENVIRON = {"PATH_INFO", "QUERY_STRING", "CONTENT_TYPE", "CONTENT_LENGTH", "wsgi.input", "PATH_PARAMS"}
MAPPING_NAMES = {"scope", "environ", "message", "msg"}
MAPPING_ATTRS = {"_scope", "_environ"}

# confirmed-infeasible reports (path-insensitivity of the analysis), one symbol each with its reason
INFEASIBLE = {
    ("decimal.InvalidOperation", "DecimalConvertor.to_python :: Decimal(value)"): "the operand has been matched by the convertor's own regex; C08/R8.5 decides on every run that L(regex) is inside Decimal's domain",
    ("NotADirectoryError", "FileResponse.__init__ :: os.stat(filepath)"): "Files/Pages always pass the stat_result they already obtained, so `stat_result or os.stat(filepath)` never evaluates os.stat on a client path",
    ("ValueError", "FileResponse.__init__ :: os.stat(filepath)"): "same: stat_result is always supplied on the client-reachable path",
    ("OSError", "FileResponse.__init__ :: os.stat(filepath)"): "same: stat_result is always supplied on the client-reachable path",
}


class Spec(TaintSpec):
    max_depth = 6

    def __init__(self, entry_params: Dict[str, Set[str]]) -> None:
        self.entry_params = entry_params

    def param_source(self, fn: FuncInfo, name: str) -> Optional[str]:
        if name in self.entry_params.get(fn.fq, ()):  # parameters of entry points that carry client text
            return f"{fn.name}({name})"
        return None

    def source(self, fn: FuncInfo, expr: ast.expr) -> Optional[str]:
        # scope["path"], environ.get("HTTP_X"), self["QUERY_STRING"], self._environ.items(), message["body"] ...
        base = key = None
        if isinstance(expr, ast.Subscript) and isinstance(expr.slice, ast.Constant):
            base, key = expr.value, expr.slice.value
        elif isinstance(expr, ast.Call) and isinstance(expr.func, ast.Attribute) and expr.func.attr == "get" and expr.args and isinstance(expr.args[0], ast.Constant):
            base, key = expr.func.value, expr.args[0].value
        elif isinstance(expr, ast.Call) and isinstance(expr.func, ast.Attribute) and expr.func.attr == "items" and self._is_mapping(fn, expr.func.value):
            return f"{ast.unparse(expr.func.value)}.items()"
        elif isinstance(expr, ast.Call) and isinstance(expr.func, ast.Attribute) and expr.func.attr in ("_receive",) and isinstance(expr.func.value, ast.Name) and expr.func.value.id == "self":
            return "receive()"
        elif isinstance(expr, ast.Attribute) and isinstance(expr.value, ast.Name) and expr.value.id == "self" and expr.attr == "buffer" and fn.cls is not None and fn.cls.name == "MultipartDecoder":
            return "decoder.buffer"
        if base is not None and self._is_mapping(fn, base) and isinstance(key, str):
            if key in UNTRUSTED_SCOPE or key in UNTRUSTED_ENVIRON or key.startswith("HTTP_") or key in ("body", "text", "bytes", "more_body"):
                return f"{ast.unparse(base)}[{key!r}]"
            return None
        return None

    def _is_mapping(self, fn: FuncInfo, e: ast.expr) -> bool:
        if isinstance(e, ast.Name):
            if e.id in MAPPING_NAMES:
                return True
            if e.id == "self":
                cls = fn.cls
                return cls is not None and cls.name in ("HTTPConnection", "Request", "NextRequest", "WebSocket")
        if isinstance(e, ast.Attribute) and isinstance(e.value, ast.Name) and e.value.id == "self" and e.attr in MAPPING_ATTRS:
            return True
        return False

    def sanitiser(self, fn, call, resolved) -> bool:
        if isinstance(resolved, tuple) and resolved[0] in ("ext", "builtin"):
            n = resolved[1]
            # results that are not client *text*: numbers, stat structures, percent-encoded ASCII, digests
            if n in ("int", "float", "len", "max", "min", "bool", "os.stat", "urllib.parse.quote", "hashlib.sha1", "email.utils.formatdate",
                     "stat.S_ISREG", "stat.S_ISDIR", "isinstance", "os.path.isdir", "os.path.isabs"):
                return True
        if isinstance(call.func, ast.Attribute) and call.func.attr in ("hexdigest", "timestamp"):
            return True
        return False

    def follow(self, fi: FuncInfo) -> bool:
        return True


def http_status_of(p: Program, F: Folder, name: str) -> Optional[int]:
    """Status code an HTTPException subclass constructs with (folded from its __init__)."""
    try:
        ci = p.cls(name)
    except AnalysisError:
        return None
    base = p.cls("baize.exceptions:HTTPException")
    if base not in p.mro(ci):
        return None
    init = ci.methods.get("__init__")
    if init is None or ci is base:
        return 400 if ci is not base else -1  # base class: status given at the raise site
    for n in ast.walk(init.node):
        if isinstance(n, ast.Call) and isinstance(n.func, ast.Attribute) and n.func.attr == "__init__":
            if n.args and isinstance(n.args[0], ast.Constant) and isinstance(n.args[0].value, int):
                return n.args[0].value
            kw = {k.arg: k.value for k in n.keywords}
            if "status_code" in kw and isinstance(kw["status_code"], ast.Constant):
                return kw["status_code"].value
            return 400  # default of HTTPException.__init__
    return 400


def entry_points(p: Program) -> List[Tuple[FuncInfo, Optional[ClassInfo], Set[str]]]:
    out: List[Tuple[FuncInfo, Optional[ClassInfo], Set[str]]] = []

    def m(cls_fq: str, name: str, params: Set[str] = frozenset()):
        ci = p.cls(cls_fq)
        f = p.find_method(ci, name)
        if f is None:
            raise AnalysisError(f"entry point {cls_fq}.{name} vanished")
        out.append((f, ci, set(params)))

    for side in ("wsgi", "asgi"):
        req = f"baize.{side}.requests:Request"
        for name in ("accepted_types", "accepts", "content_type", "content_length", "cookies", "date", "referrer",
                     "client", "url", "path_params", "query_params", "headers", "stream", "body", "json", "form", "close"):
            m(req, name)
        m(f"baize.{side}.responses:FileResponse", "__call__")
        for c in ("Router", "Subpaths", "Hosts"):
            m(f"baize.{side}.routing:{c}", "__call__")
        for c in ("Files", "Pages"):
            m(f"baize.{side}.staticfiles:{c}", "__call__")
    mh = p.module("baize.multipart_helper")
    for name in ("parse_stream", "parse_async_stream"):
        if name not in mh.functions:
            raise AnalysisError(f"entry point {name} vanished")
        out.append((mh.functions[name], None, {"stream", "boundary", "charset"}))
    m("baize.multipart:MultipartDecoder", "__init__", {"boundary", "charset"})
    m("baize.multipart:MultipartDecoder", "receive_data", {"data"})
    m("baize.multipart:MultipartDecoder", "next_event")
    m("baize.responses:FileResponseMixin", "parse_range", {"range_raw_line"})
    m("baize.responses:FileResponseMixin", "judge_if_range", {"if_range_raw_line"})
    m("baize.routing:Route", "matches", {"path"})
    m("baize.staticfiles:BaseFiles", "if_none_match", {"if_none_match"})
    m("baize.staticfiles:BaseFiles", "if_modified_since", {"if_modified_since"})
    m("baize.datastructures:URL", "__init__", {"url"})
    return out


POSITIVE_CONTROLS = [
    ("ValueError", "MoreInfoFromHeaderMixin.content_length", "int("),
    ("ValueError", "MoreInfoFromHeaderMixin.date", "parsedate_to_datetime("),
    ("ValueError", "BaseFiles.if_modified_since", "parsedate_to_datetime("),
    ("UnicodeDecodeError", "safe_decode", ".decode("),
    ("json.JSONDecodeError", "Request.json", "json.loads("),
]


def _origins(why: str):
    """the provenance labels of a fact-table escape (the `(data|codec|path from [...])` list of its description)"""
    import re as _re
    m = _re.search(r"from (\[.*\])\)\s*$", why)
    if not m:
        return []
    try:
        return sorted(ast.literal_eval(m.group(1)))
    except Exception:
        return [m.group(1)]


def run(p: Program, rep: Report, tier: str) -> None:
    rep.explanation = (
        "Exception-escape analysis over the call graph from the client-facing entry points (request accessors on both "
        "interfaces, form/JSON parsing, multipart decoder and helpers, range parsing, routing, static-file apps, URL "
        "construction). A raising construct is an explicit `raise` whose guard depends on client data, or an operation of a "
        "frozen, hand-confirmed stdlib fact table (decode/encode/int/float/Decimal/date/urlsplit/os.stat/json.loads/"
        "parsedate/split-unpacking/constant-table lookup) whose operand is tainted by client data (provenance through "
        "assignments, fields, properties, constructors and resolved calls). Enclosing except clauses are subtracted using "
        "the real class hierarchy. Allowed to escape: HTTPException subclasses with a 4xx status (folded from their "
        "constructors), ClientDisconnect, the documented RuntimeErrors. Everything else is reported with the raising "
        "construct and the entry points it escapes from. Positive control: five known-handled sites must be seen as handled."
    )
    rep.assume("stdlib behaviours outside the fact table are not modelled (misses possible, reports are real); assert statements used for type narrowing are not counted")
    rep.assume("server-provided gateway keys (type, scheme, server, client, SERVER_NAME, SERVER_PORT, wsgi.url_scheme, REQUEST_METHOD, root_path/SCRIPT_NAME) are trusted")
    F = Folder(p)
    eps = entry_points(p)
    entry_params = {f.fq: ps for f, _, ps in eps if ps}
    spec = Spec(entry_params)
    ea = EscapeAnalysis(p, spec)
    http_base = "baize.exceptions:HTTPException"
    by_construct: Dict[Tuple[str, str], Dict] = {}
    n_allowed = 0
    solved = ea.solve([(fn, cls) for fn, cls, ps in eps])
    rep.extra["fixpoint_rounds"] = ea.rounds
    for fn, cls, ps in eps:
        items = solved[(fn.fq, cls.fq if cls else None)]
        label = f"{(cls.fq + '.' + fn.name) if cls else fn.fq}"
        rep.analysed(label)
        for it in items:
            anc = ancestors(p, it.exc)
            ok = False
            if http_base in anc:
                st = http_status_of(p, F, it.exc)
                if st == -1:
                    ok = True  # HTTPException(<code>) raised directly: code checked below
                elif st is not None and 400 <= st < 500:
                    ok = True
                else:
                    ok = False
            elif it.exc.endswith(":ClientDisconnect"):
                ok = True
            elif it.exc == "RuntimeError" and it.kind == "raise":
                ok = True  # "Stream consumed" / "Cannot read request body in middleware." / lifespan: documented
            elif it.exc == "NotImplementedError" and it.kind == "raise":
                ok = True
            if ok:
                n_allowed += 1
                continue
            short = it.construct.split(":", 1)[1] if ":" in it.construct else it.construct
            if any(short.endswith(k[1]) or k[1] in it.construct for k in INFEASIBLE if k[0] == it.exc):
                rep.observe(f"suppressed (confirmed infeasible): {it.exc} at {it.construct}")
                continue
            d = by_construct.setdefault((it.exc, it.construct), {"item": it, "entries": [], "origins": set()})
            if label not in d["entries"]:
                d["entries"].append(label)
            d["origins"].update(_origins(it.why))
    rep.call_sites = ea.call_sites
    for f in sorted(ea.functions):
        rep.analysed(f)
    rep.extra["fact_points_with_tainted_operand"] = ea.fact_points
    rep.extra["entry_points"] = len(eps)
    rep.extra["allowed_escapes_seen"] = n_allowed
    for (exc, cons), d in sorted(by_construct.items()):
        it: Esc = d["item"]
        if any(str(o_).startswith("~") for o_ in d["origins"]) or "~*-spread" in it.why:
            # the operand is client-derived only if the tainted ELEMENT of a `f(*seq)` call is the one bound to this parameter, which
            # the taint analysis could not tell (seq comes out of a function / is built element by element elsewhere)
            rep.undecide("R12.1", f"{exc} at {cons}: the operand counts as client-derived only through an imprecise `*sequence` argument binding ({it.why[:120]})")
            continue
        rep.violation("R12.1", f"{cons} -> {exc}", it.where,
                      f"{exc} can escape to the caller: {it.why}", escapes_from=sorted(d["entries"]), operation=it.op, exception=exc, origins=sorted(d["origins"]))
    # every (entry point) with no disallowed escape is one discharged obligation
    bad_entries = {e for d in by_construct.values() for e in d["entries"]}
    for fn, cls, ps in eps:
        label = f"{(cls.fq + '.' + fn.name) if cls else fn.fq}"
        if label not in bad_entries:
            rep.ok("R12.1", f"{label}: only 4xx HTTP exceptions / documented errors can escape")
    rep.require_instances("R12.1", 40)
    # direct HTTPException(<code>) raises must carry a 4xx constant
    for fn in p.all_functions():
        for n in walk_shallow(fn.node):
            if isinstance(n, ast.Raise) and isinstance(n.exc, ast.Call) and isinstance(n.exc.func, ast.Name) and n.exc.func.id == "HTTPException":
                a = n.exc.args[0] if n.exc.args else None
                if isinstance(a, ast.Constant) and isinstance(a.value, int) and 400 <= a.value < 500:
                    rep.ok("R12.1", f"{fn.fq}: raise HTTPException({a.value})")
                elif a is not None:
                    rep.violation("R12.1", construct(fn, n), where(fn, n), "HTTPException raised with a non-4xx / non-constant status on a client-input path")
    # R12.2 positive controls
    for exc, owner, text in POSITIVE_CONTROLS:
        hit = [c for (e, c) in ea.caught if e == exc and owner in c and text in c]
        if not hit:
            # the handled statement may have moved into a helper / another module: the same operation, handled, anywhere
            hit = [c for (e, c) in ea.caught if e == exc and text in c]
        if hit:
            rep.ok("R12.2", f"handled site recognised: {hit[0]} ({exc} caught)")
        else:
            rep.undecide("R12.2", f"positive control lost: no caught {exc} at {owner} / {text} (engine no longer sees a handled site it must see)")
    rep.require_instances("R12.2", 5)
