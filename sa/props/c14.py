"""C14 - conditional requests never yield a stale 304 and always revalidate a fresh copy."""
from __future__ import annotations

import ast
from typing import List, Optional

from ..collect import Path, callee_is, run_paths
from ..common import calls_in, construct, norm_guards, where, with_helpers
from ..flow import NONE, Value, contains, show, subterms
from ..loader import AnalysisError, ClassInfo, FuncInfo, Program, walk_shallow
from ..report import Report


def _mentions_weak(v: Value) -> bool:
    return any(t[0] == "const" and isinstance(t[1], str) and t[1] in ("W/", 'W/"') for t in subterms(v))


def run(p: Program, rep: Report, tier: str) -> None:
    rep.explanation = (
        "Structural necessary conditions of C14, decided on all paths of file_response / if_none_match / if_modified_since / "
        "generate_etag / generate_common_headers: (R14.1) the ETag that is compared is generate_etag of the same stat_result that "
        "is handed to FileResponse, whose etag header comes from the same function, and the digest depends on both st_mtime and "
        "st_size; (R14.2) the If-Modified-Since operand is st_mtime or st_ctime and both sides of <= are truncated with int(); "
        "(R14.3) RFC 7232 section 6 precedence: on every 304 path that relied on If-Modified-Since, If-None-Match is known to be "
        "absent; (R14.4) weak-prefix and quote stripping is applied per list member, '*' short-circuits, empty never matches; "
        "(R14.5) the 304 branch builds Response(304) and never a FileResponse. NOT decided: histories over a file clock."
    )
    rep.assume("validators of an earlier response are ETag = quoted generate_etag(stat) and Last-Modified = formatdate(st_mtime)")
    base = p.cls("baize.staticfiles:BaseFiles")
    mixin = p.cls("baize.responses:FileResponseMixin")

    # ---------------------------------------------------------------- R14.1 writer side
    ge = mixin.methods.get("generate_etag")
    gch = mixin.methods.get("generate_common_headers")
    if ge is None or gch is None:
        raise AnalysisError("generate_etag / generate_common_headers vanished")
    rep.analysed(ge.fq, gch.fq)
    paths, col, it = run_paths(p, ge, mixin)
    for pa in paths:
        if pa.exit != "return":
            continue
        v = pa.value
        SR = ("param", "stat_result")
        # what the returned value is computed from: its own term, plus whatever was fed into the object it is derived from
        # by method calls on the way (`h = sha1(); h.update(<text>); return h.hexdigest()`)
        fed = [v]
        for e in pa.events:
            if e.kind == "call" and e.a[0] == "attr" and e.a[2] in ("update", "write", "append", "extend") and contains(v, e.a[1]):
                fed += list(e.b or ())
        has_m = any(contains(x, ("attr", SR, "st_mtime")) or contains(x, ("attr", SR, "st_mtime_ns")) for x in fed)
        has_s = any(contains(x, ("attr", SR, "st_size")) for x in fed)
        # getattr(stat_result, <name taken from a literal table of field names>): the table's names are the attributes read
        for x in fed:
            for t in subterms(x):
                if t[0] == "call" and t[1] == ("builtin", "getattr") and len(t[2]) >= 2 and t[2][0] == SR:
                    names_ = {c_[1] for c_ in subterms(t[2][1]) if c_[0] == "const" and isinstance(c_[1], str)}
                    has_m = has_m or bool(names_ & {"st_mtime", "st_mtime_ns"})
                    has_s = has_s or "st_size" in names_
        # ... and depends on them LOSSLESSLY: a float mtime rendered with a precision-limiting format / truncated to int no
        # longer distinguishes modifications that str()/repr() (round-trip exact) does
        lossy = None
        for x in fed:
            for t in subterms(x):
                if t[0] == "fmt" and t[3] and contains(t[1], ("attr", SR, "st_mtime")):
                    lossy = f"format spec {t[3]!r}"
                elif t[0] == "call" and t[1] in (("builtin", "int"), ("builtin", "round"), ("ext", "math.floor"), ("ext", "math.trunc")) and t[2] and contains(t[2][0], ("attr", SR, "st_mtime")):
                    lossy = f"{t[1][1]}()"
                elif t[0] == "binop" and t[1] == "Mod" and t[2][0] == "const" and isinstance(t[2][1], str) and contains(t[3], ("attr", SR, "st_mtime")) \
                        and any(d in t[2][1] for d in ("%d", "%i", "%f", "%g", "%e", "%.", "%x")):
                    lossy = f"%-format {t[2][1]!r}"
        if has_m and has_s and lossy:
            rep.violation("R14.1", construct(ge, text=f"etag input: st_mtime through {lossy}"), where(ge),
                          f"the ETag is computed from st_mtime rendered through {lossy}: the modification time loses precision (e.g. '{{:g}}' keeps 6 significant digits - every "
                          "present-day mtime renders alike), so a rewrite that keeps the size keeps the validator (stale 304)")
        elif has_m and has_s:
            rep.ok("R14.1", f"ETag depends on st_mtime and st_size: {show(v)[:90]}")
        else:
            missing = [n for n, h in (("st_mtime", has_m), ("st_size", has_s)) if not h]
            rep.violation("R14.1", construct(ge, text=f"etag input without {missing}"), where(ge),
                          f"the ETag does not depend on {missing}: a modification that changes only that attribute keeps the validator (stale 304)")
    paths, col, it = run_paths(p, gch, mixin)
    etag_ok = lm_ok = False
    for pa in paths:
        if pa.exit != "return":
            continue
        for t in subterms(pa.value):
            if t[0] == "dict":
                for k, v in t[1]:
                    if k == ("const", "etag"):
                        inner = [x for x in subterms(v) if x[0] == "call" and callee_is(x[1], "generate_etag")]
                        if v[0] == "fstr" and v[1][0] == ("const", '"') and v[1][-1] == ("const", '"') and inner and inner[0][2] == (("param", "stat_result"),):
                            etag_ok = True
                        else:
                            rep.violation("R14.1", construct(gch, text=f"etag: {show(v)[:60]}"), where(gch), "the emitted ETag header is not the quoted generate_etag(stat_result)")
                    if k == ("const", "last-modified"):
                        if v[0] == "call" and v[1] == ("ext", "email.utils.formatdate") and v[2] and v[2][0] == ("attr", ("param", "stat_result"), "st_mtime") and dict(v[3]).get("usegmt") == ("const", True):
                            lm_ok = True
                        else:
                            # formatdate() of a ROUNDED-UP time is recognised positively (also through a helper): the header may then name a
                            # later second than the modification, and if_modified_since (int(ctime) <= that second) keeps answering 304 for a
                            # rewrite that happens within it
                            MT_ = ("attr", ("param", "stat_result"), "st_mtime")
                            up_ = v[0] == "call" and v[1] == ("ext", "email.utils.formatdate") and v[2] and v[2][0][0] == "call" \
                                and v[2][0][1] in (("builtin", "round"), ("ext", "math.ceil")) and v[2][0][2][:1] == (MT_,)
                            if not up_ and v[0] == "call" and v[1][0] == "func" and MT_ in v[2]:
                                # one level through a repository helper called with the modification time: `return formatdate(round(<that parameter>), ...)`
                                try:
                                    hf_ = p.func(v[1][1])
                                    prm_ = [a_.arg for a_ in hf_.node.args.posonlyargs + hf_.node.args.args if a_.arg not in ("self", "cls")]
                                    pn_ = prm_[v[2].index(MT_)]
                                    rets_ = [n_ for n_ in walk_shallow(hf_.node) if isinstance(n_, ast.Return) and n_.value is not None]
                                    up_ = len(rets_) == 1 and isinstance(rets_[0].value, ast.Call) and ast.unparse(rets_[0].value.func).split(".")[-1] == "formatdate" and rets_[0].value.args \
                                        and isinstance(rets_[0].value.args[0], ast.Call) and ast.unparse(rets_[0].value.args[0].func) in ("round", "math.ceil", "ceil") \
                                        and [ast.unparse(a_) for a_ in rets_[0].value.args[0].args] == [pn_]
                                except Exception:
                                    up_ = False
                            rep.violation("R14.1", construct(gch, text=f"last-modified: {show(v)[:60]}"), where(gch),
                                          "Last-Modified is formatdate() of the modification time ROUNDED UP to a later second: a rewrite during that second still satisfies If-Modified-Since (stale 304)" if up_
                                          else "Last-Modified is not formatdate(stat_result.st_mtime, usegmt=True)", positive=bool(up_))
    if etag_ok:
        rep.ok("R14.1", 'emitted etag = \'"\' + generate_etag(stat_result) + \'"\'')
    else:
        rep.undecide("R14.1", "etag header not found in generate_common_headers")
    if lm_ok:
        rep.ok("R14.1", "emitted last-modified = formatdate(stat_result.st_mtime, usegmt=True)")

    # ---------------------------------------------------------------- reader side: both file_response
    for side in ("wsgi", "asgi"):
        fcls = p.cls(f"baize.{side}.staticfiles:Files")
        fr = p.find_method(fcls, "file_response")
        rep.analysed(fr.fq)
        paths, col, it = run_paths(p, fr, fcls, inline=_sf_inline)
        rep.cfg_paths += len(paths)
        SR = ("param", "stat_result")
        n304 = nfile = 0
        for pa in paths:
            if pa.exit != "return":
                continue
            inm = [e for e in pa.events if e.kind == "call" and callee_is(e.a, "if_none_match")]
            ims = [e for e in pa.events if e.kind == "call" and callee_is(e.a, "if_modified_since")]
            made304 = [e for e in pa.events if e.kind == "call" and callee_is(e.a, "Response") and e.b and e.b[0] == ("const", 304)]
            madefile = [e for e in pa.events if e.kind == "call" and callee_is(e.a, "FileResponse") and e.a[0] == "cls"]
            for e in inm:
                tag = e.b[0] if e.b else None
                if tag is not None and tag[0] == "call" and callee_is(tag[1], "generate_etag") and tag[2] == (SR,):
                    rep.ok("R14.1", f"{side}: compared tag = generate_etag(stat_result) of the response's own stat_result")
                else:
                    node, f = col.nodes[e.tag]
                    rep.violation("R14.1", construct(fr, node), where(fr, node), f"{side}: the tag compared with If-None-Match is not generate_etag of the stat_result that is served")
                if len(e.b) < 2 or e.b[1] != ("param", "if_none_match"):
                    node, f = col.nodes[e.tag]
                    rep.violation("R14.1", construct(fr, node), where(fr, node), f"{side}: if_none_match() is not given the If-None-Match header value")
            for e in ims:
                op = e.b[0] if e.b else None
                if op is not None and op[0] == "attr" and op[1] == SR and op[2] in ("st_mtime", "st_ctime"):
                    rep.ok("R14.2", f"{side}: If-Modified-Since is compared with stat_result.{op[2]}")
                else:
                    node, f = col.nodes[e.tag]
                    rep.violation("R14.2", construct(fr, node), where(fr, node),
                                  f"{side}: If-Modified-Since is compared with {show(op) if op else '?'} - not a modification/change timestamp of the served stat_result (stale 304 after a later change)")
            matched = any(t and f[0] == "call" and callee_is(f[1], "if_none_match", "if_modified_since") for f, t in pa.facts) or \
                any(t and any(x[0] == "call" and callee_is(x[1], "if_none_match", "if_modified_since") for x in subterms(f)) for f, t in pa.facts if f[0] in ("ifexp", "or", "and"))
            if matched and not made304:
                rep.violation("R14.5", construct(fr, text="validator matched but no Response(304)"), where(fr), f"{side}: a path on which a validator matched does not answer with the body-less Response(304)")
                n304 += 1
            if made304:
                n304 += 1
                if madefile:
                    node, f = col.nodes[madefile[0].tag]
                    rep.violation("R14.5", construct(fr, node), where(fr, node), f"{side}: a FileResponse is constructed on a 304 path")
                else:
                    rep.ok("R14.5", f"{side}: 304 path builds Response(304) and no FileResponse")
                # which validator decided?
                inm_true = any(t and f[0] == "call" and callee_is(f[1], "if_none_match") for f, t in pa.facts)
                ims_true = any(t and f[0] == "call" and callee_is(f[1], "if_modified_since") for f, t in pa.facts)
                if not inm_true and not ims_true:
                    node, f = col.nodes[made304[0].tag]
                    rep.violation("R14.3", construct(fr, node), where(fr, node), f"{side}: 304 is answered on a path where no validator matched")
                if ims_true and not inm_true:
                    absent = (("param", "if_none_match"), False) in pa.facts or (("cmp", "Eq", ("param", "if_none_match"), ("const", "")), True) in pa.facts
                    if absent:
                        rep.ok("R14.3", f"{side}: If-Modified-Since decides only when If-None-Match is absent")
                    else:
                        rep.violation("R14.3", construct(fr, text="if_none_match(...) or if_modified_since(...)"), where(fr),
                                      f"{side}: If-Modified-Since can produce a 304 although an If-None-Match header is present and did not match (RFC 7232 section 6): "
                                      "a same-second rewrite with a different size is answered 304",
                                      path_facts=pa.fact_text(),
                                      # a path that has EVALUATED if_none_match(...) to false and if_modified_since(...) to true, with no other test of the
                                      # header on it, is a positively recognised construct (it contains the runs with a present, non-matching header) -
                                      # also when the expression moved into a shared helper; without that fact the finding is an absence and may be demoted
                                      positive=any((not t) and f[0] == "call" and callee_is(f[1], "if_none_match") for f, t in pa.facts)
                                      and not any(("param", "if_none_match") in list(subterms(f)) and not (f[0] == "call" and callee_is(f[1], "if_none_match")) for f, t in pa.facts))
            if madefile:
                nfile += 1
                kw = dict(madefile[0].c)
                if kw.get("stat_result") != SR:
                    node, f = col.nodes[madefile[0].tag]
                    rep.violation("R14.1", construct(fr, node), where(fr, node), f"{side}: the FileResponse is not built with the stat_result whose validators were compared")
        if n304 == 0 or nfile == 0:
            rep.undecide("R14.5", f"{side}: file_response lacks a 304 path or a file path")
        # the request headers handed to file_response
        for cname in ("Files", "Pages"):
            cls = p.cls(f"baize.{side}.staticfiles:{cname}")
            call = p.find_method(cls, "__call__")
            want = {"wsgi": ("HTTP_IF_NONE_MATCH", "HTTP_IF_MODIFIED_SINCE"), "asgi": (b"if-none-match", b"if-modified-since")}[side]
            unit = with_helpers(p, call, policy=_sf_inline)
            consts = [n.value for f_ in unit for n in ast.walk(f_.node) if isinstance(n, ast.Constant)]
            # ... and in the module-level tables those functions read (header name -> field tables)
            for f_ in unit:
                for n in ast.walk(f_.node):
                    if isinstance(n, ast.Name) and isinstance(n.ctx, ast.Load) and n.id in f_.module.constants:
                        consts += [c_.value for c_ in ast.walk(f_.module.constants[n.id]) if isinstance(c_, ast.Constant)]
            if all(w in consts for w in want):
                rep.ok("R14.1", f"{side} {cname}: reads If-None-Match and If-Modified-Since")
            else:
                rep.violation("R14.1", construct(call, text="validator headers"), where(call), f"{side} {cname}.__call__ does not read both If-None-Match and If-Modified-Since")

            # ... and hands them to file_response unmodified.
            # (a) on the paths of __call__ (private helpers inlined) the two validator arguments of file_response are the header
            #     read itself - WSGI: environ.get(KEY, "") ; ASGI: the decoded value of a scope['headers'] pair, or the "" default
            cpaths, ccol, _cit = run_paths(p, call, cls, inline=_sf_inline)
            rep.cfg_paths += len(cpaths)

            def _opaque_read(a_, gate_):
                """the argument comes out of a repository function that was handed the gateway mapping (a header-picking helper in
                another module), or out of a container filled in a loop: derived from the request, but not followable here"""
                for t_ in subterms(a_):
                    if t_[0] == "call" and t_[1][0] in ("func", "closure") and any(contains(x_, gate_) for x_ in t_[2]):
                        return True
                    if t_[0] in ("mut", "loopvar"):
                        return True
                return False
            gate = ("param", call.params[1]) if len(call.params) > 1 else ("param", "environ" if side == "wsgi" else "scope")
            n_frc = 0
            for pos, what, key in ((2, "If-None-Match", want[0]), (3, "If-Modified-Since", want[1])):
                seen_read = False
                bad_arg = None
                unknown_arg = None
                for pa in cpaths:
                    for e in pa.events:
                        if not (e.kind == "call" and callee_is(e.a, "file_response")):
                            continue
                        n_frc += 1
                        if any(x_[0] == "star" for x_ in e.b):
                            unknown_arg = ", ".join(show(x_)[:40] for x_ in e.b if x_[0] == "star")  # *args of a value the engine could not expand
                            continue
                        if len(e.b) <= pos:
                            bad_arg = (e, None)
                            continue
                        a = e.b[pos]
                        if side == "wsgi":
                            okr = a[0] == "call" and a[1] == ("attr", gate, "get") and a[2] and a[2][0] == ("const", key) and (len(a[2]) == 1 or a[2][1] == ("const", ""))
                            okr = okr or (a[0] == "sub" and a[1] == gate and a[2] == ("const", key))
                            # `environ[K] if K in environ else ""`: the default on the path where the key is absent
                            okr = okr or (a == ("const", "") and any(t is False and f[0] == "cmp" and f[1] == "In" and f[2] == ("const", key) and f[3] == gate for f, t in pa.facts))
                            if okr:
                                seen_read = True
                            elif a[0] != "const" and contains(a, gate) and (a[0] in ("unpack", "unpack*", "star", "top") or any(t[0] in ("star", "unpack*", "top") or (t[0] == "call" and any(k_ == "**" for k_, _v in t[3])) for t in subterms(a))):
                                unknown_arg = show(a)[:60]  # computed from the request in a way the term language does not follow (**mapping, star)
                            elif a[0] != "const" and _opaque_read(a, gate):
                                unknown_arg = show(a)[:60]
                            else:
                                bad_arg = (e, a)
                        else:
                            reads = any(t[0] == "elem" and contains(t, gate) for t in subterms(a))
                            if reads:
                                seen_read = True
                            elif a[0] != "const" and contains(a, gate) and any(t[0] in ("star", "unpack*", "top") or (t[0] == "call" and any(k_ == "**" for k_, _v in t[3])) for t in subterms(a)):
                                unknown_arg = show(a)[:60]
                            elif a[0] != "const" and _opaque_read(a, gate):
                                unknown_arg = show(a)[:60]
                            elif a != ("const", ""):
                                bad_arg = (e, a)
                if bad_arg is not None:
                    e, a = bad_arg
                    node, _f = ccol.nodes.get(e.tag, (None, call))
                    if a is None:
                        rep.violation("R14.1", construct(call, text=f"file_response without the {what} value"), where(call, node), f"{side} {cname}: file_response is not given the {what} header value")
                    else:
                        rep.violation("R14.1", construct(call, text=f"{what} argument {show(a)[:50]}"), where(call, node), f"{side} {cname}: the {what} value handed to file_response is not the request header")
                elif unknown_arg is not None:
                    rep.undecide("R14.1", f"{side} {cname}: the {what} argument of file_response ({unknown_arg}) is derived from the request through a construct the analysis does not follow")
                elif not seen_read and n_frc:
                    rep.violation("R14.1", construct(call, text=f"{what} never read"), where(call), f"{side} {cname}: the {what} value handed to file_response is never read from the request")
                elif n_frc:
                    rep.ok("R14.1", f"{side} {cname}: the {what} value reaches file_response as read from the request")
            if not n_frc:
                rep.undecide("R14.1", f"{side} {cname}.__call__: no file_response(...) call")
            # (b) no later overwrite: a local that receives a header value anywhere in __call__ or its helpers has no other
            #     definition than the "" default that precedes the read (blanking the validators for some configuration means an
            #     unchanged file never revalidates; on the ASGI side the paths cannot tell a blanked value from an absent header)
            for f_ in unit:
                names_ = {}
                for n in ast.walk(f_.node):
                    tg_val = []
                    if isinstance(n, ast.Assign):
                        tg_val = [(x.id, n.value, n) for t in n.targets for x in ast.walk(t) if isinstance(x, ast.Name) and isinstance(x.ctx, ast.Store)]
                    elif isinstance(n, (ast.AnnAssign, ast.AugAssign)) and isinstance(n.target, ast.Name) and n.value is not None:
                        tg_val = [(n.target.id, n.value, n)]
                    elif isinstance(n, ast.NamedExpr):
                        tg_val = [(n.target.id, n.value, n)]
                    for nm, v, st_ in tg_val:
                        names_.setdefault(nm, []).append((st_.lineno, v, st_))
                for nm, defs in names_.items():
                    defs.sort(key=lambda d: d[0])
                    first_hdr = next((ln_ for ln_, v, n in defs if _header_derived(v, f_, side)), None)
                    if first_hdr is None:
                        continue
                    # only the validator values matter: the definition mentions one of the two header names, or sits under a test of one
                    if not any(isinstance(x, ast.Constant) and x.value in want for ln_, v, n in defs for x in list(ast.walk(v)) + [y for g_, _p in norm_guards(n, f_.node) for y in ast.walk(g_)]):
                        continue
                    bad = [(ln_, v, n) for ln_, v, n in defs if not _header_derived(v, f_, side) and not (isinstance(v, ast.Constant) and v.value == "" and ln_ < first_hdr)]
                    if bad:
                        ln_, v, n = bad[0]
                        rep.violation("R14.1", construct(call, text=f"validator overwritten: {' '.join(ast.unparse(n).split())[:70]}"), where(f_, n),
                                      f"{side} {cname}: a validator value read from the request is overwritten before it reaches file_response: a request carrying the validators of an unchanged file is "
                                      "answered with a full 200 instead of 304")

    # ---------------------------------------------------------------- R14.2 inside if_modified_since
    ims = base.methods.get("if_modified_since")
    rep.analysed(ims.fq)
    paths, col, it = run_paths(p, ims, base, inline=_sf_inline, raises=lambda c, i, callee, node: ["ValueError"] if ("parsedate" in show(callee) or "timestamp" in show(callee)) else [])
    found_cmp = False
    for pa in paths:
        if pa.exit == "raise":
            rep.observe(f"if_modified_since lets {pa.value} escape (C12)")
            continue
        v = pa.value
        if v == ("const", False):
            continue
        if v[0] == "cmp" and v[1] in ("LtE",):
            a, b = v[2], v[3]
            oka = a[0] == "call" and a[1] == ("builtin", "int") and a[2] == (("param", "last_modified"),)
            okb = b[0] == "call" and b[1] == ("builtin", "int") and any(t[0] == "call" and t[1] == ("ext", "email.utils.parsedate_to_datetime") and t[2] == (("param", "if_modified_since"),) for t in subterms(b))
            if oka and okb:
                found_cmp = True
                rep.ok("R14.2", "unmodified <=> int(last_modified) <= int(parsedate(If-Modified-Since).timestamp()) (one-second granularity on both operands)")
            elif oka and b[0] == "call" and b[1] == ("builtin", "int") and any(t[0] == "call" and t[1][0] in ("func", "closure") and any(contains(x_, ("param", "if_modified_since")) for x_ in t[2]) for t in subterms(b)):
                found_cmp = True
                rep.undecide("R14.2", f"the header date is parsed by a repository helper ({show(b)[:60]}): that it is parsedate_to_datetime(...).timestamp() is not followed")
            else:
                rep.violation("R14.2", construct(ims, text=f"return {show(v)[:90]}"), where(ims), "the comparison does not truncate both operands to whole seconds / does not use the parsed header date")
        elif v[0] == "cmp":
            rep.violation("R14.2", construct(ims, text=f"return {show(v)[:90]}"), where(ims), f"If-Modified-Since is decided with '{v[1]}' instead of last_modified <= header date")
            found_cmp = True
        elif v == ("const", True):
            rep.violation("R14.2", construct(ims, text="return True"), where(ims), "if_modified_since reports 'not modified' without comparing timestamps")
    if not found_cmp:
        rep.undecide("R14.2", "no timestamp comparison found in if_modified_since")

    # ---------------------------------------------------------------- R14.4 inside if_none_match
    inm = base.methods.get("if_none_match")
    rep.analysed(inm.fq)
    paths, col, it = run_paths(p, inm, base)
    star = empty = member = False
    HDR = ("param", "if_none_match")
    for pa in paths:
        if pa.exit != "return":
            continue
        v = pa.value
        pos = [f for f, t in pa.facts if t]
        neg = [f for f, t in pa.facts if not t]
        if (v == ("const", True) or v == ("cmp", "Eq", HDR, ("const", "*"))) and ("cmp", "Eq", HDR, ("const", "*")) in pos:
            star = True  # `return True` under the test, or `return header == "*" or ...` on the path where the first operand holds
            continue
        if v[0] == "or" and v[1] and v[1][0] == ("cmp", "Eq", HDR, ("const", "*")):
            star = True  # `return header == "*" or <member test>`: the first operand short-circuits
        if v == ("const", False) and HDR in neg and len(pa.facts) == 1:
            empty = True
            continue
        # member comparison: any(... etag == f(elem(split))) or a loop returning True on etag == f(elem)
        cmps = [t for t in subterms(v) if t[0] == "cmp" and t[1] == "Eq" and ("param", "etag") in (t[2], t[3])]
        cmps += [f for f in pos if f[0] == "cmp" and f[1] == "Eq" and ("param", "etag") in (f[2], f[3])]
        if not cmps:
            continue
        for c in cmps:
            other = c[3] if c[2] == ("param", "etag") else c[2]
            elems = [t for t in subterms(other) if t[0] == "elem"]
            if not elems:
                rep.violation("R14.4", construct(inm, text=f"etag == {show(other)[:60]}"), where(inm), "the ETag is compared with the whole header instead of its comma-separated members")
                continue
            member = True
            src = elems[0][1]
            # members may pass through intermediate generators ((m.strip() for m in header.split(","))): follow them to the
            # split and keep their per-member transformations
            stages = [other]
            while src[0] == "comp":
                stages.append(src[2])
                src = src[3]
            split_recv = src[1][1] if (src[0] == "call" and src[1][0] == "attr" and src[1][2] == "split") else None
            if split_recv is None and src[0] in ("obj", "gen", "call") and not (src[0] == "call" and src[1][0] == "attr" and src[1][2] in ("split", "rsplit", "partition", "splitlines")):
                rep.undecide("R14.4", f"the members come out of {show(src)[:60]} (an iterator object / helper): how the header is split is not followed")
                continue
            if split_recv is None or src[2] != (("const", ","),):
                rep.violation("R14.4", construct(inm, text=f"members of {show(src)[:60]}"), where(inm), "the header is not split on ',' into members")
                continue
            per_member_weak = any(_mentions_weak(x_) for x_ in stages) or any(_mentions_weak(f) and any(t[0] == "elem" for t in subterms(f)) for f, _ in pa.facts)
            whole_weak = split_recv != HDR
            quotes = any(t[0] == "call" and t[1][0] == "attr" and t[1][2] == "strip" and t[2] == (("const", '"'),) for x_ in stages for t in subterms(x_))
            # the members of a ','-split still carry the blank that follows the comma: the weak-prefix test has to look at the
            # whitespace-stripped member, or `W/"a", W/"b"` only ever matches through its first member
            weak_recvs = []
            for x_ in list(stages) + [f for f, _ in pa.facts]:
                for t in subterms(x_):
                    if t[0] == "call" and t[1][0] == "attr" and t[1][2] in ("startswith", "removeprefix") and t[2] and _mentions_weak(t[2][0]):
                        weak_recvs.append(t[1][1])
                    elif t[0] == "cmp" and t[1] in ("Eq", "NotEq") and _mentions_weak(t[3]) and t[2][0] == "sub":
                        weak_recvs.append(t[2][1])
            unstripped = [r for r in weak_recvs if any(u[0] == "elem" for u in subterms(r))
                          and not any(u[0] == "call" and u[1][0] == "attr" and u[1][2] in ("strip", "lstrip") and not u[2] for u in subterms(r))]
            if unstripped and not whole_weak:
                rep.violation("R14.4", construct(inm, text="weak prefix tested before the member is stripped"), where(inm),
                              f"the weak prefix 'W/' is looked for on {show(unstripped[0])[:60]} - a member of the ','-split that still carries the blank after the comma: in `W/\"a\", W/\"b\"` "
                              "only the first member can match, so the ETag of an earlier 200 sent back as a later list member does not revalidate (a full 200 instead of 304)")
                continue
            if whole_weak:
                rep.violation("R14.4", construct(inm, text="if_none_match[2:] before split"), where(inm),
                              "the weak prefix 'W/' is stripped from the whole header before it is split: a weak tag that is not the first list member never matches (a fresh copy is re-sent), and a leading 'W/' is cut off a strong first member")
            elif not per_member_weak:
                if any(f[0] == "call" and f[1] == ("attr", HDR, "startswith") for f, _ in pa.facts):
                    continue  # reported on the sibling path
                rep.violation("R14.4", construct(inm, text=f"etag == {show(other)[:70]}"), where(inm), "list members are compared without removing their weak prefix 'W/': the ETag sent as a weak tag never revalidates")
            elif not quotes:
                rep.violation("R14.4", construct(inm, text=f"etag == {show(other)[:70]}"), where(inm), "list members are compared without removing their double quotes")
            else:
                rep.ok("R14.4", f"per-member normalisation: etag == {show(other)[:80]}")
    if star:
        rep.ok("R14.4", "'*' matches any existing file")
    else:
        rep.violation("R14.4", construct(inm, text="'*'"), where(inm), "If-None-Match: * does not short-circuit to a match")
    if empty:
        rep.ok("R14.4", "an absent/empty If-None-Match never matches")
    else:
        rep.violation("R14.4", construct(inm, text="empty header"), where(inm), "an empty If-None-Match is not rejected up front")
    if not member:
        rep.undecide("R14.4", "no member comparison found in if_none_match")
    rep.require_instances("R14.1", 16)
    rep.require_instances("R14.2", 3)
    rep.require_instances("R14.3", 2)
    rep.require_instances("R14.4", 3)
    # the 304 decision is taken in file_response and nowhere else: a second "not modified" shortcut (e.g. inside the
    # file response object, comparing header strings) bypasses the validators computed from the file's current stat
    producers = []
    for f_ in p.all_functions():
        for n in ast.walk(f_.node):
            if isinstance(n, ast.Constant) and n.value == 304 and not isinstance(getattr(n, "_parent", None), ast.Dict):
                producers.append((f_, n))
            elif isinstance(n, ast.Constant) and isinstance(n.value, str) and n.value.startswith("304"):
                producers.append((f_, n))
    allowed = {"file_response"}
    for f_, n in producers:
        if f_.name in allowed and f_.module.name.endswith("staticfiles"):
            rep.ok("R14.5", f"{f_.fq}: the 304 answer is produced by file_response")
        else:
            rep.violation("R14.5", construct(f_, text="second 304 producer"), where(f_, n), f"{f_.fq} answers 304 by itself: 'not modified' is decided outside file_response, without the ETag / change-time "
                          "validators of the file's current stat (a replacement that keeps the mtime second revalidates although the content changed)")
    rep.require_instances("R14.5", 4)
    _validators_written_once(p, rep)


_SF_MODULES = ("baize.staticfiles", "baize.wsgi.staticfiles", "baize.asgi.staticfiles")
_SF_KEEP = ("if_none_match", "if_modified_since", "file_response", "ensure_absolute_path", "check_path_is_file", "set_response_headers", "generate_etag", "__call__", "__init__")


def _sf_inline(fi: FuncInfo) -> bool:
    """in the analyses of the static-file applications every function of their own modules is part of the unit (a decision
    split off into another method, a request-reading stage), except the ones the rules name"""
    from ..collect import default_inline
    if default_inline(fi):
        return True
    return fi.module.name in _SF_MODULES and fi.name not in _SF_KEEP and not fi.is_generator() and not fi.decorators


def _header_derived(v: ast.expr, call: FuncInfo, side: str) -> bool:
    """Does the expression read the request: environ.get('HTTP_...')/environ[...] (WSGI) or a value of the scope['headers']
    pairs, possibly decoded (ASGI)?"""
    params = call.params[1:]
    gate = params[0] if params else ("environ" if side == "wsgi" else "scope")
    loopvars = set()
    for n in ast.walk(call.node):
        if isinstance(n, (ast.For, ast.AsyncFor)) and any(isinstance(x, ast.Name) and x.id == gate for x in ast.walk(n.iter)):
            for x in ast.walk(n.target):
                if isinstance(x, ast.Name):
                    loopvars.add(x.id)
    for x in ast.walk(v):
        if isinstance(x, ast.Name) and (x.id == gate or x.id in loopvars):
            return True
    return False


def _validators_written_once(p: Program, rep: Report) -> None:
    """R14.6 (who-may-write): the validators a full response carries (ETag, Last-Modified) are put into its headers by
    generate_common_headers and are not removed or replaced anywhere else in the package. Code that pops / deletes / overwrites
    them afterwards (for a cache policy, a "no-store" mode ...) sends a 200 without - or with other - validators: the ETag of a
    200 can then not revalidate, and a modified file is not announced with new validators."""
    VAL = ("etag", "last-modified")
    writer = p.cls("baize.responses:FileResponseMixin").methods.get("generate_common_headers")

    def is_val(n) -> bool:
        return isinstance(n, ast.Constant) and isinstance(n.value, (str, bytes)) and (n.value.lower() if isinstance(n.value, str) else n.value.lower().decode("latin-1")) in VAL

    n_scanned = 0
    hit = False
    for fn in p.all_functions():
        if writer is not None and (fn is writer):
            continue
        n_scanned += 1
        # names bound to a validator header name by a loop over a literal tuple/list that contains one
        loopvars = set()
        for n in ast.walk(fn.node):
            if isinstance(n, (ast.For, ast.comprehension)) and isinstance(n.target, ast.Name) and isinstance(n.iter, (ast.Tuple, ast.List, ast.Set)) and any(is_val(x) for x in n.iter.elts):
                loopvars.add(n.target.id)

        def names_validator(e) -> bool:
            return is_val(e) or (isinstance(e, ast.Name) and e.id in loopvars)

        for n in ast.walk(fn.node):
            what = None
            if isinstance(n, ast.Subscript) and isinstance(n.ctx, (ast.Store, ast.Del)) and names_validator(n.slice):
                what = ("del " if isinstance(n.ctx, ast.Del) else "") + ast.unparse(n)[:50] + ("" if isinstance(n.ctx, ast.Del) else " = ...")
            elif isinstance(n, ast.Call) and isinstance(n.func, ast.Attribute) and n.func.attr in ("pop", "__delitem__", "__setitem__", "setdefault") and n.args and names_validator(n.args[0]):
                what = ast.unparse(n)[:60]
            if what:
                hit = True
                rep.violation("R14.6", construct(fn, text=f"validator header changed: {what}"), where(fn, n),
                              f"{fn.fq} removes or replaces a validator header of a response ({what}): a full response then goes out without (or with other) ETag / Last-Modified than "
                              "generate_common_headers computed from the file's stat - it cannot be revalidated, and a modification is not announced with the new validators")
    if not hit:
        rep.ok("R14.6", f"ETag / Last-Modified are written by generate_common_headers only: no other function of the package ({n_scanned} scanned) pops, deletes or stores them")
    rep.require_instances("R14.6", 1)

    # the ASGI apps read If-None-Match AND If-Modified-Since whatever their order in scope["headers"]
    from .hdr_common import multi_header_scan_breaks as _mhsb
    for cn_ in ("Files", "Pages"):
        ac_ = p.cls(f"baize.asgi.staticfiles:{cn_}").methods.get("__call__")
        if ac_ is None:
            continue
        for f_ in with_helpers(p, ac_):
            for lp_, leave_, names_ in _mhsb(f_):
                rep.violation("R14.1", construct(f_, text=f"header scan for {names_} left early"), where(f_, leave_),
                              f"asgi {cn_}: the scan of scope['headers'] for {names_} is left by `{ast.unparse(leave_)}` as soon as one validator was seen: the other one, sent after it, is never read", positive=True)

    # ---------------------------------------------------------------- R14.7 validators are computed afresh for every request
    # A 304 is only right if the tag / time compared is that of the file as it is NOW. Nothing on the way from os.stat() to the
    # comparison and to the emitted headers may be remembered across requests: no functools cache on a function of the file
    # response / static-file modules (a key containing os.stat_result compares as its 10-integer tuple - whole seconds only - and a
    # key without it never expires), and no request-time method of the long-lived app objects writes state into the app.
    from ..common import memoised as _memo14
    n14 = 0
    mods14 = [m_ for m_ in p.modules.values() if m_.name in ("baize.responses", "baize.staticfiles", "baize.wsgi.responses", "baize.asgi.responses", "baize.wsgi.staticfiles", "baize.asgi.staticfiles")]
    for m_ in mods14:
        for f_ in m_.all_funcs:
            for loc_, how_ in _memo14(p, f_):
                n14 += 1
                rep.violation("R14.7", construct(f_, text="memoised: " + how_.split("(")[0]), loc_,
                              f"{f_.fq} is wrapped in a functools cache ({how_[:50]}): headers / validators of a file are answered from the cache - arguments that compare equal (an os.stat_result "
                              "compares as whole-second integers) give the ETag / Last-Modified of an EARLIER state of the file, so a current copy does not revalidate or a stale one does")
    base14 = p.cls("baize.staticfiles:BaseFiles")
    for ci_ in [base14] + list(p.subclasses(base14)):
        for f_ in dict.values(ci_.methods):
            if f_.name in ("__init__", "__new__", "__init_subclass__"):
                continue
            for n in ast.walk(f_.node):
                tgt = None
                if isinstance(n, (ast.Assign, ast.AugAssign)):
                    for t in (n.targets if isinstance(n, ast.Assign) else [n.target]):
                        b_ = t.value if isinstance(t, ast.Subscript) else t
                        if isinstance(b_, ast.Attribute) and isinstance(b_.value, ast.Name) and b_.value.id == f_.params[0]:
                            tgt = b_
                elif isinstance(n, ast.Call) and isinstance(n.func, ast.Attribute) and n.func.attr in ("setdefault", "update", "append", "add", "pop", "clear", "__setitem__") \
                        and isinstance(n.func.value, ast.Attribute) and isinstance(n.func.value.value, ast.Name) and n.func.value.value.id == f_.params[0]:
                    tgt = n.func.value
                if tgt is not None:
                    n14 += 1
                    rep.violation("R14.7", construct(f_, text=f"request-time state in {ast.unparse(tgt)}"), where(f_, n),
                                  f"{f_.fq} writes `{ast.unparse(tgt)}` while serving a request: the static-file app remembers something about a file across requests (a memo of tags / stats): "
                                  "a later request is judged against remembered instead of current validators")
    if n14 == 0:
        rep.ok("R14.7", f"no functools cache on {sum(len(m_.all_funcs) for m_ in mods14)} functions of the file-response / static-file modules and no request-time write to the app objects")
    rep.require_instances("R14.7", 1)
