"""C08 - router: first match, typed parameters.  Rules R8.1 - R8.7 (DESIGN.md section C08)."""
from __future__ import annotations

import ast
import re
from typing import Dict, List, Optional

from .. import rx
from ..collect import callee_is, run_paths
from ..common import calls_in, construct, where
from ..flow import NONE, show
from ..fold import Folder, NotConst
from ..loader import AnalysisError, ClassInfo, FuncInfo, Program
from ..report import Report
from ..taint import TaintAnalysis, TaintSpec

# The languages the statement assigns to each placeholder type (reference regexes written
# from the statement, str-patterns, Python `re` semantics).
SPEC = {
    "str": r"[^/]+",
    "int": r"[0-9]+",
    "decimal": r"[0-9]+(\.[0-9]+)?",
    "uuid": r"[0-9a-f]{8}-[0-9a-f]{4}-[0-9a-f]{4}-[0-9a-f]{4}-[0-9a-f]{12}",
    "date": r"[0-9]{4}-[0-9]{2}-[0-9]{2}",
}
ANY_LOWER = r"[^\n]*"  # "any": at least every string without a raw line feed

# R8.5: stdlib constructors applied by to_python and the (regular) domain on which they are total.
# None = not total on any infinite digit language (int-string limit / calendar validity).
CTOR_DOMAIN = {
    "decimal.Decimal": r"[0-9]+(\.[0-9]+)?",
    "uuid.UUID": r"[0-9a-fA-F]{8}-[0-9a-fA-F]{4}-[0-9a-fA-F]{4}-[0-9a-fA-F]{4}-[0-9a-fA-F]{12}",
}


def convertor_table(p: Program) -> Dict[str, ClassInfo]:
    mod = p.module("baize.routing")
    if "CONVERTOR_TYPES" not in mod.constants:
        raise AnalysisError("baize.routing.CONVERTOR_TYPES vanished")
    d = mod.constants["CONVERTOR_TYPES"]
    out: Dict[str, ClassInfo] = {}
    if isinstance(d, ast.DictComp) and len(d.generators) == 1 and not d.generators[0].ifs and isinstance(d.generators[0].target, ast.Tuple) and len(d.generators[0].target.elts) == 2 \
            and all(isinstance(t, ast.Name) for t in d.generators[0].target.elts) and isinstance(d.key, ast.Name) and d.key.id == d.generators[0].target.elts[0].id \
            and isinstance(d.value, ast.Call) and not d.value.args and not d.value.keywords and isinstance(d.value.func, ast.Name) and d.value.func.id == d.generators[0].target.elts[1].id:
        # {name: cls() for name, cls in TABLE} over a module-level table of (name, class) pairs
        tbl = d.generators[0].iter
        if isinstance(tbl, ast.Name) and isinstance(mod.constants.get(tbl.id), (ast.Tuple, ast.List)):
            tbl = mod.constants[tbl.id]
        if isinstance(tbl, (ast.Tuple, ast.List)) and all(isinstance(r_, (ast.Tuple, ast.List)) and len(r_.elts) == 2 and isinstance(r_.elts[0], ast.Constant) and isinstance(r_.elts[0].value, str) for r_ in tbl.elts):
            for r_ in tbl.elts:
                c = p.resolve_expr_to_class(mod, r_.elts[1])
                if not isinstance(c, ClassInfo):
                    raise AnalysisError(f"CONVERTOR_TYPES[{r_.elts[0].value!r}] does not resolve to a repository class")
                out[r_.elts[0].value] = c
            return out
    if not isinstance(d, ast.Dict):
        raise AnalysisError("CONVERTOR_TYPES is neither a dict literal nor a comprehension over a literal table of (name, class) pairs")
    for k, v in zip(d.keys, d.values):
        if not (isinstance(k, ast.Constant) and isinstance(k.value, str)):
            raise AnalysisError("CONVERTOR_TYPES key is not a string literal")
        if not isinstance(v, ast.Call):
            raise AnalysisError(f"CONVERTOR_TYPES[{k.value!r}] is not a constructor call")
        c = p.resolve_expr_to_class(mod, v.func)
        if not isinstance(c, ClassInfo):
            raise AnalysisError(f"CONVERTOR_TYPES[{k.value!r}] does not resolve to a repository class")
        out[k.value] = c
    return out


def run(p: Program, rep: Report, tier: str) -> None:
    rep.explanation = (
        "Static decision of the structural clauses of C08: (R8.1) the regular language of every convertor "
        "regex is compared, for all strings, with the language the statement assigns to the type (regex -> "
        "NFA -> DFA product, witness string on difference); (R8.2) the compiled route pattern is applied with "
        "fullmatch and compiled without flags; (R8.3) provenance: literal route text must pass re.escape "
        "before re.compile; (R8.4) first match in declaration order + 404 fallback + path-parameter key "
        "agreement, on all paths of search()/Router.__call__; (R8.5) to_python is total on its own regex "
        "language or guarded; (R8.6) the text to_string produces for the values to_python can return: the regular "
        "language of every return path (frozen renderings of the stdlib formatters composed with the images of "
        "rstrip/lstrip/strip/lower/upper and the path's membership tests) is included in the placeholder's language, zero "
        "stripping is applied only to texts that all contain a '.', and to_python applies the constructor the formatter "
        "inverts; (R8.7) the date convertor slices the digit runs of its own regex in year, month, day order. The value-level "
        "equality of the round trip rests on the frozen facts about the formatters (stated in RENDER)."
    )
    rep.assume("re semantics of the supported regex subset; alphabet = Latin-1 + Unicode class representatives (see sa/rx.py)")
    F = Folder(p)
    table = convertor_table(p)

    # ------------------------------------------------------------------ R8.1
    for key in list(SPEC) + ["any"]:
        if key not in table:
            raise AnalysisError(f"convertor type {key!r} vanished from CONVERTOR_TYPES")
    for key, ci in table.items():
        rep.analysed(ci.fq)
        try:
            regex = F.class_attr(ci, "regex")
        except NotConst as e:
            rep.undecide("R8.1", f"regex of {ci.fq} is not a foldable constant ({e})")
            continue
        if not isinstance(regex, str):
            rep.undecide("R8.1", f"regex of {ci.fq} is not a str")
            continue
        owner = p.find_class_attr(ci, "regex")[0]
        cons = construct(owner, text=f"regex = {regex!r}")
        loc = f"{owner.module.relpath}:{owner.attrs['regex'].lineno}"
        try:
            if key == "any":
                a, b, st = rx.compare(ANY_LOWER, regex)
                if a is not None:
                    rep.violation("R8.1", cons, loc, f"convertor 'any' rejects {rx.show(a)} although the statement says it accepts anything", witness=rx.show(a))
                else:
                    rep.ok("R8.1", f"L('any' = {regex!r}) includes every string without a raw line feed", st)
                    a2, b2, _ = rx.compare(r"(?s).*", regex)
                    if a2 is not None:
                        rep.observe(f"'any' ({regex!r}) under fullmatch rejects strings containing a line feed, e.g. {rx.show(a2)}; the statement's 'anything' does not settle this - recorded, not a violation")
            elif key in SPEC:
                only_spec, only_impl, st = rx.compare(SPEC[key], regex)
                if only_impl is not None:
                    rep.violation("R8.1", cons, loc, f"convertor {key!r} accepts {rx.show(only_impl)} which is outside the type's language {SPEC[key]!r}", witness=rx.show(only_impl))
                if only_spec is not None:
                    rep.violation("R8.1", cons, loc, f"convertor {key!r} rejects {rx.show(only_spec)} which belongs to the type's language {SPEC[key]!r}", witness=rx.show(only_spec))
                if only_impl is None and only_spec is None:
                    rep.ok("R8.1", f"L({key}={regex!r}) == L(spec {SPEC[key]!r}) for all strings", st)
            else:
                rep.observe(f"convertor type {key!r} ({ci.fq}) is not named by the statement; its language is not checked")
        except rx.Unsupported as e:
            rep.undecide("R8.1", f"regex of {ci.fq}: {e}")
    rep.require_instances("R8.1", 6)

    # ------------------------------------------------------------------ R8.2
    route = p.cls("baize.routing:Route")
    matches = p.find_method(route, "matches")
    init = p.find_method(route, "__init__")
    if matches is None or init is None:
        raise AnalysisError("Route.matches/__init__ vanished")
    rep.analysed(matches.fq, init.fq)
    pattern_attrs = set()
    compile_calls: List[ast.Call] = []
    for node in ast.walk(init.node):
        if isinstance(node, ast.Assign) and isinstance(node.value, ast.Call):
            r = p.resolve_call(init, node.value)
            if r == ("ext", "re.compile"):
                for t in node.targets:
                    if isinstance(t, ast.Attribute) and isinstance(t.value, ast.Name) and t.value.id == "self":
                        pattern_attrs.add(t.attr)
                        compile_calls.append(node.value)
    if not pattern_attrs:
        rep.undecide("R8.2", "no `self.<attr> = re.compile(...)` in Route.__init__")
    for c in compile_calls:
        flags = c.args[1] if len(c.args) > 1 else next((k.value for k in c.keywords if k.arg == "flags"), None)
        if flags is None:
            rep.ok("R8.2", "route pattern compiled without flags")
        else:
            try:
                fv = F.fold(init.module, flags)
            except NotConst:
                fv = None
            if fv == 0:
                rep.ok("R8.2", "route pattern compiled with flags=0")
            else:
                rep.violation("R8.2", construct(init, text=f"re.compile(..., flags={ast.unparse(flags)})"), where(init, c),
                              "route pattern compiled with flags: literal text / type languages are no longer matched verbatim")
    n_apply = 0
    for c in calls_in(matches):
        f = c.func
        if isinstance(f, ast.Attribute) and isinstance(f.value, ast.Attribute) and isinstance(f.value.value, ast.Name) \
                and f.value.value.id == "self" and f.value.attr in pattern_attrs:
            n_apply += 1
            if f.attr == "fullmatch":
                rep.ok("R8.2", f"route pattern applied with fullmatch: {ast.unparse(c)}")
            elif f.attr in ("match", "search", "findall", "finditer"):
                rep.violation("R8.2", construct(matches, text=f"self.{f.value.attr}.{f.attr}(...)"), where(matches, c),
                              f"route pattern applied with .{f.attr}(): does not anchor the whole path (prefix / trailing newline accepted)")
            else:
                rep.undecide("R8.2", f"unknown pattern method .{f.attr}")
    if n_apply == 0:
        rep.undecide("R8.2", "no application of the compiled pattern found in Route.matches")
    # ... and the compiled pattern is what DECIDES: every returning path of matches() that can answer "matched" has established
    # that the pattern's fullmatch is not None. A path that answers from something else (a literal-route fast path comparing the
    # request path with an attribute) is right only if that attribute is the route's own text; compared with the FORMAT string of
    # compile_path it depends on what compile_path puts there (escaped text, '{name}' markers)
    try:
        mpaths, _mc, _mi = run_paths(p, matches, route)
    except Exception as ex_:
        mpaths = []
        rep.undecide("R8.2", f"Route.matches not analysable path by path ({ex_})")
    rep.cfg_paths += len(mpaths)
    for pa in mpaths:
        if pa.exit != "return":
            continue
        v = pa.value
        first = v[1][0] if v[0] == "tuple" and v[1] else v
        if first == ("const", False):
            continue
        if any((not t) and f[0] == "cmp" and f[1] == "Is" and "fullmatch" in show(f[2]) for f, t in pa.facts) or any(t and f[0] == "cmp" and f[1] == "IsNot" and "fullmatch" in show(f[2]) for f, t in pa.facts) \
                or any(t and "fullmatch" in show(f) and f[0] == "call" for f, t in pa.facts):
            rep.ok("R8.2", "a path of Route.matches that answers 'matched' has established pattern.fullmatch(path) is not None")
            continue
        txt = show(first)
        cp_fn = None
        try:
            cp_fn = p.func("baize.routing:compile_path")
        except Exception:
            pass
        escapes = cp_fn is not None and any(isinstance(c_, ast.Call) and ast.unparse(c_.func) in ("re.escape", "escape") for c_ in ast.walk(cp_fn.node))
        if first[0] == "cmp" and "self.path_format" in txt and escapes:
            rep.violation("R8.2", construct(matches, text=f"match decided by {txt[:60]} while compile_path escapes the literal text"), where(matches),
                          f"Route.matches answers `{txt[:60]}` without applying the compiled pattern, and compile_path() passes the literal route text through re.escape before it reaches path_format: "
                          "a placeholder-free route containing a character that re.escape changes ('/favicon.ico', '/sign-in') never matches its own path - the request falls through to a later route or 404",
                          path_facts=pa.fact_text(), positive=True)
        else:
            rep.undecide("R8.2", f"Route.matches answers `{txt[:60]}` on a path that has not applied the compiled pattern ({'; '.join(pa.fact_text())[:80]}): what decides the match there is not recognised")
    # the parameters are read from the match BY NAME (groupdict); reading them by POSITION (groups(), group(n), match[n]) pairs the
    # n-th placeholder with the n-th capturing group of the whole pattern - wrong as soon as a convertor's own regex contains a
    # capturing group (decimal: `[0-9]+(\.[0-9]+)?`), because that group shifts every later placeholder
    from ..common import with_helpers as _wh8
    import re._constants as _C8
    import re._parser as _P8
    positional = []
    for f_ in _wh8(p, matches):
        for n in ast.walk(f_.node):
            if isinstance(n, ast.Call) and isinstance(n.func, ast.Attribute) and n.func.attr == "groups":
                positional.append((f_, n))
            elif isinstance(n, ast.Call) and isinstance(n.func, ast.Attribute) and n.func.attr == "group" and n.args and isinstance(n.args[0], ast.Constant) and isinstance(n.args[0].value, int) and n.args[0].value > 0:
                positional.append((f_, n))
    if positional:
        capt = []
        for key, ci in sorted(convertor_table(p).items()):
            try:
                rx_ = F.class_attr(ci, "regex")
                n_groups = _P8.parse(rx_).state.groups - 1
            except Exception:
                n_groups = None
            if n_groups:
                capt.append((key, rx_))
            elif n_groups is None:
                rep.undecide("R8.2", f"{ci.name}.regex: number of capturing groups not determinable while Route.matches reads the match by position")
        if capt:
            f_, n = positional[0]
            rep.violation("R8.2", construct(matches, text=f"parameters read by position: {ast.unparse(n)[:40]}"), where(f_, n),
                          f"Route.matches pairs the placeholders with `{ast.unparse(n)[:40]}` BY POSITION, but the regex of the {capt[0][0]!r} convertor ({capt[0][1]!r}) contains a capturing group of its own: "
                          "a placeholder that follows it receives that inner group's text (or None), so the typed parameter is wrong or the route does not match")
        else:
            rep.ok("R8.2", "Route.matches reads the match by position and no convertor regex has a capturing group of its own")
    else:
        rep.ok("R8.2", "Route.matches reads the placeholder texts by name (groupdict), not by position")
    rep.require_instances("R8.2", 2)

    # ------------------------------------------------------------------ R8.3
    class Spec(TaintSpec):
        def param_source(self, fn: FuncInfo, name: str) -> Optional[str]:
            if fn.fq in ("baize.routing:Route.__init__", "baize.routing:compile_path") and name == "path":
                return None  # seeded through slices below so that origins name the flows
            return None

        def source(self, fn: FuncInfo, expr: ast.expr) -> Optional[str]:
            # any slice / use of the route text parameter `path`
            if fn.module.name == "baize.routing" and isinstance(expr, ast.Subscript) and isinstance(expr.value, ast.Name) and expr.value.id == "path" and "path" in fn.params:
                return ast.unparse(expr)
            if fn.fq == "baize.routing:Route.__init__" and isinstance(expr, ast.Name) and expr.id == "path" and isinstance(expr.ctx, ast.Load):
                # direct use of the whole path; the compile_path(path) argument is followed inter-procedurally
                par = getattr(expr, "_parent", None)
                if isinstance(par, ast.Call) and p.resolve_call(fn, par) is not None and isinstance(p.resolve_call(fn, par), FuncInfo):
                    return None
                return "path"
            return None

        def sanitiser(self, fn, call, resolved) -> bool:
            if resolved == ("ext", "re.escape"):
                return True
            # text extracted by the placeholder regex is validated by it (names, convertor keys)
            if isinstance(call.func, ast.Attribute) and call.func.attr in ("groups", "group", "groupdict"):
                return True
            return False

    ta = TaintAnalysis(p, Spec())
    env = ta.function_env(init, route)
    n_sinks = 0
    for c in compile_calls:
        n_sinks += 1
        origins = ta.expr(init, c.args[0] if c.args else None, env, route)
        if origins:
            # the construct names WHAT flows (slices of the route text), not the index arithmetic of the slicing loop
            import re as _re
            flows = sorted({_re.sub(r"\[.*\]$", "[...]", o) for o in origins})
            rep.violation("R8.3", construct(init, text="re.compile <- " + ", ".join(flows)), where(init, c),
                          "literal route text reaches re.compile without re.escape: regex metacharacters in a route are interpreted (e.g. '/a.b' matches '/axb')",
                          unescaped_flows=sorted(origins))
        else:
            rep.ok("R8.3", "all route-text flows into re.compile pass re.escape")
    rep.analysed(*sorted(ta.functions_seen))
    if n_sinks == 0:
        rep.undecide("R8.3", "no re.compile sink in Route.__init__")

    # ------------------------------------------------------------------ R8.4
    router = p.cls("baize.routing:BaseRouter")
    search = p.find_method(router, "search")
    rinit = p.find_method(router, "__init__")
    if search is None or rinit is None:
        raise AnalysisError("BaseRouter.search/__init__ vanished")
    rep.analysed(search.fq, rinit.fq)
    # (a) table built in declaration order
    arr_attr = None
    for node in ast.walk(search.node):
        if isinstance(node, (ast.For,)):
            it = node.iter
            if isinstance(it, ast.Attribute) and isinstance(it.value, ast.Name) and it.value.id == "self":
                arr_attr = it.attr
                rep.ok("R8.4", f"search iterates self.{arr_attr} with a plain for loop (declaration order)")
            else:
                rep.violation("R8.4", construct(search, text=f"for ... in {ast.unparse(it)}"), where(search, node),
                              "route table is not iterated directly (re-ordered or filtered): first match in declaration order is not guaranteed")
    if arr_attr is None:
        rep.undecide("R8.4", "search() has no for-loop over a self attribute")
    else:
        ok_build = False
        for node in ast.walk(rinit.node):
            tgt = None
            val = None
            if isinstance(node, ast.Assign):
                tgt, val = node.targets[0], node.value
            elif isinstance(node, ast.AnnAssign):
                tgt, val = node.target, node.value
            if isinstance(tgt, ast.Attribute) and tgt.attr == arr_attr and val is not None:
                if isinstance(val, ast.ListComp) and len(val.generators) == 1 and isinstance(val.generators[0].iter, ast.Name) \
                        and val.generators[0].iter.id in rinit.params + ([rinit.node.args.vararg.arg] if rinit.node.args.vararg else []) and not val.generators[0].ifs:
                    ok_build = True
                    rep.ok("R8.4", f"self.{arr_attr} is an order-preserving comprehension over the routes argument")
                else:
                    rep.violation("R8.4", construct(rinit, node), where(rinit, node), "route table is not built by an order-preserving comprehension over the routes argument")
                    ok_build = True
        if not ok_build:
            rep.undecide("R8.4", f"assignment of self.{arr_attr} not found in BaseRouter.__init__")
        # no reordering mutation anywhere
        for fn in p.all_functions():
            for c in calls_in(fn):
                f = c.func
                if isinstance(f, ast.Attribute) and f.attr in ("sort", "reverse", "insert") and isinstance(f.value, ast.Attribute) and f.value.attr == arr_attr:
                    rep.violation("R8.4", construct(fn, c), where(fn, c), "route table is re-ordered after construction")
    # (a') the lookup is recomputed per request: search()/matches() return a fresh mutable params dict, so a memo around
    # them hands the same dict to every later request for that path (and keeps stale results)
    from ..common import memoised
    for fnm in [search, matches] + [m for m in (p.find_method(p.cls(f"baize.{s}.routing:Router"), "__call__") for s in ("wsgi", "asgi")) if m is not None]:
        for loc, how in memoised(p, fnm):
            rep.violation("R8.4", construct(fnm, text="memoised: " + how.split("(")[0]), loc,
                          f"{fnm.fq} is wrapped in a cache ({how}): the (route, params) result - a mutable dict - is shared between requests for the same path instead of being computed per request")
    # (b) path-level: first truthy match returns inside the loop, fallback None
    paths, col, it = run_paths(p, search, router)
    rep.cfg_paths += len(paths)
    rets = [pa for pa in paths if pa.exit == "return"]
    ret_none = [pa for pa in rets if pa.value == NONE]
    ret_hit = [pa for pa in rets if pa.value != NONE]
    if not ret_none:
        rep.violation("R8.4", construct(search, text="fallback"), where(search), "search() has no path returning None when no route matches")
    for pa in ret_hit:
        # must be guarded by truthiness of matches(...)#0 of the SAME loop element that is returned
        v = pa.value
        txt = show(v)
        pos = [f for f, t in pa.facts if t and "matches" in show(f)]
        if not pos:
            rep.violation("R8.4", construct(search, text=f"return {txt}"), where(search), "search() returns a route on a path where its match result was not tested")
        elif v[0] == "tuple" and v[1] and v[1][0][0] == "elem":
            rep.ok("R8.4", f"search returns {txt} inside the loop, guarded by {show(pos[0])}")
        else:
            rep.undecide("R8.4", f"unrecognised return shape {txt}")
    for pa in ret_none:
        neg = [f for f, t in pa.facts if t and "matches" in show(f)]
        if neg:
            rep.violation("R8.4", construct(search, text="return None after match"), where(search), "search() returns None on a path where a route matched")
    # (c) both routers: 404 fallback, endpoint of the found route, path-params key agreement
    for side, key_expr in (("wsgi", "PATH_PARAMS"), ("asgi", "path_params")):
        rcls = p.cls(f"baize.{side}.routing:Router")
        call = p.find_method(rcls, "__call__")
        rep.analysed(call.fq)
        paths, col, it = run_paths(p, call, rcls)
        rep.cfg_paths += len(paths)
        saw404 = saw_hit = False
        seen_subst: set = set()
        for pa in paths:
            if pa.exit != "return":
                continue
            searches = pa.calls(lambda c: callee_is(c, "BaseRouter.search", "search"))
            if not searches:
                rep.violation("R8.4", construct(call, text="no search"), where(call), "Router.__call__ has a normal path that does not consult search()")
                continue
            sv = ("call", searches[0].a, searches[0].b, searches[0].c, searches[0].tag)
            # "for every request path ... answers 404 when none does": the path searched is the request's path as it is - an empty
            # path (a router mounted at exactly the requested prefix) replaced by a non-empty default is dispatched to another route
            sarg = searches[0].b[0] if searches[0].b else None
            subst = None
            if sarg is not None and sarg[0] == "or" and any(t[0] == "const" and isinstance(t[1], str) and t[1] != "" for t in sarg[1][1:]):
                subst = next(t[1] for t in sarg[1][1:] if t[0] == "const" and isinstance(t[1], str) and t[1] != "")
            elif sarg is not None and sarg[0] == "call" and sarg[1][0] == "attr" and sarg[1][2] == "get" and len(sarg[2]) == 2 and sarg[2][1][0] == "const" and isinstance(sarg[2][1][1], str) and sarg[2][1][1] != "":
                subst = None  # a default for a MISSING key only: an empty path stays empty
            if subst is not None and ("subst", side) not in seen_subst:
                seen_subst.add(("subst", side))
                rep.violation("R8.4", construct(call, text=f"search({show(sarg)[:50]})"), where(call),
                              f"{side} Router searches `{show(sarg)[:60]}`: an EMPTY request path is looked up as {subst!r}, so it is dispatched to the route for {subst!r} instead of being "
                              "answered 404 (and a route that does match the empty path loses to it); the other interface still answers 404", positive=True)
            is_none = (("cmp", "Is", sv, NONE), True) in pa.facts
            invoked = [e for e in pa.events if e.kind == "call" and e.b and len(e.b) >= 2 and show(e.b[0]) in ("environ", "scope")]
            if is_none:
                ok = any(e.a[0] == "call" and callee_is(e.a[1], "Response") and e.a[2] and e.a[2][0] == ("const", 404) for e in invoked)
                if ok:
                    saw404 = True
                    rep.ok("R8.4", f"{side}: no match -> Response(404) is called")
                else:
                    rep.violation("R8.4", construct(call, text="no-match branch"), where(call), f"{side} Router: the no-match branch does not answer with Response(404)")
            else:
                hit = [e for e in invoked if "endpoint" in show(e.a) and show(sv) in show(e.a)]
                stores = [e for e in pa.events if e.kind == "store" and e.a[0] == "sub" and e.a[2][0] == "const"]
                keys = [e.a[2][1] for e in stores]
                if hit:
                    saw_hit = True
                    rep.ok("R8.4", f"{side}: match -> endpoint of the returned route is called")
                else:
                    rep.violation("R8.4", construct(call, text="match branch"), where(call), f"{side} Router: the match branch does not call the endpoint of the route returned by search()")
                # reader key
                conn = p.cls(f"baize.{side}.requests:HTTPConnection")
                reader = p.find_method(conn, "path_params")
                rkeys = [n.value for n in ast.walk(reader.node) if isinstance(n, ast.Constant) and isinstance(n.value, str) and n.value.lower() == "path_params"]
                rpaths, _rc, _ri = run_paths(p, reader, conn)
                rvals = [pa_.value for pa_ in rpaths if pa_.exit == "return"]
                unchanged = bool(rvals) and all(rv[0] == "call" and rv[1] == ("attr", ("param", "self"), "get") and rv[2][:1] == (("const", rkeys[0] if rkeys else None),) for rv in rvals) or \
                    bool(rvals) and all(rv == ("sub", ("param", "self"), ("const", rkeys[0] if rkeys else None)) for rv in rvals)
                if keys and rkeys and keys[0] == rkeys[0] and not unchanged:
                    rep.violation("R8.4", construct(reader, text=f"path_params returns {show(rvals[0])[:70] if rvals else '?'}"), where(reader),
                                  f"{side}: request.path_params does not return the mapping the router stored: the converted values are rewritten on the way to the endpoint (e.g. a str parameter percent-decoded a second time)")
                if keys and not rkeys:
                    # the accessor does not name a key itself (it delegates to a helper / adapter object): which key it reads is not
                    # recognised - not "a different key"
                    rep.undecide("R8.4", f"{side}: Request.path_params does not read a literal key itself ({' '.join(ast.unparse(reader.node).split())[-70:]}): the hand-off key is not recognised")
                elif not keys or not rkeys or keys[0] != rkeys[0] or show(sv) not in show(stores[0].b):
                    rep.violation("R8.4", construct(call, text="path params hand-off"), where(call),
                                  f"{side}: path parameters are stored under {keys!r} but Request.path_params reads {rkeys!r} (or the stored value is not search()'s result)")
                else:
                    rep.ok("R8.4", f"{side}: path params written under {keys[0]!r} and read under {rkeys[0]!r}")
        if not (saw404 and saw_hit):
            rep.undecide("R8.4", f"{side} Router.__call__: could not find both the 404 and the match path")
    rep.require_instances("R8.4", 8)

    # ------------------------------------------------------------------ R8.5
    for key, ci in table.items():
        tp = p.find_method(ci, "to_python")
        if tp is None:
            rep.undecide("R8.5", f"{ci.fq} has no to_python")
            continue
        rep.analysed(tp.fq)
        try:
            regex = F.class_attr(ci, "regex")
        except NotConst:
            continue
        guarded = _inside_value_error_handler(p, matches)
        for c in calls_in(tp):
            r = p.resolve_call(tp, c)
            name = r[1] if isinstance(r, tuple) and r[0] in ("ext", "builtin") else None
            if name is None:
                continue
            cons = construct(tp, c)
            if name == "datetime.date.fromisoformat":
                name = "datetime.date"  # validates the calendar exactly like the constructor
            if name == "int" or name == "datetime.date" or name == "datetime.datetime":
                # not total: int() has the 4300-digit limit; date() validates the calendar
                lang_unbounded = _unbounded(regex)
                if name == "int" and not lang_unbounded and "date" not in [x for x in _ctor_names(p, tp)]:
                    rep.ok("R8.5", f"{ci.name}.to_python: int() on a bounded-length digit language")
                    continue
                if name == "int" and any(n in _ctor_names(p, tp) for n in ("datetime.date",)):
                    continue  # reported once at the date() call
                if guarded:
                    rep.ok("R8.5", f"{ci.name}.to_python: {name}() failure is translated to 'no match' by the caller")
                else:
                    w = "a 4301-digit segment" if name == "int" else "'0000-00-00' / '2021-13-45'"
                    rep.violation("R8.5", cons, where(tp, c),
                                  f"{name}() is not total on the convertor's own language {regex!r} ({w} raises ValueError out of Route.matches instead of not matching)")
            elif name in CTOR_DOMAIN:
                try:
                    only_lang, _, st = rx.compare(regex, CTOR_DOMAIN[name])
                except rx.Unsupported as e:
                    rep.undecide("R8.5", f"{ci.fq}: {e}")
                    continue
                if only_lang is None or guarded:
                    rep.ok("R8.5", f"{ci.name}.to_python: L({regex!r}) is inside the domain of {name}", st)
                else:
                    rep.violation("R8.5", cons, where(tp, c), f"{name}({rx.show(only_lang)}) raises: the convertor's language {regex!r} is not inside the constructor's domain", witness=rx.show(only_lang))
    rep.require_instances("R8.5", 4)

    _round_trip(p, rep, F, table)


def _ctor_names(p: Program, fn: FuncInfo) -> List[str]:
    out = []
    for c in calls_in(fn):
        r = p.resolve_call(fn, c)
        if isinstance(r, tuple) and r[0] in ("ext", "builtin"):
            out.append(r[1])
    return out


def _unbounded(regex: str) -> bool:
    import re._constants as C
    import re._parser as P

    def walk(sub) -> bool:
        for op, av in sub:
            if op in (C.MAX_REPEAT, C.MIN_REPEAT):
                if av[1] is C.MAXREPEAT or av[1] > 4000:
                    return True
                if walk(av[2]):
                    return True
            elif op is C.SUBPATTERN:
                if walk(av[3]):
                    return True
            elif op is C.BRANCH:
                if any(walk(a) for a in av[1]):
                    return True
        return False

    return walk(P.parse(regex))


def _inside_value_error_handler(p: Program, matches: FuncInfo) -> bool:
    """Is every to_python call made on behalf of Route.matches - in matches itself or in a private helper it calls - inside a
    try whose handler catches ValueError (or broader)? A call in a helper counts as guarded when every call of that helper
    from the unit is."""
    from ..common import with_helpers
    unit = with_helpers(p, matches)

    def guarded_here(fn: FuncInfo, node: ast.AST) -> bool:
        n = node
        while n is not fn.node:
            par = n._parent  # type: ignore[attr-defined]
            if isinstance(par, ast.Try) and any(n is b or _has(b, n) for b in par.body):
                for h in par.handlers:
                    if h.type is None:
                        names = ["BaseException"]
                    elif isinstance(h.type, ast.Tuple):
                        names = [ast.unparse(e) for e in h.type.elts]
                    else:
                        names = [ast.unparse(h.type)]
                    if "ValueError" in names or "Exception" in names or "BaseException" in names:
                        return True
            n = par
        return False

    def guarded(fn: FuncInfo, node: ast.AST, depth: int = 0) -> bool:
        if guarded_here(fn, node):
            return True
        if fn is matches or depth > 3:
            return False
        sites = [(f, c) for f in unit for c in calls_in(f, deep=True) if p.resolve_call(f, c) is fn]
        return bool(sites) and all(guarded(f, c, depth + 1) for f, c in sites)

    found = False
    for f in unit:
        for node in ast.walk(f.node):
            if isinstance(node, ast.Call) and isinstance(node.func, ast.Attribute) and node.func.attr == "to_python":
                found = True
                if not guarded(f, node):
                    return False
    return found


def _has(root: ast.AST, node: ast.AST) -> bool:
    return any(x is node for x in ast.walk(root))


# ----------------------------------------------------------------------------- R8.6 / R8.7
# Renderings of the values in the IMAGE of to_python (non-negative, finite, exponent <= 0 ...), per
# (declared type of `value`, formatter).  Frozen facts about the stdlib, each with the reason.
DIG = "[0-9]"
RENDER = {
    # str(int) of a non-negative int: canonical decimal digits; int(str(n)) == n
    ("int", "str"): r"0|[1-9][0-9]*",
    # str(Decimal) switches to scientific notation when the adjusted exponent is < -6 ('1E-7'); the image has no
    # positive exponent.  Decimal(str(d)) == d but the text is not always in the placeholder's language.
    ("decimal.Decimal", "str"): r"[0-9]+(\.[0-9]+)?(E-[0-9]+)?",
    ("decimal.Decimal", "format:"): r"[0-9]+(\.[0-9]+)?(E-[0-9]+)?",
    # format(d, 'f') never uses an exponent and keeps every digit: Decimal(format(d, 'f')) == d
    ("decimal.Decimal", "format:f"): r"[0-9]+(\.[0-9]+)?",
    # after normalize() the exponent may be positive ('1E+2'); 'f' pads it with zeros again
    ("decimal.Decimal/normalized", "str"): r"[0-9]+(\.[0-9]+)?(E[+-][0-9]+)?",
    ("decimal.Decimal/normalized", "format:"): r"[0-9]+(\.[0-9]+)?(E[+-][0-9]+)?",
    ("decimal.Decimal/normalized", "format:f"): r"[0-9]+(\.[0-9]+)?",
    # str(UUID) is the canonical lower-case 8-4-4-4-12 form; UUID(str(u)) == u
    ("uuid.UUID", "str"): r"[0-9a-f]{8}-[0-9a-f]{4}-[0-9a-f]{4}-[0-9a-f]{4}-[0-9a-f]{12}",
    # date.isoformat()/str(date) zero-pad the year to four digits
    ("datetime.date", "isoformat"): r"[0-9]{4}-[0-9]{2}-[0-9]{2}",
    ("datetime.date", "str"): r"[0-9]{4}-[0-9]{2}-[0-9]{2}",
}
# int attributes of a date: (min digits, max digits) of str(); f'{x:0Nd}' pads to at least N digits
INT_ATTR = {("datetime.date", "year"): (1, 4), ("datetime.date", "month"): (1, 2), ("datetime.date", "day"): (1, 2)}
# strftime directives: %Y is NOT zero padded by glibc for years below 1000 ('987', '1')
STRFTIME = {"Y": r"[0-9]{1,4}", "m": r"[0-9]{2}", "d": r"[0-9]{2}", "%": "%", "F": r"[0-9]{1,4}-[0-9]{2}-[0-9]{2}"}
# the constructor each formatter inverts (to_python must apply it to the whole segment)
INVERSE = {"int": "int", "decimal.Decimal": "decimal.Decimal", "uuid.UUID": "uuid.UUID"}
NUMERIC = ("int", "decimal.Decimal")
ANYSTR = r"[\x00-\U0010ffff]*"


class _Unknown(Exception):
    pass


def _type_of_value(p: Program, fn: FuncInfo) -> Optional[str]:
    a = fn.node.args.args
    if len(a) < 2 or a[1].annotation is None:
        return None
    ann = a[1].annotation
    r = p.resolve_dotted(fn.module, ann)
    if isinstance(r, tuple) and r[0] in ("ext", "builtin"):
        return r[1]
    if r is None and isinstance(ann, ast.Name) and ann.id in ("str", "int") and ann.id not in fn.module.constants:
        return ann.id
    return None


def _round_trip(p: Program, rep: Report, F: Folder, table: Dict[str, ClassInfo]) -> None:
    route = p.cls("baize.routing:Route")
    for key, ci in table.items():
        ts = p.find_method(ci, "to_string")
        tp = p.find_method(ci, "to_python")
        if ts is None or tp is None or key not in SPEC:
            continue
        try:
            regex = F.class_attr(ci, "regex")
        except NotConst:
            continue
        rep.analysed(ts.fq)
        T = _type_of_value(p, ts)
        if T is None:
            rep.undecide("R8.6", f"{ci.name}.to_string: the type of `value` is not a resolvable annotation")
            continue
        paths, col, it = run_paths(p, ts, ci)
        rep.cfg_paths += len(paths)
        rets = [pa for pa in paths if pa.exit == "return"]
        if not rets:
            rep.violation("R8.6", construct(ts, text="no return"), where(ts), f"{ci.name}.to_string never returns a text")
        # ---- the inverse constructor
        tpaths, _, _ = run_paths(p, tp, ci)
        rep.cfg_paths += len(tpaths)
        for pa in [x for x in tpaths if x.exit == "return"]:
            v = pa.value
            ok = None
            if T == "str":
                ok = v == ("param", "value")
            elif T in INVERSE:
                ok = v[0] == "call" and v[1] in (("ext", INVERSE[T]), ("builtin", INVERSE[T])) and v[2] == (("param", "value"),) and not v[3]
            elif T == "datetime.date":
                ok = _date_fields(p, rep, ci, tp, v, regex)
            if ok:
                rep.ok("R8.6", f"{ci.name}.to_python applies the constructor that the formatter inverts: {show(v)[:70]}")
            elif ok is False:
                rep.violation("R8.6", construct(tp, text=f"return {show(v)[:80]}"), where(tp),
                              f"{ci.name}.to_python does not return {INVERSE.get(T, 'the value')}(value) of the whole segment: the path parameter is not the value the text denotes / to_string no longer inverts it")
        # ---- the language of to_string's results
        pats = [regex, ANYSTR] + list(RENDER.values()) + list(STRFTIME.values())
        for pa in rets:
            consts = [t[1] for t in _subterms_all(pa.value) if t[0] == "const" and isinstance(t[1], str)]
            for f, _ in pa.facts:
                consts += [t[1] for t in _subterms_all(f) if t[0] == "const" and isinstance(t[1], str)]
            al = rx.alphabet_for([rx.Regex(x) for x in pats] + [rx.Regex(re.escape(c)) for c in consts if c])
            target = rx.dfa_of(regex, al)
            ev = _LangEval(p, rep, ci, ts, T, pa, al)
            try:
                d = ev.lang(pa.value)
            except _Unknown as e:
                rep.undecide("R8.6", f"{ci.name}.to_string: cannot derive the language of `{show(pa.value)[:70]}` ({e})")
                continue
            except rx.Unsupported as e:
                rep.undecide("R8.6", f"{ci.name}.to_string: {e}")
                continue
            w = rx.difference_witness(d, target)
            if w is not None and _table_driven_rejections(p, ts):
                rep.undecide("R8.6", f"{ci.name}.to_string rejects values through a table of predicates (a loop that raises ValueError): which texts survive it is not followed "
                             f"(the language computed without those rejections includes {rx.show(w)})")
                continue
            if w is not None:
                rep.violation("R8.6", construct(ts, text=f"return {show(pa.value)[:90]}"), where(ts),
                              f"{ci.name}.to_string can produce {rx.show(w)} for a value that its own to_python returns: the {key!r} placeholder {regex!r} rejects that text (round trip broken)",
                              witness=rx.show(w), path_facts=pa.fact_text()[:6])
            elif not ev.bad:
                rep.ok("R8.6", f"{ci.name}.to_string: every text of `{show(pa.value)[:60]}` is in L({regex!r}) and denotes the same value", {"states": d.n})
    rep.require_instances("R8.6", 9)
    rep.require_instances("R8.7", 1)

    # ------------------------------------------------------------------ R8.8 a placeholder gets the convertor ITS type names
    # "each {name:type} placeholder [is matched] by a string of its type's language": in compile_path the convertor recorded for
    # a placeholder name is CONVERTOR_TYPES[<the type text of the SAME match>] (the text after ':', 'str' when absent)
    from ..collect import default_inline as _di8
    from ..flow import subterms as _st8
    cp = p.module("baize.routing").functions.get("compile_path")
    if cp is None:
        raise AnalysisError("baize.routing:compile_path vanished")
    rep.analysed(cp.fq)
    cpaths, _cc, _ci = run_paths(p, cp, None, inline=_di8, depth=3)
    rep.cfg_paths += len(cpaths)
    TABLE = ("global", "baize.routing:CONVERTOR_TYPES")

    def _match_of(t):
        # the match object whose group a term reads: M.groups(..)#i / M.group(i) / M[i]
        for u in _st8(t):
            if u[0] == "unpack" and u[1][0] == "call" and u[1][1][0] == "attr" and u[1][1][2] == "groups":
                return u[1][1][1], u[2] + 1
            if u[0] == "call" and u[1][0] == "attr" and u[1][2] == "group" and len(u[2]) == 1 and u[2][0][0] == "const":
                return u[1][1], u[2][0][1]
            if u[0] == "sub" and u[2][0] == "const" and isinstance(u[2][1], int) and u[1][0] in ("elem", "local", "call"):
                return u[1], u[2][1]
        return None
    seen8 = set()
    # (facts learned in a loop body are dropped on the back edge: a store made in an earlier iteration is seen again on longer
    #  paths without the facts that guarded it - a store is judged with the facts of ALL paths that carry it)
    facts_of8: Dict[tuple, set] = {}
    for pa in cpaths:
        for e in pa.events:
            if e.kind == "store" and e.a[0] == "sub":
                facts_of8.setdefault((e.a[2], e.b), set()).update(pa.facts)
    for pa in cpaths:
        for e in pa.events:
            if e.kind != "store" or e.a[0] != "sub":
                continue
            km = _match_of(e.a[2])
            if km is None or km[1] != 1:
                continue  # not a store keyed by a placeholder name
            key8 = (e.a[2], e.b)
            if key8 in seen8:
                continue
            seen8.add(key8)
            v = e.b
            if not (v[0] == "sub" and v[1] == TABLE):
                rep.undecide("R8.8", f"compile_path records {show(v)[:60]} for a placeholder: not a lookup in CONVERTOR_TYPES")
                continue
            tm = _match_of(v[2])
            absent = False
            if tm is None and v[2][0] == "const":
                # CONVERTOR_TYPES["str"] on a path that established that THIS match has no type group (`{name}` means str)
                for f_, t_ in facts_of8.get(key8, ()):
                    if t_ and f_[0] == "cmp" and f_[1] == "Is" and f_[3] == NONE:
                        gm = _match_of(f_[2])
                        if gm is not None and gm[0] == km[0] and gm[1] == 2:
                            absent = True
                    elif (not t_) and f_[0] not in ("cmp",):
                        gm = _match_of(f_)
                        if gm is not None and gm[0] == km[0] and gm[1] == 2 and f_[0] in ("call", "unpack", "sub"):
                            absent = True  # `if not type_suffix`
            if tm is None and absent and v[2] == ("const", "str"):
                rep.ok("R8.8", "compile_path: a placeholder without ':type' gets CONVERTOR_TYPES['str']")
            elif tm is None:
                rep.violation("R8.8", construct(cp, text=f"convertor = CONVERTOR_TYPES[{show(v[2])[:40]}]"), where(cp),
                              f"compile_path records CONVERTOR_TYPES[{show(v[2])[:40]}] for every placeholder, not the convertor its ':type' names: a typed placeholder is matched by another type's language")
            elif tm[0] != km[0] or tm[1] != 2:
                rep.violation("R8.8", construct(cp, text=f"convertor = CONVERTOR_TYPES[{show(v[2])[:40]}]"), where(cp),
                              "compile_path looks the convertor up by something other than the type group of the same placeholder match")
            else:
                rep.ok("R8.8", "compile_path: convertor of a placeholder = CONVERTOR_TYPES[type text of the same match]")
    if not seen8:
        rep.undecide("R8.8", "compile_path: no store keyed by a placeholder name found on its paths (placeholders collected in an idiom outside the table)")
    rep.require_instances("R8.8", 1)


def _subterms_all(v):
    if isinstance(v, tuple):
        if v and isinstance(v[0], str):
            yield v
        for x in v:
            yield from _subterms_all(x)


class _LangEval:
    def __init__(self, p, rep, ci, fn, T, pa, al):
        self.p, self.rep, self.ci, self.fn, self.T, self.pa, self.al = p, rep, ci, fn, T, pa, al
        self.bad = False

    def dfa(self, pattern: str):
        return rx.dfa_of(pattern, self.al)

    def render(self, how: str, T: Optional[str] = None):
        T = T or self.T
        if (T, how) not in RENDER:
            raise _Unknown(f"no frozen rendering for {how} of a {T}")
        return self.dfa(RENDER[(T, how)])

    def value_kind(self, v) -> Optional[str]:
        """`value` itself, or a value-preserving view of it"""
        if v == ("param", "value"):
            return self.T
        if v[0] == "call" and v[1][0] == "attr" and v[1][2] == "normalize" and self.T == "decimal.Decimal" and self.value_kind(v[1][1]):
            return "decimal.Decimal/normalized"
        return None

    def lang(self, v):
        d = self._lang(v)
        # membership tests of the path on this very text
        for f, t in self.pa.facts:
            if f[0] == "cmp" and f[1] in ("In", "NotIn") and f[3] == v and f[2][0] == "const" and isinstance(f[2][1], str):
                pos = t if f[1] == "In" else not t
                d = rx.intersect(d, self._contains(f[2][1], pos))
            elif f == v:
                d = rx.intersect(d, self.dfa(r"[\x00-\U0010ffff]+" if t else ""))
        return d

    def _contains(self, needle: str, pos: bool):
        if len(needle) != 1:
            if pos:
                return self.dfa(f"{ANYSTR}{re.escape(needle)}{ANYSTR}")
            raise _Unknown("negative multi-character membership test")
        c = "\\x%02x" % ord(needle) if ord(needle) < 256 else re.escape(needle)
        return self.dfa(f"{ANYSTR}{c}{ANYSTR}" if pos else f"[^{c}]*")

    def _lang(self, v):
        k = v[0]
        T = self.T
        if k == "const" and isinstance(v[1], str):
            return self.dfa(re.escape(v[1]))
        if v == ("param", "value") and T == "str":
            return self.dfa(self._image())
        if k == "call":
            callee, args, kws = v[1], v[2], v[3]
            if callee == ("builtin", "str") and len(args) == 1 and not kws:
                vk = self.value_kind(args[0])
                if vk == "str":
                    return self.dfa(self._image())
                if vk:
                    return self.render("str", vk)
                return self.lang(args[0])  # str() of a str
            if callee == ("builtin", "format") and len(args) == 2 and args[1][0] == "const":
                vk = self.value_kind(args[0])
                if vk:
                    return self.render(f"format:{args[1][1]}", vk)
            if callee[0] == "attr":
                recv, meth = callee[1], callee[2]
                vk = self.value_kind(recv)
                if vk and meth in ("isoformat", "__str__") and not args:
                    return self.render("isoformat" if meth == "isoformat" else "str", vk)
                if vk and meth == "__format__" and len(args) == 1 and args[0][0] == "const":
                    return self.render(f"format:{args[0][1]}", vk)
                if vk == "datetime.date" and meth == "strftime" and len(args) == 1 and args[0][0] == "const" and isinstance(args[0][1], str):
                    return self.dfa(self._strftime(args[0][1]))
                if recv[0] == "const" and isinstance(recv[1], str) and meth == "format" and len(args) == 1 and not kws:
                    m = re.fullmatch(r"([^{}]*)\{(?:0)?(?::([^{}]*))?\}([^{}]*)", recv[1])
                    vk = self.value_kind(args[0])
                    if m and vk:
                        body = RENDER.get((vk, f"format:{m.group(2) or ''}"))
                        if body is None:
                            raise _Unknown(f"no frozen rendering for format spec {m.group(2)!r} of a {vk}")
                        return self.dfa(re.escape(m.group(1)) + f"(?:{body})" + re.escape(m.group(3)))
                if vk is None and meth in ("rstrip", "lstrip", "strip", "lower", "upper", "removesuffix", "removeprefix"):
                    base = self.lang(recv)
                    if meth in ("lower", "upper") and not args:
                        def mp(c, meth=meth):
                            t = getattr(chr(c), meth)()
                            return ord(t) if len(t) == 1 else c
                        return rx.map_lang(base, mp)
                    if meth in ("rstrip", "lstrip", "strip") and len(args) == 1 and args[0][0] == "const" and isinstance(args[0][1], str):
                        chars = [ord(c) for c in args[0][1]]
                        self._value_preserving(v, recv, base, meth, args[0][1])
                        out = base
                        if meth in ("rstrip", "strip"):
                            out = rx.rstrip_lang(out, chars)
                        if meth in ("lstrip", "strip"):
                            out = rx.lstrip_lang(out, chars)
                        return out
                    raise _Unknown(f"no language transformer for .{meth}{show(('tuple', args))}")
        if k == "fstr":
            pat = ""
            for part in v[1]:
                if part[0] == "const" and isinstance(part[1], str):
                    pat += re.escape(part[1])
                elif part[0] == "fmt" and self.value_kind(part[1]) and part[2] in ("", "s"):
                    spec = part[3]
                    spec = spec[2:-1] if spec.startswith("f'") or spec.startswith('f"') else spec
                    how = "str" if (part[2] == "s" or spec == "") else f"format:{spec}"
                    body = RENDER.get((self.value_kind(part[1]), how))
                    if body is None:
                        raise _Unknown(f"no frozen rendering for {how} of a {self.value_kind(part[1])}")
                    pat += f"(?:{body})"
                elif self.value_kind(part):
                    body = RENDER.get((self.value_kind(part), "str"))
                    if body is None:
                        raise _Unknown("f-string part")
                    pat += f"(?:{body})"
                elif self._int_attr(part) is not None:
                    lo, hi = self._int_attr(part)
                    pat += "[0-9]{%d,%d}" % (lo, hi)
                elif part[0] == "fmt" and self._int_attr(part[1]) is not None and part[2] == "":
                    lo, hi = self._int_attr(part[1])
                    spec = part[3]
                    spec = spec[2:-1] if spec.startswith("f'") or spec.startswith('f"') else spec
                    m = re.fullmatch(r"0?([0-9]*)d?", spec)
                    if not m or (m.group(1) and not spec.startswith("0")):
                        raise _Unknown(f"format spec {spec!r} of an int attribute")
                    n = int(m.group(1) or 0)
                    pat += "[0-9]{%d,%d}" % (max(lo, n), max(hi, n))
                else:
                    raise _Unknown(f"f-string part {show(part)[:40]}")
            return self.dfa(pat)
        raise _Unknown(f"unrecognised rendering {show(v)[:60]}")

    def _int_attr(self, v):
        if v[0] == "attr" and self.value_kind(v[1]):
            return INT_ATTR.get((self.value_kind(v[1]), v[2]))
        return None

    def _image(self) -> str:
        # for the str convertor the image of to_python is the placeholder's own language restricted by nothing
        return ANYSTR

    def _strftime(self, fmt: str) -> str:
        out = ""
        i = 0
        while i < len(fmt):
            if fmt[i] == "%" and i + 1 < len(fmt):
                d = fmt[i + 1]
                if d not in STRFTIME:
                    raise _Unknown(f"strftime directive %{d}")
                out += f"(?:{STRFTIME[d]})"
                i += 2
            else:
                out += re.escape(fmt[i])
                i += 1
        return out

    def _value_preserving(self, v, recv, base, meth: str, chars: str) -> None:
        """A numeric text keeps its value under zero stripping only on the fractional side: every operand must
        contain a '.' when trailing zeros are stripped; leading-zero stripping is judged by the language check."""
        if self.T not in NUMERIC:
            return
        digits = [c for c in chars if c.isdigit()]
        if meth in ("rstrip", "strip") and digits:
            whole = rx.intersect(base, self.dfa("[^.]*" + "[" + "".join(digits) + "]"))
            w = whole.shortest()
            if w is not None:
                self.bad = True
                txt = "".join(chr(c) for c in w)
                self.rep.violation("R8.6", construct(self.fn, text=f"{show(recv)[:60]}.{meth}({chars!r}) on a text without '.'"), where(self.fn),
                                   f"{self.ci.name}.to_string strips trailing {'/'.join(digits)} from texts that may have no fraction part: {txt!r} becomes {txt.rstrip(chars)!r} "
                                   "(Decimal('100') is rendered '1'): the round trip does not give an equal value", witness=txt, path_facts=self.pa.fact_text()[:6])


def _date_fields(p: Program, rep: Report, ci: ClassInfo, tp: FuncInfo, v, regex: str) -> Optional[bool]:
    """R8.7: date(int(value[a:b]), int(value[c:d]), int(value[e:f])) must slice the digit runs of the regex in
    year, month, day order (or use date.fromisoformat(value))."""
    import re._constants as C
    import re._parser as P

    if v[0] == "call" and v[1] in (("ext", "datetime.date.fromisoformat"),) and v[2] == (("param", "value"),):
        rep.ok("R8.7", "DateConvertor.to_python uses date.fromisoformat on the whole segment")
        return True
    if not (v[0] == "call" and v[1] == ("ext", "datetime.date") and len(v[2]) == 3 and not v[3]):
        return None
    runs = []
    pos = 0
    try:
        for op, av in P.parse(regex):
            if op in (C.MAX_REPEAT, C.MIN_REPEAT) and av[0] == av[1]:
                runs.append((pos, pos + av[0]))
                pos += av[0]
            elif op is C.LITERAL:
                pos += 1
            else:
                return None
    except Exception:
        return None
    if len(runs) != 3:
        return None
    got = []
    for a in v[2]:
        if not (a[0] == "call" and a[1] == ("builtin", "int") and len(a[2]) == 1 and a[2][0][0] == "sub" and a[2][0][1] == ("param", "value") and a[2][0][2][0] == "slice"):
            if any(isinstance(t, tuple) and t and t[0] in ("comp", "elem", "unpack", "loopvar", "phi") for t in _subterms_all(a)):
                # the fields come out of a table / comprehension the engine does not unroll: not decided
                rep.undecide("R8.7", f"DateConvertor.to_python: a date field is computed as {show(a)[:60]} (slices taken from a table): which digit runs it reads is not recognised")
                return None
            rep.violation("R8.7", construct(tp, text=f"date field {show(a)[:50]}"), where(tp), "a date field is not int(value[a:b]) of the path segment")
            return False
        sl = a[2][0][2]
        lo = 0 if sl[1] == NONE else (sl[1][1] if sl[1][0] == "const" else None)
        hi = pos if sl[2] == NONE else (sl[2][1] if sl[2][0] == "const" else None)
        got.append((lo, hi))
    if got == runs:
        rep.ok("R8.7", f"DateConvertor.to_python slices {got} = the year, month, day digit runs of {regex!r}")
        return True
    rep.violation("R8.7", construct(tp, text=f"date fields sliced at {got}"), where(tp),
                  f"DateConvertor.to_python builds date(year, month, day) from the slices {got} but the digit runs of {regex!r} are {runs}: the path parameter is not the date the text denotes")
    return False


def _table_driven_rejections(p: Program, ts: FuncInfo) -> bool:
    """does to_string (with its private helpers) run a loop over a table whose body raises - rejections the path facts cannot express?"""
    from ..common import with_helpers as _wh
    for f_ in _wh(p, ts):
        for n in ast.walk(f_.node):
            if isinstance(n, ast.For) and any(isinstance(x, ast.Raise) for x in ast.walk(n)) and any(isinstance(x, ast.Call) and isinstance(x.func, ast.Name) and x.func.id in {t.id for t in ast.walk(n.target) if isinstance(t, ast.Name)} for x in ast.walk(n)):
                return True
    return False
