"""C08 - router: first match, typed parameters.  Rules R8.1 - R8.5 (DESIGN.md section C08)."""
from __future__ import annotations

import ast
import re
from typing import Dict, List, Optional

from .. import rx
from ..collect import callee_is, run_paths
from ..common import calls_in, construct, where
from ..flow import NONE, show
from ..fold import Folder, NotConst
from ..loader import AnalysisError, ClassInfo, FuncInfo, Program
from ..report import Report
from ..taint import TaintAnalysis, TaintSpec

# The languages the statement assigns to each placeholder type (reference regexes written
# from the statement, str-patterns, Python `re` semantics).
SPEC = {
    "str": r"[^/]+",
    "int": r"[0-9]+",
    "decimal": r"[0-9]+(\.[0-9]+)?",
    "uuid": r"[0-9a-f]{8}-[0-9a-f]{4}-[0-9a-f]{4}-[0-9a-f]{4}-[0-9a-f]{12}",
    "date": r"[0-9]{4}-[0-9]{2}-[0-9]{2}",
}
ANY_LOWER = r"[^\n]*"  # "any": at least every string without a raw line feed

# R8.5: stdlib constructors applied by to_python and the (regular) domain on which they are total.
# None = not total on any infinite digit language (int-string limit / calendar validity).
CTOR_DOMAIN = {
    "decimal.Decimal": r"[0-9]+(\.[0-9]+)?",
    "uuid.UUID": r"[0-9a-fA-F]{8}-[0-9a-fA-F]{4}-[0-9a-fA-F]{4}-[0-9a-fA-F]{4}-[0-9a-fA-F]{12}",
}


def convertor_table(p: Program) -> Dict[str, ClassInfo]:
    mod = p.module("baize.routing")
    if "CONVERTOR_TYPES" not in mod.constants:
        raise AnalysisError("baize.routing.CONVERTOR_TYPES vanished")
    d = mod.constants["CONVERTOR_TYPES"]
    if not isinstance(d, ast.Dict):
        raise AnalysisError("CONVERTOR_TYPES is no longer a dict literal")
    out: Dict[str, ClassInfo] = {}
    for k, v in zip(d.keys, d.values):
        if not (isinstance(k, ast.Constant) and isinstance(k.value, str)):
            raise AnalysisError("CONVERTOR_TYPES key is not a string literal")
        if not isinstance(v, ast.Call):
            raise AnalysisError(f"CONVERTOR_TYPES[{k.value!r}] is not a constructor call")
        c = p.resolve_expr_to_class(mod, v.func)
        if not isinstance(c, ClassInfo):
            raise AnalysisError(f"CONVERTOR_TYPES[{k.value!r}] does not resolve to a repository class")
        out[k.value] = c
    return out


def run(p: Program, rep: Report, tier: str) -> None:
    rep.explanation = (
        "Static decision of the structural clauses of C08: (R8.1) the regular language of every convertor "
        "regex is compared, for all strings, with the language the statement assigns to the type (regex -> "
        "NFA -> DFA product, witness string on difference); (R8.2) the compiled route pattern is applied with "
        "fullmatch and compiled without flags; (R8.3) provenance: literal route text must pass re.escape "
        "before re.compile; (R8.4) first match in declaration order + 404 fallback + path-parameter key "
        "agreement, on all paths of search()/Router.__call__; (R8.5) to_python is total on its own regex "
        "language or guarded. NOT decided: the to_string/to_python round trip on values."
    )
    rep.assume("re semantics of the supported regex subset; alphabet = Latin-1 + Unicode class representatives (see sa/rx.py)")
    F = Folder(p)
    table = convertor_table(p)

    # ------------------------------------------------------------------ R8.1
    for key in list(SPEC) + ["any"]:
        if key not in table:
            raise AnalysisError(f"convertor type {key!r} vanished from CONVERTOR_TYPES")
    for key, ci in table.items():
        rep.analysed(ci.fq)
        try:
            regex = F.class_attr(ci, "regex")
        except NotConst as e:
            rep.undecide("R8.1", f"regex of {ci.fq} is not a foldable constant ({e})")
            continue
        if not isinstance(regex, str):
            rep.undecide("R8.1", f"regex of {ci.fq} is not a str")
            continue
        owner = p.find_class_attr(ci, "regex")[0]
        cons = construct(owner, text=f"regex = {regex!r}")
        loc = f"{owner.module.relpath}:{owner.attrs['regex'].lineno}"
        try:
            if key == "any":
                a, b, st = rx.compare(ANY_LOWER, regex)
                if a is not None:
                    rep.violation("R8.1", cons, loc, f"convertor 'any' rejects {rx.show(a)} although the statement says it accepts anything", witness=rx.show(a))
                else:
                    rep.ok("R8.1", f"L('any' = {regex!r}) includes every string without a raw line feed", st)
                    a2, b2, _ = rx.compare(r"(?s).*", regex)
                    if a2 is not None:
                        rep.observe(f"'any' ({regex!r}) under fullmatch rejects strings containing a line feed, e.g. {rx.show(a2)}; the statement's 'anything' does not settle this - recorded, not a violation")
            elif key in SPEC:
                only_spec, only_impl, st = rx.compare(SPEC[key], regex)
                if only_impl is not None:
                    rep.violation("R8.1", cons, loc, f"convertor {key!r} accepts {rx.show(only_impl)} which is outside the type's language {SPEC[key]!r}", witness=rx.show(only_impl))
                if only_spec is not None:
                    rep.violation("R8.1", cons, loc, f"convertor {key!r} rejects {rx.show(only_spec)} which belongs to the type's language {SPEC[key]!r}", witness=rx.show(only_spec))
                if only_impl is None and only_spec is None:
                    rep.ok("R8.1", f"L({key}={regex!r}) == L(spec {SPEC[key]!r}) for all strings", st)
            else:
                rep.observe(f"convertor type {key!r} ({ci.fq}) is not named by the statement; its language is not checked")
        except rx.Unsupported as e:
            rep.undecide("R8.1", f"regex of {ci.fq}: {e}")
    rep.require_instances("R8.1", 6)

    # ------------------------------------------------------------------ R8.2
    route = p.cls("baize.routing:Route")
    matches = p.find_method(route, "matches")
    init = p.find_method(route, "__init__")
    if matches is None or init is None:
        raise AnalysisError("Route.matches/__init__ vanished")
    rep.analysed(matches.fq, init.fq)
    pattern_attrs = set()
    compile_calls: List[ast.Call] = []
    for node in ast.walk(init.node):
        if isinstance(node, ast.Assign) and isinstance(node.value, ast.Call):
            r = p.resolve_call(init, node.value)
            if r == ("ext", "re.compile"):
                for t in node.targets:
                    if isinstance(t, ast.Attribute) and isinstance(t.value, ast.Name) and t.value.id == "self":
                        pattern_attrs.add(t.attr)
                        compile_calls.append(node.value)
    if not pattern_attrs:
        rep.undecide("R8.2", "no `self.<attr> = re.compile(...)` in Route.__init__")
    for c in compile_calls:
        flags = c.args[1] if len(c.args) > 1 else next((k.value for k in c.keywords if k.arg == "flags"), None)
        if flags is None:
            rep.ok("R8.2", "route pattern compiled without flags")
        else:
            try:
                fv = F.fold(init.module, flags)
            except NotConst:
                fv = None
            if fv == 0:
                rep.ok("R8.2", "route pattern compiled with flags=0")
            else:
                rep.violation("R8.2", construct(init, text=f"re.compile(..., flags={ast.unparse(flags)})"), where(init, c),
                              "route pattern compiled with flags: literal text / type languages are no longer matched verbatim")
    n_apply = 0
    for c in calls_in(matches):
        f = c.func
        if isinstance(f, ast.Attribute) and isinstance(f.value, ast.Attribute) and isinstance(f.value.value, ast.Name) \
                and f.value.value.id == "self" and f.value.attr in pattern_attrs:
            n_apply += 1
            if f.attr == "fullmatch":
                rep.ok("R8.2", f"route pattern applied with fullmatch: {ast.unparse(c)}")
            elif f.attr in ("match", "search", "findall", "finditer"):
                rep.violation("R8.2", construct(matches, text=f"self.{f.value.attr}.{f.attr}(...)"), where(matches, c),
                              f"route pattern applied with .{f.attr}(): does not anchor the whole path (prefix / trailing newline accepted)")
            else:
                rep.undecide("R8.2", f"unknown pattern method .{f.attr}")
    if n_apply == 0:
        rep.undecide("R8.2", "no application of the compiled pattern found in Route.matches")
    rep.require_instances("R8.2", 2)

    # ------------------------------------------------------------------ R8.3
    class Spec(TaintSpec):
        def param_source(self, fn: FuncInfo, name: str) -> Optional[str]:
            if fn.fq in ("baize.routing:Route.__init__", "baize.routing:compile_path") and name == "path":
                return None  # seeded through slices below so that origins name the flows
            return None

        def source(self, fn: FuncInfo, expr: ast.expr) -> Optional[str]:
            # any slice / use of the route text parameter `path`
            if fn.module.name == "baize.routing" and isinstance(expr, ast.Subscript) and isinstance(expr.value, ast.Name) and expr.value.id == "path" and "path" in fn.params:
                return ast.unparse(expr)
            if fn.fq == "baize.routing:Route.__init__" and isinstance(expr, ast.Name) and expr.id == "path" and isinstance(expr.ctx, ast.Load):
                # direct use of the whole path; the compile_path(path) argument is followed inter-procedurally
                par = getattr(expr, "_parent", None)
                if isinstance(par, ast.Call) and p.resolve_call(fn, par) is not None and isinstance(p.resolve_call(fn, par), FuncInfo):
                    return None
                return "path"
            return None

        def sanitiser(self, fn, call, resolved) -> bool:
            if resolved == ("ext", "re.escape"):
                return True
            # text extracted by the placeholder regex is validated by it (names, convertor keys)
            if isinstance(call.func, ast.Attribute) and call.func.attr in ("groups", "group", "groupdict"):
                return True
            return False

    ta = TaintAnalysis(p, Spec())
    env = ta.function_env(init, route)
    n_sinks = 0
    for c in compile_calls:
        n_sinks += 1
        origins = ta.expr(init, c.args[0] if c.args else None, env, route)
        if origins:
            rep.violation("R8.3", construct(init, text="re.compile <- " + ", ".join(sorted(origins))), where(init, c),
                          "literal route text reaches re.compile without re.escape: regex metacharacters in a route are interpreted (e.g. '/a.b' matches '/axb')",
                          unescaped_flows=sorted(origins))
        else:
            rep.ok("R8.3", "all route-text flows into re.compile pass re.escape")
    rep.analysed(*sorted(ta.functions_seen))
    if n_sinks == 0:
        rep.undecide("R8.3", "no re.compile sink in Route.__init__")

    # ------------------------------------------------------------------ R8.4
    router = p.cls("baize.routing:BaseRouter")
    search = p.find_method(router, "search")
    rinit = p.find_method(router, "__init__")
    if search is None or rinit is None:
        raise AnalysisError("BaseRouter.search/__init__ vanished")
    rep.analysed(search.fq, rinit.fq)
    # (a) table built in declaration order
    arr_attr = None
    for node in ast.walk(search.node):
        if isinstance(node, (ast.For,)):
            it = node.iter
            if isinstance(it, ast.Attribute) and isinstance(it.value, ast.Name) and it.value.id == "self":
                arr_attr = it.attr
                rep.ok("R8.4", f"search iterates self.{arr_attr} with a plain for loop (declaration order)")
            else:
                rep.violation("R8.4", construct(search, text=f"for ... in {ast.unparse(it)}"), where(search, node),
                              "route table is not iterated directly (re-ordered or filtered): first match in declaration order is not guaranteed")
    if arr_attr is None:
        rep.undecide("R8.4", "search() has no for-loop over a self attribute")
    else:
        ok_build = False
        for node in ast.walk(rinit.node):
            tgt = None
            val = None
            if isinstance(node, ast.Assign):
                tgt, val = node.targets[0], node.value
            elif isinstance(node, ast.AnnAssign):
                tgt, val = node.target, node.value
            if isinstance(tgt, ast.Attribute) and tgt.attr == arr_attr and val is not None:
                if isinstance(val, ast.ListComp) and len(val.generators) == 1 and isinstance(val.generators[0].iter, ast.Name) \
                        and val.generators[0].iter.id in rinit.params + ([rinit.node.args.vararg.arg] if rinit.node.args.vararg else []) and not val.generators[0].ifs:
                    ok_build = True
                    rep.ok("R8.4", f"self.{arr_attr} is an order-preserving comprehension over the routes argument")
                else:
                    rep.violation("R8.4", construct(rinit, node), where(rinit, node), "route table is not built by an order-preserving comprehension over the routes argument")
                    ok_build = True
        if not ok_build:
            rep.undecide("R8.4", f"assignment of self.{arr_attr} not found in BaseRouter.__init__")
        # no reordering mutation anywhere
        for fn in p.all_functions():
            for c in calls_in(fn):
                f = c.func
                if isinstance(f, ast.Attribute) and f.attr in ("sort", "reverse", "insert") and isinstance(f.value, ast.Attribute) and f.value.attr == arr_attr:
                    rep.violation("R8.4", construct(fn, c), where(fn, c), "route table is re-ordered after construction")
    # (b) path-level: first truthy match returns inside the loop, fallback None
    paths, col, it = run_paths(p, search, router)
    rep.cfg_paths += len(paths)
    rets = [pa for pa in paths if pa.exit == "return"]
    ret_none = [pa for pa in rets if pa.value == NONE]
    ret_hit = [pa for pa in rets if pa.value != NONE]
    if not ret_none:
        rep.violation("R8.4", construct(search, text="fallback"), where(search), "search() has no path returning None when no route matches")
    for pa in ret_hit:
        # must be guarded by truthiness of matches(...)#0 of the SAME loop element that is returned
        v = pa.value
        txt = show(v)
        pos = [f for f, t in pa.facts if t and "matches" in show(f)]
        if not pos:
            rep.violation("R8.4", construct(search, text=f"return {txt}"), where(search), "search() returns a route on a path where its match result was not tested")
        elif v[0] == "tuple" and v[1] and v[1][0][0] == "elem":
            rep.ok("R8.4", f"search returns {txt} inside the loop, guarded by {show(pos[0])}")
        else:
            rep.undecide("R8.4", f"unrecognised return shape {txt}")
    for pa in ret_none:
        neg = [f for f, t in pa.facts if t and "matches" in show(f)]
        if neg:
            rep.violation("R8.4", construct(search, text="return None after match"), where(search), "search() returns None on a path where a route matched")
    # (c) both routers: 404 fallback, endpoint of the found route, path-params key agreement
    for side, key_expr in (("wsgi", "PATH_PARAMS"), ("asgi", "path_params")):
        rcls = p.cls(f"baize.{side}.routing:Router")
        call = p.find_method(rcls, "__call__")
        rep.analysed(call.fq)
        paths, col, it = run_paths(p, call, rcls)
        rep.cfg_paths += len(paths)
        saw404 = saw_hit = False
        for pa in paths:
            if pa.exit != "return":
                continue
            searches = pa.calls(lambda c: callee_is(c, "BaseRouter.search", "search"))
            if not searches:
                rep.violation("R8.4", construct(call, text="no search"), where(call), "Router.__call__ has a normal path that does not consult search()")
                continue
            sv = ("call", searches[0].a, searches[0].b, searches[0].c, searches[0].tag)
            is_none = (("cmp", "Is", sv, NONE), True) in pa.facts
            invoked = [e for e in pa.events if e.kind == "call" and e.b and len(e.b) >= 2 and show(e.b[0]) in ("environ", "scope")]
            if is_none:
                ok = any(e.a[0] == "call" and callee_is(e.a[1], "Response") and e.a[2] and e.a[2][0] == ("const", 404) for e in invoked)
                if ok:
                    saw404 = True
                    rep.ok("R8.4", f"{side}: no match -> Response(404) is called")
                else:
                    rep.violation("R8.4", construct(call, text="no-match branch"), where(call), f"{side} Router: the no-match branch does not answer with Response(404)")
            else:
                hit = [e for e in invoked if "endpoint" in show(e.a) and show(sv) in show(e.a)]
                stores = [e for e in pa.events if e.kind == "store" and e.a[0] == "sub" and e.a[2][0] == "const"]
                keys = [e.a[2][1] for e in stores]
                if hit:
                    saw_hit = True
                    rep.ok("R8.4", f"{side}: match -> endpoint of the returned route is called")
                else:
                    rep.violation("R8.4", construct(call, text="match branch"), where(call), f"{side} Router: the match branch does not call the endpoint of the route returned by search()")
                # reader key
                conn = p.cls(f"baize.{side}.requests:HTTPConnection")
                reader = p.find_method(conn, "path_params")
                rkeys = [n.value for n in ast.walk(reader.node) if isinstance(n, ast.Constant) and isinstance(n.value, str) and n.value.lower() == "path_params"]
                if not keys or not rkeys or keys[0] != rkeys[0] or show(sv) not in show(stores[0].b):
                    rep.violation("R8.4", construct(call, text="path params hand-off"), where(call),
                                  f"{side}: path parameters are stored under {keys!r} but Request.path_params reads {rkeys!r} (or the stored value is not search()'s result)")
                else:
                    rep.ok("R8.4", f"{side}: path params written under {keys[0]!r} and read under {rkeys[0]!r}")
        if not (saw404 and saw_hit):
            rep.undecide("R8.4", f"{side} Router.__call__: could not find both the 404 and the match path")
    rep.require_instances("R8.4", 8)

    # ------------------------------------------------------------------ R8.5
    for key, ci in table.items():
        tp = p.find_method(ci, "to_python")
        if tp is None:
            rep.undecide("R8.5", f"{ci.fq} has no to_python")
            continue
        rep.analysed(tp.fq)
        try:
            regex = F.class_attr(ci, "regex")
        except NotConst:
            continue
        guarded = _inside_value_error_handler(p, matches)
        for c in calls_in(tp):
            r = p.resolve_call(tp, c)
            name = r[1] if isinstance(r, tuple) and r[0] in ("ext", "builtin") else None
            if name is None:
                continue
            cons = construct(tp, c)
            if name == "int" or name == "datetime.date" or name == "datetime.datetime":
                # not total: int() has the 4300-digit limit; date() validates the calendar
                lang_unbounded = _unbounded(regex)
                if name == "int" and not lang_unbounded and "date" not in [x for x in _ctor_names(p, tp)]:
                    rep.ok("R8.5", f"{ci.name}.to_python: int() on a bounded-length digit language")
                    continue
                if name == "int" and any(n in _ctor_names(p, tp) for n in ("datetime.date",)):
                    continue  # reported once at the date() call
                if guarded:
                    rep.ok("R8.5", f"{ci.name}.to_python: {name}() failure is translated to 'no match' by the caller")
                else:
                    w = "a 4301-digit segment" if name == "int" else "'0000-00-00' / '2021-13-45'"
                    rep.violation("R8.5", cons, where(tp, c),
                                  f"{name}() is not total on the convertor's own language {regex!r} ({w} raises ValueError out of Route.matches instead of not matching)")
            elif name in CTOR_DOMAIN:
                try:
                    only_lang, _, st = rx.compare(regex, CTOR_DOMAIN[name])
                except rx.Unsupported as e:
                    rep.undecide("R8.5", f"{ci.fq}: {e}")
                    continue
                if only_lang is None or guarded:
                    rep.ok("R8.5", f"{ci.name}.to_python: L({regex!r}) is inside the domain of {name}", st)
                else:
                    rep.violation("R8.5", cons, where(tp, c), f"{name}({rx.show(only_lang)}) raises: the convertor's language {regex!r} is not inside the constructor's domain", witness=rx.show(only_lang))
    rep.require_instances("R8.5", 4)


def _ctor_names(p: Program, fn: FuncInfo) -> List[str]:
    out = []
    for c in calls_in(fn):
        r = p.resolve_call(fn, c)
        if isinstance(r, tuple) and r[0] in ("ext", "builtin"):
            out.append(r[1])
    return out


def _unbounded(regex: str) -> bool:
    import re._constants as C
    import re._parser as P

    def walk(sub) -> bool:
        for op, av in sub:
            if op in (C.MAX_REPEAT, C.MIN_REPEAT):
                if av[1] is C.MAXREPEAT or av[1] > 4000:
                    return True
                if walk(av[2]):
                    return True
            elif op is C.SUBPATTERN:
                if walk(av[3]):
                    return True
            elif op is C.BRANCH:
                if any(walk(a) for a in av[1]):
                    return True
        return False

    return walk(P.parse(regex))


def _inside_value_error_handler(p: Program, matches: FuncInfo) -> bool:
    """Is the to_python call in Route.matches inside a try whose handler catches ValueError
    (or broader) and yields the no-match result?"""
    for node in ast.walk(matches.node):
        if isinstance(node, ast.Call) and isinstance(node.func, ast.Attribute) and node.func.attr == "to_python":
            n = node
            while n is not matches.node:
                par = n._parent  # type: ignore[attr-defined]
                if isinstance(par, ast.Try) and any(n is b or _has(b, n) for b in par.body):
                    for h in par.handlers:
                        names = []
                        if h.type is None:
                            names = ["BaseException"]
                        elif isinstance(h.type, ast.Tuple):
                            names = [ast.unparse(e) for e in h.type.elts]
                        else:
                            names = [ast.unparse(h.type)]
                        if any(x in ("ValueError", "Exception", "BaseException", "ArithmeticError") for x in names):
                            if "ValueError" in names or "Exception" in names or "BaseException" in names:
                                return True
                n = par
    return False


def _has(root: ast.AST, node: ast.AST) -> bool:
    return any(x is node for x in ast.walk(root))
