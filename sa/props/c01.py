"""C01 - multipart decoding is exact and independent of chunking (structural clauses)."""
from __future__ import annotations

import ast
import re
from typing import Dict, List, Optional, Set, Tuple

from .. import rx
from ..collect import Path, callee_is, run_paths
from ..common import unit_inline, calls_in, construct, where
from ..flow import NONE, Value, show, subterms
from ..fold import Folder, NotConst
from ..loader import AnalysisError, ClassInfo, FuncInfo, Program, walk_shallow
from ..report import Report
from ..sibling import tier_a_equal
from ..taint import TaintAnalysis, TaintSpec
from .mp_common import Effect, helper_effects, helpers

B = b"\x01"  # the boundary as one opaque symbol of the alphabet
LB = b"(?:\r\n|\n|\r)"
H = b"[ \t\x0b\x0c]"
REF_BOUNDARY = LB + b"--" + B + b"(?:--" + H + b"*" + LB + b"?|" + H + b"*" + LB + b")"
REF_PREAMBLE = LB + b"?--" + B + b"(?:--" + H + b"*" + LB + b"?|" + H + b"*" + LB + b")"


def _clamped(b: Value, BUF: Value):
    """max(last_newline(), len(buffer) - len(self.boundary) - K)  ->  (K, mentions last_newline)"""
    if not (b[0] == "call" and b[1] == ("builtin", "max") and len(b[2]) == 2):
        return None
    has_ln = any(x[0] == "call" and callee_is(x[1], "last_newline") for x in b[2])
    BND = ("attr", ("param", "self"), "boundary")

    def _len_of(t):
        """len(t) as {atom: coeff} with atoms 'buf', 'bnd', 1 - for the buffer, the boundary, byte constants and their concatenations"""
        if t == BUF:
            return {"buf": 1}
        if t == BND:
            return {"bnd": 1}
        if t[0] == "const" and isinstance(t[1], (bytes, str)):
            return {1: len(t[1])}
        if t[0] == "binop" and t[1] == "Add":
            l_, r_ = _len_of(t[2]), _len_of(t[3])
            if l_ is None or r_ is None:
                return None
            return {k: l_.get(k, 0) + r_.get(k, 0) for k in set(l_) | set(r_)}
        return None

    def _lin(t):
        if t[0] == "const" and isinstance(t[1], int) and not isinstance(t[1], bool):
            return {1: t[1]}
        if t[0] == "call" and t[1] == ("builtin", "len") and len(t[2]) == 1:
            return _len_of(t[2][0])
        if t[0] == "binop" and t[1] in ("Add", "Sub"):
            l_, r_ = _lin(t[2]), _lin(t[3])
            if l_ is None or r_ is None:
                return None
            sg = 1 if t[1] == "Add" else -1
            return {k: l_.get(k, 0) + sg * r_.get(k, 0) for k in set(l_) | set(r_)}
        return None

    for x in b[2]:
        # len(buffer) - len(boundary) - K in any arithmetic spelling: len(buffer) - len(b"--" + self.boundary) - 2, ...
        lf = _lin(x)
        if lf is not None:
            lf = {k: v for k, v in lf.items() if v != 0}
            if lf.get("buf") == 1 and lf.get("bnd") == -1 and set(lf) <= {"buf", "bnd", 1} and lf.get(1, 0) <= 0:
                return -lf.get(1, 0), has_ln
    for x in b[2]:
        # ((len(buf) - len(self.boundary)) - K)
        if x[0] == "binop" and x[1] == "Sub" and x[3][0] == "const" and isinstance(x[3][1], int):
            inner = x[2]
            if inner[0] == "binop" and inner[1] == "Sub" and inner[2] == ("call", ("builtin", "len"), (BUF,), (), inner[2][4] if len(inner[2]) > 4 else 0) \
                    and inner[3][0] == "call" and inner[3][1] == ("builtin", "len") and inner[3][2] == (("attr", ("param", "self"), "boundary"),):
                return x[3][1], has_ln
    return None


_REQ_UNIT = unit_inline(("baize.requests", "baize.wsgi.requests", "baize.asgi.requests"), ("stream", "body", "json", "form", "close", "is_disconnected", "__init__", "__call__"))


def _pending_bound(bound: Value, pa, BUF: Value):
    """bound == self.<attr>.search(self.buffer).start() on a path where that search is not None  -> (attr, False)
       bound == len(self.buffer) on a path where self.<attr>.search(self.buffer) is None          -> (attr, True)"""
    def is_search(x):
        return x[0] == "call" and x[1][0] == "attr" and x[1][2] == "search" and x[1][1][0] == "attr" and x[1][1][1] == ("param", "self") and x[2] == (BUF,)
    if bound[0] == "call" and bound[1][0] == "attr" and bound[1][2] == "start" and is_search(bound[1][1]) and not bound[2]:
        sc = bound[1][1]
        if any(f == ("cmp", "Is", sc, NONE) and t is False for f, t in pa.facts) or any(f == ("cmp", "IsNot", sc, NONE) and t is True for f, t in pa.facts):
            return sc[1][1][2], False
        return None
    if bound[0] == "call" and bound[1] == ("builtin", "len") and bound[2] == (BUF,):
        cands = sorted(f[2][1][1][2] for f, t in pa.facts if f[0] == "cmp" and f[1] in ("Is", "IsNot") and f[3] == NONE and is_search(f[2]) and (t if f[1] == "Is" else not t))
        if cands:
            # several searches can be None on the path (the complete-delimiter search and the partial one): the partial one is
            # the end-anchored pattern
            from .mp_common import pending_idiom
            known = pending_idiom(_PROGRAM[0]) if _PROGRAM else {}
            for c in cands:
                if c in known:
                    return c, True
            return cands[0], True
    return None


_PROGRAM: list = []


def _lang_eq(rep: Report, rule: str, name: str, pat: bytes, ref: bytes, cons: str, loc: str, what: str) -> Optional[rx.DFA]:
    try:
        a, b_, st = rx.compare(pat, ref)
    except rx.Unsupported as e:
        rep.undecide(rule, f"{name}: {e}")
        return None
    if a is None and b_ is None:
        rep.ok(rule, f"L({name}) == {what}", st)
    else:
        if a is not None:
            rep.violation(rule, cons, loc, f"{name} matches {rx.show(a, True)}, which is not a {what}")
        if b_ is not None:
            rep.violation(rule, cons, loc, f"{name} does not match {rx.show(b_, True)}, which is a {what}")
    r = rx.Regex(pat)
    return rx.compile_dfa(r, rx.alphabet_for([r]))


def run(p: Program, rep: Report, tier: str) -> None:
    _PROGRAM[:] = [p]
    rep.explanation = (
        "Round-trip equality over all contents x all chunkings quantifies over run-time bytes and is NOT decided. Decided "
        "necessary conditions: R1.1 provenance - everything derived from the boundary parameter passes re.escape before "
        "re.compile; R1.2 the delimiter regexes, folded with the boundary as one opaque symbol, denote exactly 'line break, "
        "--, boundary, optional --, blanks, line break' (automaton equality), every match starts with CR or LF (which is what "
        "makes 'hold back from the last CR/LF' sufficient), the preamble variant differs only by the optional leading line "
        "break; R1.3 hold-back provenance - on every path that emits Data(more_data=True) the emitted prefix bound and the "
        "deleted prefix bound are the same last_newline() value, last_newline() is min(last LF | len, last CR | len), the "
        "matched path emits up to match.start() and deletes up to match.end(); R1.4 the helper loops handle every event "
        "class, accumulate field data, flush exactly on the last Data event, stream file data per event and rewind before "
        "appending, identically for sync and async; R1.5 both form accessors pass the Latin-1 encoded boundary, the same "
        "charset default and their own stream to the helper of their own interface; R1.6 decoder input discipline: receive_data appends "
        "every chunk and completes on None alone, the header block is split into lines as bytes, File <=> filename parameter present."
    )
    rep.assume("boundary is treated as one opaque alphabet symbol; RFC 2046 boundary characters are regex-inert after re.escape")
    F = Folder(p)
    mp = p.module("baize.multipart")
    dec = p.cls("baize.multipart:MultipartDecoder")
    init = dec.methods.get("__init__")
    ne = dec.methods.get("next_event")
    ln = dec.methods.get("last_newline")
    if init is None or ne is None or ln is None:
        raise AnalysisError("MultipartDecoder.__init__/next_event/last_newline vanished")
    rep.analysed(init.fq, ne.fq, ln.fq)

    # ---------------------------------------------------------------- R1.1
    class Spec(TaintSpec):
        def param_source(self, fn, name):
            return "boundary" if (fn is init and name == "boundary") else None

        def sanitiser(self, fn, call, resolved):
            if resolved == ("ext", "re.escape"):
                return True
            # map(re.escape, <texts>): every element passes the sanitiser
            if resolved == ("builtin", "map") and len(call.args) == 2 and isinstance(call.args[0], (ast.Attribute, ast.Name)):
                try:
                    return p.resolve_callee(fn, call.args[0]) == ("ext", "re.escape")
                except Exception:
                    return False
            return False

    ta = TaintAnalysis(p, Spec())
    env = ta.function_env(init, dec)
    # every `self.<attr> = <compiled regex>`: re.compile(...) in place, or a helper function that returns one
    from .mp_common import decoder_patterns
    dpats = decoder_patterns(p, B)
    compiles: Dict[str, ast.Call] = {attr: node.value for attr, (_pat, _fl, node) in dpats.items()}
    if len(compiles) < 2:
        rep.undecide("R1.1", f"only {len(compiles)} compiled delimiter patterns in MultipartDecoder.__init__")
    for attr, call in compiles.items():
        o = ta.expr(init, call, env, dec)  # origins of everything that flows into the pattern (through a helper's return as well)
        if o:
            rep.violation("R1.1", construct(init, text=f"self.{attr} = re.compile(<boundary unescaped>)"), where(init, call),
                          f"the boundary reaches re.compile for self.{attr} without re.escape: RFC 2046 boundaries may contain + ( ) ? . ' which then act as regex operators")
        else:
            rep.ok("R1.1", f"self.{attr}: every boundary-derived part passes re.escape")
    # any other regex built from the boundary anywhere in the decoder
    for m in dec.methods.values():
        if m is init:
            continue
        for c in calls_in(m):
            r = p.resolve_call(m, c)
            if isinstance(r, tuple) and r[0] == "ext" and r[1] in ("re.compile", "re.search", "re.match", "re.split", "re.sub") and c.args and "boundary" in ast.unparse(c.args[0]) and "escape" not in ast.unparse(c.args[0]):
                rep.violation("R1.1", construct(m, c), where(m, c), "a regex is built from self.boundary without re.escape")
    rep.require_instances("R1.1", 2)

    # ---------------------------------------------------------------- R1.2
    folded: Dict[str, bytes] = {}
    from .mp_common import pending_idiom as _pi
    pending_attrs = set(_pi(p))
    for attr, call in compiles.items():
        if attr in pending_attrs:
            continue  # the end-anchored partial-delimiter pattern is judged by R1.3 (automaton inclusion)
        v = dpats[attr][0]
        if v is None:
            rep.undecide("R1.2", f"self.{attr} pattern not foldable: {dpats[attr][1]}")
            continue
        if not isinstance(v, bytes):
            rep.undecide("R1.2", f"self.{attr} pattern is not bytes")
            continue
        folded[attr] = v
    # which pattern is used in which decoder state
    paths, col, it = run_paths(p, ne, dec)
    rep.cfg_paths += len(paths)
    use: Dict[str, str] = {}
    for pa in paths:
        for e in pa.events:
            if e.kind == "call" and e.a[0] == "attr" and e.a[2] == "search" and e.a[1][0] == "attr" and e.a[1][1] == ("param", "self"):
                attr = e.a[1][2]
                if attr in pending_attrs:
                    continue
                for f, t in pa.facts:
                    if t and f[0] == "cmp" and f[1] == "Eq" and f[2] == ("attr", ("param", "self"), "state") and f[3][0] == "attr":
                        use[attr] = f[3][2]
                if e.b != (("attr", ("param", "self"), "buffer"),):
                    node, fnn = col.nodes[e.tag]
                    rep.violation("R1.2", construct(ne, node), where(ne, node), f"self.{attr} is not searched in the whole pending buffer")
    data_attr = next((a for a, s_ in use.items() if s_ == "DATA"), None)
    pre_attr = next((a for a, s_ in use.items() if s_ == "PREAMBLE"), None)
    if data_attr is None or pre_attr is None or data_attr not in folded or pre_attr not in folded:
        rep.undecide("R1.2", f"could not associate the compiled patterns with the PREAMBLE/DATA states: {use}")
    else:
        loc = where(init, compiles[data_attr])
        d = _lang_eq(rep, "R1.2", f"self.{data_attr}", folded[data_attr], REF_BOUNDARY, construct(init, text=f"self.{data_attr} pattern"), loc, "delimiter (line break, '--', boundary, optional '--', blanks, line break)")
        if d is not None:
            fs = d.first_set()
            if d.accepts_empty() or not fs <= {10, 13}:
                extra = sorted(fs - {10, 13})
                rep.violation("R1.2", construct(init, text=f"self.{data_attr} first set"), loc,
                              f"a delimiter match can start with byte(s) {extra[:5]} other than CR/LF: data containing '--boundary' in mid-line ends the part, and holding back from the last CR/LF no longer protects a split delimiter")
            else:
                rep.ok("R1.2", "every delimiter match starts with CR or LF (first-set of the automaton)")
        _lang_eq(rep, "R1.2", f"self.{pre_attr}", folded[pre_attr], REF_PREAMBLE, construct(init, text=f"self.{pre_attr} pattern"), where(init, compiles[pre_attr]), "first delimiter (optional line break, '--', boundary, ...)")
    try:
        lbv = F.module_const("baize.multipart", "LINE_BREAK")
        a, b_, st = rx.compare(lbv, LB)
        if a is None and b_ is None:
            rep.ok("R1.2", "LINE_BREAK denotes exactly {CRLF, LF, CR}", st)
        else:
            rep.violation("R1.2", construct("baize.multipart:LINE_BREAK", text=repr(lbv)), f"{mp.relpath}:{mp.constants['LINE_BREAK'].lineno}",
                          f"LINE_BREAK does not denote exactly CRLF|LF|CR (witness {rx.show(a if a is not None else b_, True)})")
    except (NotConst, AnalysisError, rx.Unsupported) as e:
        rep.undecide("R1.2", f"LINE_BREAK: {e}")
    blank = mp.constants.get("BLANK_LINE_RE")
    if isinstance(blank, ast.Call) and blank.args:
        try:
            bv = F.fold(mp, blank.args[0])
            a, b_, st = rx.compare(bv, b"\r\n\r\n|\r\r|\n\n")
            if a is None and b_ is None:
                rep.ok("R1.2", "BLANK_LINE_RE denotes exactly {CRLFCRLF, CRCR, LFLF}", st)
            else:
                rep.violation("R1.2", construct("baize.multipart:BLANK_LINE_RE", text=repr(bv)), f"{mp.relpath}:{blank.lineno}", f"the header/body separator pattern changed its language (witness {rx.show(a if a is not None else b_, True)})")
        except (NotConst, rx.Unsupported) as e:
            rep.undecide("R1.2", f"BLANK_LINE_RE: {e}")
    rep.require_instances("R1.2", 5)

    # ---------------------------------------------------------------- R1.3 hold-back provenance
    BUF = ("attr", ("param", "self"), "buffer")

    def truth_of(v: Value, pa: Path) -> Optional[bool]:
        if v[0] == "const":
            return bool(v[1])
        if (v, True) in pa.facts:
            return True
        if (v, False) in pa.facts:
            return False
        if v[0] == "not":
            t = truth_of(v[1], pa)
            return None if t is None else not t
        return None

    n_more = n_last = 0
    for pa in paths:
        if not any(t and f == ("cmp", "Eq", ("attr", ("param", "self"), "state"), f[3]) and f[3][0] == "attr" and f[3][2] == "DATA" for f, t in pa.facts if f[0] == "cmp"):
            continue
        datas = [e for e in pa.events if e.kind == "call" and callee_is(e.a, "Data") and e.a[0] == "cls"]
        dels = [e for e in pa.events if e.kind == "delete" and e.a[0] == "sub" and e.a[1] == BUF]
        if not dels:
            if datas:
                node, fnn = col.nodes[datas[0].tag]
                rep.violation("R1.3", construct(ne, text="Data emitted without consuming the buffer"), where(ne, node), "a Data event is emitted but the emitted bytes stay in the buffer (duplication)")
            continue
        dk = dels[0].a[2]
        del_bound = dk[2] if dk[0] == "slice" and dk[1] == NONE else None
        if not datas:
            # nothing emitted: nothing may be deleted except an empty prefix (bound == the same last_newline value whose slice was empty)
            continue
        kw = dict(datas[0].c)
        dv, mv = kw.get("data"), kw.get("more_data")
        emit_bound = None
        if dv is not None:
            for t in subterms(dv):
                if t[0] == "sub" and t[1] == BUF and t[2][0] == "slice" and t[2][1] == NONE:
                    emit_bound = t[2][2]
        more = truth_of(mv, pa) if mv is not None else None
        node, fnn = col.nodes[datas[0].tag]
        if emit_bound is None or del_bound is None or more is None:
            rep.undecide("R1.3", f"DATA path not understood: data={show(dv)[:50] if dv else None} more={show(mv)[:40] if mv else None}")
            continue
        if more:
            n_more += 1
            is_ln = lambda b: b[0] == "call" and callee_is(b[1], "last_newline")  # noqa: E731
            clamp = _clamped(emit_bound, BUF)
            if clamp is not None and emit_bound == del_bound:
                # max(last_newline(), len(buffer) - len(boundary) - K): sound only while no complete
                # '--boundary' is buffered (a partial delimiter is a proper prefix of CRLF--boundary)
                k, has_ln = clamp
                from .mp_common import boundary_absent
                no_boundary = boundary_absent(pa)
                if not has_ln:
                    rep.violation("R1.3", construct(ne, text=f"hold-back bound {show(emit_bound)[:60]}"), where(ne, node), "the clamped hold-back bound does not include last_newline()")
                elif k < 3:
                    rep.violation("R1.3", construct(ne, text=f"clamp keeps only len(boundary) + {k}"), where(ne, node),
                                  f"the hold-back clamp keeps only len(boundary) + {k} bytes: a partial delimiter (a proper prefix of CRLF--boundary, up to len(boundary) + 3 bytes) can be emitted as data")
                elif not no_boundary:
                    rep.violation("R1.3", construct(ne, text="clamp while a boundary is buffered"), where(ne, node),
                                  "the hold-back clamp is applied although a complete '--boundary' is in the buffer: a delimiter waiting for its trailing line break can be longer than the clamp and would be emitted as data")
                else:
                    rep.ok("R1.3", f"more_data=True (no boundary buffered): emitted and deleted up to max(last_newline(), len(buffer) - len(boundary) - {k})")
                continue
            pk = _pending_bound(emit_bound, pa, BUF)
            if pk is not None and emit_bound == del_bound:
                # hold back from the start of a trailing partial delimiter found by an end-anchored regex (or nothing if none)
                from .mp_common import pending_idiom
                proofs = pending_idiom(p)
                attr, none_case = pk
                pr = proofs.get(attr)
                if pr is None:
                    rep.undecide("R1.3", f"hold-back via self.{attr}.search(buffer): the pattern is not a foldable end-anchored regex")
                elif not pr[0]:
                    wtxt = rx.show(pr[1], True) if pr[1] is not None else "a match that does not start with a line break"
                    rep.violation("R1.3", construct(ne, text=f"pending pattern self.{attr} misses a delimiter prefix"), where(ne, node),
                                  f"the partial-delimiter pattern self.{attr} does not match {wtxt}, which is the beginning of a delimiter: when a chunk ends there, those bytes are emitted as part data")
                else:
                    rep.ok("R1.3", f"more_data=True: emitted and deleted up to {'len(buffer) (no partial delimiter pending)' if none_case else 'the start of the pending partial delimiter'}; "
                                   f"self.{attr} matches every non-empty delimiter prefix (automaton inclusion)")
                continue
            if emit_bound != del_bound:
                rep.violation("R1.3", construct(ne, text=f"emit[:{show(emit_bound)[:40]}] / del[:{show(del_bound)[:40]}]"), where(ne, node),
                              "while more data is expected the emitted prefix and the deleted prefix have different bounds: bytes are lost or emitted twice")
            elif is_ln(emit_bound):
                rep.ok("R1.3", "more_data=True: emitted and deleted up to the same last_newline() value")
            else:
                rep.violation("R1.3", construct(ne, text=f"hold-back bound {show(emit_bound)[:60]}"), where(ne, node),
                              "while more data is expected, data is emitted up to a bound that is not last_newline(): a delimiter split across chunks can be emitted as content")
        else:
            n_last += 1
            ms = lambda b, w: b[0] == "call" and b[1][0] == "attr" and b[1][2] == w and b[1][1][0] == "call" and b[1][1][1][0] == "attr" and b[1][1][1][2] == "search" and b[1][1][1][1] == ("attr", ("param", "self"), data_attr)  # noqa: E731
            if ms(emit_bound, "start") and ms(del_bound, "end") and emit_bound[1][1] == del_bound[1][1]:
                rep.ok("R1.3", "more_data=False: emitted up to match.start(), deleted up to match.end() of the same delimiter match")
            else:
                rep.violation("R1.3", construct(ne, text=f"final emit[:{show(emit_bound)[:40]}] / del[:{show(del_bound)[:40]}]"), where(ne, node),
                              "the last Data event of a part is not 'content up to the delimiter match, delimiter consumed'")
    if n_more < 2 or n_last < 1:
        rep.undecide("R1.3", f"expected 2 hold-back emission paths and 1 final path in the DATA branch, found {n_more}/{n_last}")
    last_newline_shape(p, rep, "R1.3")
    rep.require_instances("R1.3", 4)

    # ---------------------------------------------------------------- R1.4 helper loops
    hs = helpers(p)
    events = [c.name for c in mp.classes.values() if c.name != "Event" and p.cls("baize.multipart:Event") in p.mro(c)]
    for name, fn in hs.items():
        rep.analysed(fn.fq)
        eff = helper_effects(fn)
        # what happens for an event of each kind, decided on the paths of one loop iteration (mp_iter)
        from .mp_iter import helper_rules
        loop_unknown = False
        for rule_, kind_, cons_, msg_ in helper_rules(p, name, fn):
            if rule_ != "R1.4":
                continue
            if kind_ == "undecided" and "event loop not understood" in msg_:
                loop_unknown = True
            if kind_ == "ok":
                rep.ok("R1.4", msg_)
            elif kind_ == "undecided":
                rep.undecide("R1.4", msg_)
            else:
                rep.violation("R1.4", construct(fn, text=cons_), where(fn), msg_)
        if loop_unknown:
            # the helper's event loop is not in a recognised form (driven through a generator / state object ...): the statements the
            # clauses below look for live somewhere the rule does not see - not decided, rather than reported missing
            rep.undecide("R1.4", f"{name}: chunk feeding and the returned list are not checked because the event loop is not understood")
            continue
        rc = [e for e in eff if e.kind == "call" and e.text == "parser.receive_data(chunk)"]
        if not rc:
            rep.violation("R1.4", construct(fn, text="receive_data"), where(fn), f"{name}: chunks are not fed to the decoder")
        ret = [n for n in walk_shallow(fn.node) if isinstance(n, ast.Return)]
        # what is returned is the list the parts are appended to: a local, or an attribute of a holder object
        from .mp_iter import iteration as _iteration
        _it = _iteration(p, fn)
        item_names = {k for k, v_ in _it.roles.items() if v_ == "items"} | {"items"}
        ret_txt = ast.unparse(ret[-1].value).replace(".", "__") if ret and ret[-1].value is not None else ""
        appends_items = any(k == "call" and t.startswith("items.append((field_name") for pa_ in _it.paths for k, t, _v in pa_.effects)
        if not (ret and (ret_txt in item_names) and appends_items):
            rep.violation("R1.4", construct(fn, text="return"), where(fn), f"{name}: does not return the accumulated items")
    if tier_a_equal(hs["parse_stream"], hs["parse_async_stream"]):
        rep.ok("R1.4", "parse_stream and parse_async_stream are equal after removing async/await and mapping awrite/aseek")
    else:
        rep.violation("R1.4", construct("baize.multipart_helper:parse_stream|parse_async_stream", text="sibling mismatch"), "baize/multipart_helper.py", "the sync and async stream helpers differ")
    rep.require_instances("R1.4", 20)

    # ---------------------------------------------------------------- R1.6 decoder input discipline
    from .mp_common import file_field_decision, header_blank_lines_skipped, header_line_split, parse_header_splits_at_first_equals, parseparam_quote_parity, receive_data_discipline, safe_decode_declared_first

    for fnc in (receive_data_discipline, header_line_split, header_blank_lines_skipped, safe_decode_declared_first, file_field_decision, parseparam_quote_parity, parse_header_splits_at_first_equals):
        for kind, fn_, node, cons, msg, facts in fnc(p, rep):
            if kind == "ok":
                rep.ok("R1.6", msg)
            elif kind == "undecided":
                rep.undecide("R1.6", msg)
            else:
                rep.violation("R1.6", construct(fn_, text=cons), where(fn_, node), msg, path_facts=facts)
    rep.require_instances("R1.6", 8)

    # ---------------------------------------------------------------- R1.5 request plumbing
    for side, helper in (("wsgi", "parse_stream"), ("asgi", "parse_async_stream")):
        req = p.cls(f"baize.{side}.requests:Request")
        form = req.methods.get("form")
        pm = req.methods.get("_parse_multipart")
        if form is None or pm is None:
            raise AnalysisError(f"{side} Request.form/_parse_multipart vanished")
        rep.analysed(form.fq, pm.fq)
        # decided on the paths of the form accessor (private helpers such as _parse_multipart inlined): the one call of the
        # stream helper of this interface and what it is given
        fpaths, fcol, _fit = run_paths(p, form, req, inline=_REQ_UNIT)
        rep.cfg_paths += len(fpaths)
        OPT = ("attr", ("attr", ("param", "self"), "content_type"), "options")
        seen_call = False
        verdicts = {"boundary": None, "charset": None, "call": None}
        unread: Set[str] = set()
        okc_pre = lambda c__: c__[0] == "call" and c__[1] == ("attr", OPT, "get") and c__[2] == (("const", "charset"), ("const", "utf8"))  # noqa: E731
        for pa in fpaths:
            hc = [e for e in pa.events if e.kind == "call" and e.a[0] in ("func", "closure") and e.a[1].startswith("baize.multipart_helper:")]
            if not hc:
                continue
            seen_call = True
            if len(hc) != 1 or not callee_is(hc[0].a, helper):
                verdicts["call"] = f"{len(hc)} helper calls / {show(hc[0].a)}"
                continue
            e = hc[0]
            node, _f = fcol.nodes.get(e.tag, (None, form))
            a = e.b
            kw = dict(e.c)
            okcall = len(a) == 3 and (a[0][0] == "gen" and a[0][1].endswith("Request.stream") or (a[0][0] == "call" and callee_is(a[0][1], "stream"))) and kw.get("file_factory") == ("cls", "baize.datastructures:UploadFile")
            if not okcall and verdicts["call"] is None:
                verdicts["call"] = f"{helper}({', '.join(show(x)[:30] for x in a)}, {', '.join(k + '=' + show(v)[:20] for k, v in e.c)})"
            if len(a) >= 3:
                b_, c_ = a[1], a[2]
                # the parameter read as options["boundary"] or as options.get("boundary") (no default: a missing one cannot be encoded)
                _bsrc = lambda t__: t__ == ("sub", OPT, ("const", "boundary")) or (t__[0] == "call" and t__[1] == ("attr", OPT, "get") and t__[2] == (("const", "boundary"),))  # noqa: E731
                okb = b_[0] == "call" and b_[1][0] == "attr" and b_[1][2] == "encode" and _bsrc(b_[1][1]) and len(b_[2]) == 1 and b_[2][0][0] == "const" \
                    and str(b_[2][0][1]).lower().replace("_", "-") in ("latin-1", "latin1", "iso-8859-1", "l1")
                def _unread(t_):
                    # the value comes out of a repository function / class the paths did not open (a public value class, a helper
                    # outside the unit): what it computes is not on the path
                    return any(u[0] == "call" and (u[1][0] in ("func", "closure", "cls") or (u[1][0] == "attr" and any(w[0] == "call" and w[1][0] == "cls" for w in subterms(u[1][1])))) for u in subterms(t_))
                if not okb and _unread(b_):
                    unread.add("boundary")
                if not okc_pre(c_) and _unread(c_):
                    unread.add("charset")
                if not okb and verdicts["boundary"] is None:
                    verdicts["boundary"] = show(b_)[:70]
                okc = c_[0] == "call" and c_[1] == ("attr", OPT, "get") and c_[2] == (("const", "charset"), ("const", "utf8"))
                if not okc and verdicts["charset"] is None:
                    verdicts["charset"] = show(c_)[:70]
        if not seen_call:
            rep.violation("R1.5", construct(pm, text="helper call"), where(pm), f"{side}: _parse_multipart does not call {helper} of its own interface exactly once")
        else:
            if verdicts["boundary"] is None:
                rep.ok("R1.5", f"{side}: boundary = content-type boundary parameter encoded as Latin-1")
            elif "boundary" in unread:
                rep.undecide("R1.5", f"{side}: the boundary is computed by a repository function/class outside the analysed unit: {verdicts['boundary']}")
            else:
                rep.violation("R1.5", construct(form, text="boundary encoding"), where(form), f"{side}: the boundary handed to the decoder is not the Latin-1 encoding of the Content-Type boundary parameter (got {verdicts['boundary']})")
            if verdicts["charset"] is None:
                rep.ok("R1.5", f"{side}: multipart charset default utf8")
            elif "charset" in unread:
                rep.undecide("R1.5", f"{side}: the multipart charset is computed by a repository function/class outside the analysed unit: {verdicts['charset']}")
            else:
                rep.violation("R1.5", construct(form, text="charset default"), where(form), f"{side}: multipart charset default is not utf8 (got {verdicts['charset']})")
            if verdicts["call"] is None:
                rep.ok("R1.5", f"{side}: _parse_multipart -> {helper}(self.stream(), boundary, charset, file_factory=UploadFile)")
            else:
                rep.violation("R1.5", construct(pm, text="helper call"), where(pm), f"{side}: the helper is not called with (self.stream(), boundary, charset, file_factory=UploadFile): {verdicts['call']}")
    # the WSGI form accessor reads its chunks from Request.stream(): that reader must end on an empty read only, otherwise a
    # server that delivers the body in short reads makes the form depend on how the bytes arrived
    # the boundary comes from request.content_type: that accessor parses the WHOLE Content-Type header value (a quoted
    # boundary may contain ',' ';' '=' ...; cutting the value before parsing it truncates the boundary)
    mx = p.cls("baize.requests:MoreInfoFromHeaderMixin")
    ctf = mx.methods.get("content_type")
    if ctf is None:
        raise AnalysisError("MoreInfoFromHeaderMixin.content_type vanished")
    rep.analysed(ctf.fq)
    cpaths, _cc, _ci = run_paths(p, ctf, mx)
    rep.cfg_paths += len(cpaths)
    for pa in cpaths:
        if pa.exit != "return":
            continue
        v = pa.value
        whole = v[0] == "call" and v[1] == ("cls", "baize.datastructures:ContentType") and len(v[2]) == 1 and v[2][0][0] == "call" and v[2][0][1] == ("attr", ("attr", ("param", "self"), "headers"), "get") \
            and v[2][0][2][:1] == (("const", "content-type"),)
        whole = whole or (v[0] == "call" and v[1] == ("cls", "baize.datastructures:ContentType") and len(v[2]) == 1 and v[2][0] == ("sub", ("attr", ("param", "self"), "headers"), ("const", "content-type")))
        if whole:
            rep.ok("R1.5", "request.content_type parses the whole Content-Type header value")
        else:
            rep.violation("R1.5", construct(ctf, text=f"return {show(v)[:80]}"), where(ctf), "request.content_type does not parse the unmodified Content-Type header value: a boundary parameter (which may be a quoted "
                          "string containing ',' or ';') is truncated, the decoder looks for the wrong delimiter and the form comes back empty")
    from .c10 import wsgi_read_loop
    wst = p.cls("baize.wsgi.requests:Request").methods.get("stream")
    if wst is None:
        raise AnalysisError("wsgi Request.stream vanished")
    rep.analysed(wst.fq)
    r = wsgi_read_loop(wst)
    if r[0] == "ok":
        rep.ok("R1.5", "wsgi: the chunk source of the form accessor ends on an empty read only and yields every chunk")
    elif r[0] == "violation":
        rep.violation("R1.5", construct(wst, text="read loop"), where(wst, r[2]), f"wsgi: Request.stream() - the chunk source of the form accessor: {r[1]}; "
                      "with a server that returns short reads the multipart body is cut off (the result depends on the chunking)")
    else:
        rep.undecide("R1.5", f"wsgi Request.stream(): {r[1]}")
    rep.require_instances("R1.5", 8)


def last_newline_shape(p: Program, rep: Report, rule: str) -> None:
    """last_newline() = min(last LF | len(buffer), last CR | len(buffer)) on all four paths and never lets an exception
    escape or a negative index out (C01 R1.3; reused by C15: the hold-back bound is computed from it)."""
    dec = p.cls("baize.multipart:MultipartDecoder")
    ln = dec.methods.get("last_newline")
    if ln is None:
        raise AnalysisError("MultipartDecoder.last_newline vanished")
    rep.analysed(ln.fq)
    BUF = ("attr", ("param", "self"), "buffer")
    # last_newline = min(last LF or len, last CR or len)
    lpaths, lcol, lit = run_paths(p, ln, dec, raises=lambda c, i, callee, node: ["ValueError"] if callee[0] == "attr" and callee[2] in ("rindex", "index") else [])
    seen = set()
    bounded_scan: list = []
    for pa in lpaths:
        if pa.exit != "return":
            rep.violation(rule, construct(ln, text=f"raises {pa.value}"), where(ln), f"last_newline lets {pa.value} escape when the buffer has no line break")
            continue
        v = pa.value

        def kind(x: Value) -> Optional[str]:
            if x[0] == "call" and x[1][0] == "attr" and x[1][2] in ("rindex", "rfind") and x[1][1] == BUF and x[2] and x[2][0][0] == "const":
                if len(x[2]) > 1 or x[3]:
                    bounded_scan.append(x)  # rindex(sub, start[, end]): only part of the buffer is searched
                return {b"\n": "LF", b"\r": "CR"}.get(x[2][0][1])
            if x[0] == "call" and x[1] == ("builtin", "len") and x[2] == (BUF,):
                return "LEN"
            return None

        def absent(x: Value) -> Optional[bool]:
            """what the path knows about `<buffer>.rfind(sub) == -1` (True: no such byte, False: there is one, None: not tested)"""
            for f, t in pa.facts:
                if f[0] == "cmp" and f[1] in ("Eq", "NotEq") and ((f[2][:3] == x[:3] and f[3] == ("const", -1)) or (f[3][:3] == x[:3] and f[2] == ("const", -1))):
                    return t if f[1] == "Eq" else (not t)
                if f[0] == "cmp" and f[1] in ("Lt", "GtE") and f[2][:3] == x[:3] and f[3] == ("const", 0):
                    return t if f[1] == "Lt" else (not t)
            return None

        is_rfind = lambda x: x[0] == "call" and x[1][0] == "attr" and x[1][2] == "rfind"  # noqa: E731
        if v[0] == "call" and v[1] in (("builtin", "min"), ("builtin", "max")) and len(v[2]) == 2 and all(is_rfind(x) for x in v[2]) \
                and {kind(v[2][0]), kind(v[2][1])} == {"LF", "CR"} and any(absent(x) is not None for x in v[2]):
            # the rfind spelling, decided per path from what it knows about the two -1 tests
            a_, b_ = v[2]
            aa, ab = absent(a_), absent(b_)
            if v[1] == ("builtin", "min") and aa is False and ab is False:
                seen.add(("CR", "LF"))
            elif v[1] == ("builtin", "max") and {aa, ab} == {True, False}:
                present = a_ if aa is False else b_
                seen.add(tuple(sorted((kind(present), "LEN"))))   # max(-1, i) == i == min(len(buffer), i)
            elif v[1] == ("builtin", "max") and aa is False and ab is False:
                rep.violation(rule, construct(ln, text="max(last_nl, last_cr) with both present"), where(ln), "last_newline returns the LATER of the last CR / last LF on a path where both are buffered: a delimiter whose CR is already buffered is emitted as data when the LF arrives in the next chunk")
                seen.add(("bad",))
            elif v[1] == ("builtin", "min") and (aa is True or ab is True):
                rep.violation(rule, construct(ln, text="min(.., -1)"), where(ln), "last_newline returns min(..) on a path where one rfind() is known to be -1: the result is -1, not the index of the line break that IS buffered")
                seen.add(("bad",))
            elif v[1] == ("builtin", "max") and aa is True and ab is True:
                rep.violation(rule, construct(ln, text="max(-1, -1)"), where(ln), "last_newline returns -1 when the buffer has no line break (not len(buffer))")
                seen.add(("bad",))
            else:
                rep.undecide(rule, f"last_newline: {show(v)[:40]} on a path that has not settled both `rfind(..) == -1` tests ({'; '.join(pa.fact_text())[:80]})")
                seen.add(("bad",))
        elif kind(v) == "LEN" and any(is_rfind(x) and absent(x) is True for f, _t in pa.facts for x in subterms(f) if isinstance(x, tuple) and len(x) >= 3):
            ab_ = {kind(x) for f, _t in pa.facts for x in subterms(f) if isinstance(x, tuple) and len(x) >= 3 and is_rfind(x) and absent(x) is True}
            if ab_ == {"LF", "CR"}:
                seen.add(("LEN", "LEN"))
            else:
                rep.violation(rule, construct(ln, text="len(buffer) although a line break is buffered"), where(ln), "last_newline returns len(buffer) on a path where only one kind of line break is known to be absent")
                seen.add(("bad",))
        elif v[0] == "call" and v[1] == ("builtin", "min") and len(v[2]) == 2:
            ks = tuple(sorted(k for k in (kind(v[2][0]), kind(v[2][1])) if k))
            seen.add(ks)
        elif v[0] == "call" and v[1] == ("builtin", "min") and len(v[2]) == 1 and v[2][0][0] == "comp" and dict(v[3]).get("default") is not None:
            # min([i for i in (rfind(LF), rfind(CR)) if i != -1], default=len(buffer)): the indexes that exist, else the length
            c_ = v[2][0]
            src_ = c_[3]
            kinds_ = tuple(sorted(k for k in (kind(x) for x in (src_[1] if src_[0] in ("tuple", "list") else ())) if k))
            el_ok = c_[2] == ("elem", src_)
            conds_ = [show(x) for x in c_[4]]
            filt_ok = len(c_[4]) == 1 and any(t in conds_[0] for t in ("!= -1", ">= 0", "> -1", "== -1")) and "elem(" in conds_[0]
            if kinds_ == ("CR", "LF") and el_ok and filt_ok and kind(dict(v[3])["default"]) == "LEN" and all(x[1][2] == "rfind" for x in src_[1]):
                seen.update({("CR", "LF"), ("LEN", "LF"), ("CR", "LEN"), ("LEN", "LEN")})
            else:
                rep.undecide(rule, f"last_newline: min(..., default=...) in an unrecognised form: {show(v)[:90]}")
                seen.add(("bad",))
        elif v[0] == "call" and v[1] == ("builtin", "max"):
            rep.violation(rule, construct(ln, text="max(last_nl, last_cr)"), where(ln), "last_newline returns the LATER of the last CR / last LF: a delimiter whose CR is already buffered is emitted as data when the LF arrives in the next chunk")
            seen.add(("bad",))
        elif v[0] == "call" and v[1] == ("builtin", "min"):
            rep.undecide(rule, f"last_newline: a minimum in an unrecognised form: {show(v)[:90]}")
            seen.add(("bad",))
        else:
            rep.violation(rule, construct(ln, text=f"return {show(v)[:60]}"), where(ln), "last_newline is not the minimum of the last LF index and the last CR index (each defaulting to len(buffer))")
            seen.add(("bad",))
    want = {("CR", "LF"), ("LEN", "LF"), ("CR", "LEN"), ("LEN", "LEN")}
    if bounded_scan:
        x = bounded_scan[0]
        rep.violation(rule, construct(ln, text=f"bounded scan {show(x)[:60]}"), where(ln),
                      f"last_newline searches only part of the buffer ({show(x)[:60]}): a start index computed from the buffer length goes negative for a short buffer and then counts from the "
                      "END, so a line break at the start of a short buffer (a partial delimiter after a chunk edge) is missed and the delimiter is emitted as part data")
    elif seen == want:
        rep.ok(rule, "last_newline = min(last LF | len(buffer), last CR | len(buffer)) on all four paths")
    elif ("bad",) not in seen:
        rep.violation(rule, construct(ln, text=f"cases {sorted(seen)}"), where(ln), f"last_newline does not cover the four cases LF/CR present or absent (found {sorted(seen)})")
