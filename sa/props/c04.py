"""C04 - the WSGI and ASGI stacks are observationally equivalent (sibling cross-check)."""
from __future__ import annotations

import ast
import os
import re
from collections import Counter
from typing import Dict, List, Optional, Set, Tuple

from ..common import construct, where
from ..fold import Folder, NotConst
from ..loader import AnalysisError, ClassInfo, FuncInfo, Module, Program
from ..report import Report
from ..sibling import NAMEMAP, fingerprint, norm_key, normalised, tier_a_equal

SIB_MODULES = ["requests", "responses", "routing", "staticfiles", "shortcut", "middleware"]

# public names that exist on one side only, each with its reason
ASGI_ONLY_PUBLIC = {
    "WebSocket": "WebSocket support exists only in ASGI", "WebSocketDisconnect": "WebSocket only", "WebsocketDenialResponse": "WebSocket only",
    "WebSocketState": "WebSocket only", "websocket_session": "WebSocket only", "ClientDisconnect": "ASGI delivers disconnects as messages",
    "empty_receive": "ASGI channel placeholders", "empty_send": "ASGI channel placeholders",
    "send_http_start": "ASGI event helpers", "send_http_body": "ASGI event helpers", "CachedStream": "ASGI middleware body buffer",
}
WSGI_ONLY_PUBLIC: Dict[str, str] = {}

# definitions that legitimately exist on one side only
ONE_SIDED_OK = {
    ("asgi", "requests", "Request.is_disconnected"): "WSGI has no disconnect notification",
    ("asgi", "requests", "ClientDisconnect"): "ASGI-only exception",
    ("asgi", "responses", "StreamingResponse.wait_close"): "disconnect watcher, ASGI only",
    ("asgi", "responses", "FileResponse.create_send_or_zerocopy"): "zero-copy extension / sendfile emulation, ASGI only",
    ("asgi", "responses", "FileResponse.create_send_or_zerocopy.sendfile"): "zero-copy closure",
    ("asgi", "responses", "FileResponse.create_send_or_zerocopy.fake_sendfile"): "sendfile emulation closure",
    ("asgi", "responses", "Sendfile.__call__"): "protocol type of the sendfile closures",
    ("asgi", "responses", "Sendfile"): "protocol type of the sendfile closures",
    ("asgi", "responses", "open_for_sendfile"): "descriptor open for sendfile",
    ("asgi", "shortcut", "websocket_session"): "WebSocket only",
    ("asgi", "shortcut", "websocket_session.asgi"): "WebSocket only",
    ("asgi", "middleware", "CachedStream"): "spooled body buffer of the ASGI middleware",
    ("asgi", "middleware", "CachedStream.__init__"): "spooled body buffer",
    ("asgi", "middleware", "CachedStream.push"): "spooled body buffer",
    ("asgi", "middleware", "CachedStream.push_eof"): "spooled body buffer",
    ("asgi", "middleware", "CachedStream.__anext__"): "spooled body buffer",
    ("wsgi", "staticfiles", "request_path"): "PATH_INFO -> text (Latin-1 bytes re-decoded as UTF-8); ASGI servers deliver scope['path'] already decoded",
    ("wsgi", "middleware", "ensure_next"): "forces the first chunk so that start_response has been called (WSGI only)",
    ("wsgi", "middleware", "ensure_next.generator"): "forces the first chunk (WSGI only)",
}

def _gateway_twin(we, ae) -> bool:
    """class attributes that hold the NAME of the gateway entry a shared template method reads or writes: the environ key on one side,
    the corresponding scope key on the other (sibling.KEYMAP), or the names of the interface's own response classes"""
    from ..sibling import KEYMAP
    if isinstance(we, ast.Constant) and isinstance(ae, ast.Constant) and isinstance(we.value, str) and isinstance(ae.value, str):
        return KEYMAP.get(we.value) == ae.value
    if isinstance(we, ast.Name) and isinstance(ae, ast.Name):
        return we.id == ae.id  # the same-named class of each interface (Response, FileResponse ...)
    return False


def _one_sided_moved(side: str, mod: str, q: str, present) -> str:
    """reason of a sanctioned one-sided definition that now lives in another sibling module of the same side (and no longer in its old one)"""
    for (s_, m_, q_), why in ONE_SIDED_OK.items():
        if s_ == side and q_ == q and m_ != mod and (m_, q_) not in present:
            return why
    return ""


# nested definitions whose names differ between the sides
RENAMED = {
    ("shortcut", "request_response.wsgi"): "request_response.asgi",
    ("middleware", "middleware.d.wsgi"): "middleware.d.asgi",
    ("middleware", "middleware.d.wsgi.next_call"): "middleware.d.asgi.next_call",
    ("middleware", "NextResponse.from_app.start_response"): "NextResponse.from_app.send",
}

# ----------------------------------------------------------------------------------------------
# Sanctioned differences: (module, qualname) -> list of (side, regex on the item's text, reason).
# Everything that differs and is not matched here is a VIOLATION naming both constructs.
S = "sanctioned"
GATEWAY = [
    ("*", r"^\('const', \"b?'(latin-1|latin1)'\"\)", "header bytes are decoded/encoded as Latin-1 only where the gateway hands out bytes (ASGI)"),
    ("*", r"^\('const', \"b?'hdr:", "request-header access vocabulary: environ['HTTP_X'] vs scanning scope['headers']"),
    ("*", r"^\('const', \"'(path|root_path|query_string|method|path_params|headers|type|lifespan)'\"\)", "gateway mapping key vocabulary"),
    ("*", r"^\('param', '(receive|send|start_response|chunk_size)'", "gateway-specific parameters"),
    ("*", r"^\('return', ", "WSGI returns/yields the body iterable, ASGI returns None after awaiting the sends"),
    ("*", r"^\('call', '(send_http_start|send_http_body|start_response|list_headers|run_in_threadpool|ensure_future)'", "gateway emit vocabulary (sequence checked by C05)"),
    ("wsgi", r"^\('call', '\w+', \(.*\), \('as_bytes=False',\), ", "a shared header-listing helper asked for native strings (WSGI) / bytes (ASGI): the gateway's header type"),
    ("asgi", r"^\('call', '\w+', \(.*\), \('as_bytes=True',\), ", "same"),
    ("*", r"^\('const', \"?'Unsupported lifespan", "ASGI lifespan guard"),
    ("*", r"^\('raise', \"RuntimeError\('Unsupported lifespan", "ASGI lifespan guard"),
]
ALL = ".*"
SANCTIONED: Dict[Tuple[str, str], List[Tuple[str, str, str]]] = {
    # whole bodies that are gateway plumbing by nature (signature/decorators are still compared)
    ("requests", "HTTPConnection.__init__"): [("*", r"^\('attr-store', '_(start_response|receive|send)'", "stores the gateway's own channel objects")],
    ("requests", "HTTPConnection.__eq__"): [("*", ALL, "compares the gateway's own channel objects")],
    ("requests", "HTTPConnection.client"): [("*", ALL, "client address comes from REMOTE_ADDR/REMOTE_PORT (WSGI) vs scope['client'] (ASGI)")],
    ("requests", "HTTPConnection.headers"): [("*", ALL, "environ -> header mapping (WSGI) vs decoding scope['headers'] (ASGI)")],
    ("requests", "Request.__init__"): [("asgi", r"_is_disconnected|'http'", "ASGI tracks disconnects and asserts the scope type")],
    ("requests", "Request.stream"): [("*", ALL, "reads wsgi.input (WSGI) vs receive() messages (ASGI); structure checked by C10")],
    ("requests", "Request.json"): [("*", r"^\('call', 'loads', \(\"(self\.body|_L)\.decode\(self\.content_type\.options\.get\('charset', 'utf8'\)\)\",\)", "ASGI first awaits the cached body future into a local; same decode expression")],
    ("requests", "Request.close"): [("*", r"'form' in self\.__dict__", "ASGI caches a future: it additionally requires the future to be done"), ("asgi", r"^\('const', \"'form'\"\)", "same"),
                                    ("*", r"^\('call', 'close', \(\), \(\), \(('_L\.done\(\)',)?\)\)", "same, with the cache looked up EAFP-style: the ASGI side closes the form only when its future is done"),
                                    ("wsgi", r"^\('call', 'close', \(\), \(\), \((?=.*('form'|_L)).+\)\)$", "same, with the cache looked up through a helper / sentinel: closed only under a test of the cached form entry"),
                                    ("asgi", r"^\('call', 'close', \(\), \(\), \((?=.*done\(\)).+\)\)$", "same: the ASGI side closes the form only when its cached future is done")],
    ("responses", "FileResponse.handle_all"): [("*", r"'(open|seek|create_send_or_zerocopy|open_for_sendfile)'|'rb'", "file reading: with open (WSGI) vs sendfile closure (ASGI); framing checked by C02")],
    ("responses", "FileResponse.handle_single_range"): [("*", r"'(open|seek|create_send_or_zerocopy|open_for_sendfile)'|'rb'", "file reading vocabulary (C02)")],
    ("responses", "FileResponse.handle_several_ranges"): [("*", r"'(open|seek|create_send_or_zerocopy|open_for_sendfile)'|'rb'", "file reading vocabulary (C02)")],
    ("responses", "FileResponse.__call__"): [("asgi", r"^\('const', \"'headers'\"\)", "header scan loop")],
    ("responses", "SendEventResponse.render_stream"): [("*", r"'(close|aclose|submit|push|__iter__|__next__)'", "relay thread (WSGI) vs relay task (ASGI); hand-off checked by C06"),
                                                       ("*", r"^\('attr-store', '\w+', '(queue|asyncio)\.Queue\(maxsize=1\)'", "the hand-off queue of the relay kept in a holder object: thread queue (WSGI) vs asyncio queue (ASGI); C06"),
                                                       ("*", r"^\('attr-store', '\w+', '(threading|asyncio)\.Event\(\)'", "the stop flag kept as an Event of the respective concurrency model; C06"),
                                                       ("*", r"^\('raise', '_L', \('finally', 'not \(_L is None\)'\)\)", "the relay's own exception is re-raised by the consumer's finally (the cancel test sits in a helper on one side)"),
                                                       ("wsgi", r"^\('const', '0\.\d+'\)", "poll interval of the WSGI consumer's drain-until-done loop (a thread cannot be cancelled; C06/R6.3)"),
                                                       ("*", r"^\('raise', '_L', \('finally', 'not \(_L is None\)', 'not \((_L|_L\.cancel\(\))\)'\)\)", "the relay's own exception is re-raised unless the relay was cancelled: WSGI takes cancel()'s result before its drain loop (a pool future that never started must not be waited for), ASGI tests it in place")],
    ("responses", "SendEventResponse.render_stream.push"): [("*", r"'(close|aclose|__iter__|__next__)'", "iterator protocol vocabulary")],
    ("responses", "StreamResponse.render_stream"): [("asgi", r"'(close|aclose)'", "ASGI closes the async iterable itself; a WSGI server calls close() on the response iterable")],
    ("responses", "StreamingResponse.__call__"): [("asgi", r"'(close|send|wait_close)'", "disconnect watcher and generator driving are ASGI plumbing (C06)")],
    ("routing", "Hosts.__call__"): [("asgi", r"^\('const', \"'headers'\"\)", "header scan loop")],
    ("staticfiles", "Files.__call__"): [("asgi", r"^\('const', \"'headers'\"\)", "header scan loop"),
                                        ("*", r"^\('call', '\w+', \((\"REQ\['path'\]\"|'request_path\(REQ\)'|)", "WSGI re-decodes PATH_INFO (Latin-1 -> UTF-8) through request_path(); ASGI reads scope['path'] (R4.7)")],
    ("staticfiles", "Pages.__call__"): [("asgi", r"^\('const', \"'headers'\"\)", "header scan loop"),
                                        ("*", r"^\('call', '\w+', \((\"REQ\['path'\]\"|'request_path\(REQ\)'|)", "WSGI re-decodes PATH_INFO (Latin-1 -> UTF-8) through request_path(); ASGI reads scope['path'] (R4.7)")],
    ("shortcut", "request_response"): [("asgi", r"websocket|WebsocketDenialResponse|'Response', \('404',\)|'404'|not \(REQ\['type'\]", "ASGI apps also receive websocket scopes and deny them")],
    ("shortcut", "request_response.wsgi"): [("asgi", r"websocket|WebsocketDenialResponse|'Response', \('404',\)|'404'|not \(REQ\['type'\]", "ASGI apps also receive websocket scopes and deny them"),
                                            ("wsgi", r"^\('call', 'Request', \(\), \(\), \(\)\)", "same call, unguarded on WSGI")],
    ("middleware", "NextRequest.stream"): [("wsgi", r"'(16|4096)'", "chunk_size default of the WSGI stream signature")],
    ("middleware", "NextResponse.from_app"): [("*", ALL, "captures start_response arguments (WSGI) vs response messages (ASGI); checked by C20")],
    ("middleware", "NextResponse.from_app.start_response"): [("*", ALL, "capture callbacks of the two gateways (C20)")],
}
SANCTIONED[("shortcut", "request_response")].append(("wsgi", r"^\('call', 'Request', \(\), \(\), \(\)\)", "same call, unguarded on WSGI"))


def sib_funcs(p: Program, side: str, mod: str) -> Dict[str, FuncInfo]:
    m = p.module(f"baize.{side}.{mod}")
    return {f.qualname: f for f in m.all_funcs}


def shared_names(p: Program) -> Set[str]:
    out: Set[str] = set()
    for m in p.modules.values():
        if m.name.startswith(("baize.wsgi", "baize.asgi")):
            for c in m.classes.values():
                out.add(c.name)
                out.update(NAMEMAP.get(k, k) for k in c.methods)
            out.update(NAMEMAP.get(k, k) for k in m.functions)
        else:
            out.update(m.functions)
            for c in m.classes.values():
                out.add(c.name)
                out.update(c.methods)
    out.update({"quote", "guess_type", "formatdate", "parse_qsl", "loads", "dumps", "stat", "open", "close", "lseek", "read", "seek", "join", "get", "encode", "decode"})
    out -= {"__init__", "get", "join", "encode", "decode", "read"}
    return out


def items_text(item) -> str:
    return repr(item)


def run(p: Program, rep: Report, tier: str) -> None:
    rep.explanation = (
        "Sibling cross-check: every definition of baize.wsgi.* is paired with its baize.asgi.* namesake (plus an explicit "
        "table of renamed nested definitions and parse_stream/parse_async_stream). Tier A: after removing async/await, "
        "annotations and docstrings, mapping the gateway vocabulary and alpha-renaming locals, the two ASTs are equal. "
        "Tier B (pairs that differ structurally): multiset comparison of effect fingerprints - parameters and defaults, "
        "decorators, constants, header writes (key, value expression, lexical guard), request-mapping stores, attribute "
        "stores, raises, calls into shared code with arguments and guard. Every remaining difference must be in the "
        "sanctioned table (one line of reason each); anything else is a violation naming both constructs. Also: public "
        "name pairing (__all__), one-sided definitions, class attributes and bases, no one-sided override of shared bases; "
        "R4.5 the shared multipart decoder treats every arriving chunk (empty ones included) as bytes to append, so the different "
        "chunk shapes of the two gateways cannot change the form; R4.6 the scope and the environ branch of the shared URL constructor pass "
        "corresponding gateway values to one builder."
    )
    rep.assume("values computed by shared stdlib calls are equal when their argument expressions are; duplicate request-header semantics (ASGI last-wins scan vs server-joined environ) are outside what the fingerprints decide")
    F = Folder(p)
    names = shared_names(p)
    from .. import sibling as _sib
    _sib.PROGRAM = p

    # ---------------------------------------------------------------- R4.1 public pairing
    try:
        w_all = set(F.module_const("baize.wsgi", "__all__"))
        a_all = set(F.module_const("baize.asgi", "__all__"))
    except (NotConst, AnalysisError) as e:
        w_all = a_all = set()
        rep.undecide("R4.1", f"__all__ not foldable: {e}")
    for n in sorted(w_all - a_all):
        if n in WSGI_ONLY_PUBLIC:
            rep.ok("R4.1", f"{n}: WSGI only ({WSGI_ONLY_PUBLIC[n]})")
        else:
            rep.violation("R4.1", construct("baize.wsgi:__all__", text=n), "baize/wsgi/__init__.py:1", f"public name {n!r} exists in baize.wsgi but not in baize.asgi")
    for n in sorted(a_all - w_all):
        if n in ASGI_ONLY_PUBLIC:
            rep.ok("R4.1", f"{n}: ASGI only ({ASGI_ONLY_PUBLIC[n]})")
        else:
            rep.violation("R4.1", construct("baize.asgi:__all__", text=n), "baize/asgi/__init__.py:1", f"public name {n!r} exists in baize.asgi but not in baize.wsgi")
    for n in sorted(w_all & a_all):
        rep.ok("R4.1", f"{n}: public on both sides")
    rep.require_instances("R4.1", 25)

    # ---------------------------------------------------------------- R4.2 function pairs
    # The unit of comparison is a PUBLIC definition together with everything private that only exists to serve it: its nested
    # functions, the private functions / methods it calls (folded by sibling.fingerprint) or hands on as values, and the
    # methods of private holder classes it instantiates. Moving code between those - on one side or on both - leaves the
    # unit's multiset of effects unchanged.
    pairs: List[Tuple[str, FuncInfo, FuncInfo]] = []
    members: Dict[str, List[FuncInfo]] = {}
    wu_all = {(m_, q_) for m_ in SIB_MODULES for q_ in _units(p, "wsgi", m_)}
    au_all = {(m_, q_) for m_ in SIB_MODULES for q_ in _units(p, "asgi", m_)}
    for mod in SIB_MODULES:
        wu, au = _units(p, "wsgi", mod), _units(p, "asgi", mod)
        used_a: Set[str] = set()
        for q, ms in sorted(wu.items()):
            f = ms[0]
            tgt = RENAMED.get((mod, q), q)
            if tgt in au:
                used_a.add(tgt)
                pairs.append((mod, f, au[tgt][0]))
                members[f.fq] = ms
                members[au[tgt][0].fq] = au[tgt]
            elif ("wsgi", mod, q) in ONE_SIDED_OK:
                rep.ok("R4.2", f"{mod}.{q}: WSGI only ({ONE_SIDED_OK[('wsgi', mod, q)]})")
            elif _one_sided_moved("wsgi", mod, q, wu_all):
                rep.ok("R4.2", f"{mod}.{q}: WSGI only ({_one_sided_moved('wsgi', mod, q, wu_all)}; moved here from another module of the package)")
            else:
                rep.violation("R4.2", construct(f, text="one-sided definition"), f.loc, f"{f.fq} has no ASGI sibling (a behaviour defined on one interface only)")
        for q, ms in sorted(au.items()):
            if q in used_a:
                continue
            f = ms[0]
            if ("asgi", mod, q) in ONE_SIDED_OK:
                rep.ok("R4.2", f"{mod}.{q}: ASGI only ({ONE_SIDED_OK[('asgi', mod, q)]})")
            elif _one_sided_moved("asgi", mod, q, au_all):
                rep.ok("R4.2", f"{mod}.{q}: ASGI only ({_one_sided_moved('asgi', mod, q, au_all)}; moved here from another module of the package)")
            else:
                rep.violation("R4.2", construct(f, text="one-sided definition"), f.loc, f"{f.fq} has no WSGI sibling (a behaviour defined on one interface only)")
    mh = p.module("baize.multipart_helper")
    if "parse_stream" not in mh.functions or "parse_async_stream" not in mh.functions:
        raise AnalysisError("parse_stream / parse_async_stream vanished")
    pairs.append(("multipart_helper", mh.functions["parse_stream"], mh.functions["parse_async_stream"]))
    # UploadFile sync/async method pairs and FormData.close/aclose
    ds = p.module("baize.datastructures")
    for cname, pairs_m in (("UploadFile", [("write", "awrite"), ("read", "aread"), ("seek", "aseek"), ("close", "aclose")]), ("FormData", [("close", "aclose")])):
        ci = ds.classes.get(cname)
        if ci is None:
            raise AnalysisError(f"datastructures.{cname} vanished")
        for s_, a_ in pairs_m:
            if s_ in ci.methods and a_ in ci.methods:
                _check_async_wrapper(p, rep, ci, ci.methods[s_], ci.methods[a_])
            else:
                rep.violation("R4.2", construct(ci, text=f"{s_}/{a_}"), ci.loc, f"{cname} lacks one of the sync/async pair {s_}/{a_}")

    n_a = n_b = 0
    for mod, f, g in pairs:
        rep.analysed(f.fq, g.fq)
        mf, mg = members.get(f.fq, [f]), members.get(g.fq, [g])
        rel = lambda root, m: m.qualname[len(root.qualname):] if m.qualname.startswith(root.qualname) else m.qualname  # noqa: E731
        same_members = sorted(rel(f, m) for m in mf) == sorted(rel(g, m) for m in mg) or (len(mf) == 1 and len(mg) == 1)
        if same_members and tier_a_equal(f, g) and all(tier_a_equal(a_, b_) for a_, b_ in zip(sorted(mf[1:], key=lambda m: rel(f, m)), sorted(mg[1:], key=lambda m: rel(g, m)))):
            n_a += 1
            rep.ok("R4.2", f"{mod}.{f.qualname}: normalised ASTs equal (tier A{', with ' + str(len(mf) - 1) + ' private members' if len(mf) > 1 else ''})")
            continue
        n_b += 1
        fw, fa = _strip_gateway_guards(_unit_fingerprint(mf, names)), _strip_gateway_guards(_unit_fingerprint(mg, names))
        only_w = fw - fa
        only_a = fa - fw
        sanc = list(GATEWAY)
        for (m_, q_), lst in SANCTIONED.items():
            if m_ == mod and (q_ == f.qualname or q_.startswith(f.qualname + ".")):
                sanc = sanc + lst
        # the return-shape sanction is for code that talks to the gateway (application callables, generators, coroutines
        # awaiting the channel); a plain accessor that takes no gateway object must return the same shape on both sides
        def _gw(fi) -> bool:
            return bool(set(fi.params) & {"environ", "start_response", "scope", "receive", "send"}) or fi.is_generator() or any(_gw(n_) for n_ in fi.nested.values())
        gatewayish = _gw(f) or _gw(g) or g.is_async != f.is_async
        if not gatewayish:
            sanc = [x for x in sanc if not x[1].startswith("^\\('return', ")]
        unexplained_w = _filter(only_w, "wsgi", sanc)
        unexplained_a = _filter(only_a, "asgi", sanc)
        if not unexplained_w and not unexplained_a:
            rep.ok("R4.2", f"{mod}.{f.qualname}: fingerprints agree up to {sum(only_w.values()) + sum(only_a.values())} sanctioned gateway differences (tier B)")
            continue
        # the only unexplained difference is HOW the same shared callee is given its arguments, and one side passes a `**mapping`
        # it filled while reading the request (explicit keywords there, a spread here): the argument sets cannot be compared on
        # the fingerprint - not decided, rather than reported as a difference
        def _spread_call(it):
            return isinstance(it, tuple) and len(it) >= 4 and it[0] == "call" and any(str(k_).startswith("None=") for k_ in it[3])
        calls_w = [i for i in unexplained_w if isinstance(i, tuple) and i and i[0] == "call"]
        calls_a = [i for i in unexplained_a if isinstance(i, tuple) and i and i[0] == "call"]
        if len(calls_w) == len(unexplained_w) and len(calls_a) == len(unexplained_a) and calls_w and calls_a \
                and {i[1] for i in calls_w} == {i[1] for i in calls_a} and (any(_spread_call(i) for i in calls_w) or any(_spread_call(i) for i in calls_a)):
            rep.undecide("R4.2", f"{mod}.{f.qualname}: both sides call {sorted({i[1] for i in calls_w})} but one passes a **mapping built at run time: argument agreement not decidable on the fingerprint")
            continue
        if not same_members and os.environ.get("BAIZE_C04_STRICT") != "1":
            # the two sides are not built from the same private parts (a helper / holder class / iterator object exists on one side
            # only): their effect fingerprints are not comparable item by item - a structural difference, reported as not decided
            extra_w = sorted(set(rel(f, m) for m in mf) - set(rel(g, m) for m in mg))
            extra_a = sorted(set(rel(g, m) for m in mg) - set(rel(f, m) for m in mf))
            rep.undecide("R4.2", f"{mod}.{f.qualname}: the two interfaces are structured differently (private members only on WSGI: {extra_w[:3]}, only on ASGI: {extra_a[:3]}): effect agreement not decided")
            continue
        rep.violation("R4.2", construct(f"baize.*.{mod}:{f.qualname}", text="wsgi-only " + "; ".join(sorted(items_text(i) for i in unexplained_w))[:400] + " || asgi-only " + "; ".join(sorted(items_text(i) for i in unexplained_a))[:400]),
                      f"{f.loc} vs {g.loc}",
                      f"{f.fq} and {g.fq} differ in effects that are not a sanctioned gateway difference",
                      wsgi_only=sorted(items_text(i) for i in unexplained_w), asgi_only=sorted(items_text(i) for i in unexplained_a))
    rep.extra["pairs"] = len(pairs)
    rep.extra["tier_a_equal"] = n_a
    rep.extra["tier_b_compared"] = n_b
    rep.require_instances("R4.2", 60)

    # ---------------------------------------------------------------- class level: attributes and bases
    for mod in SIB_MODULES:
        wm, am = p.module(f"baize.wsgi.{mod}"), p.module(f"baize.asgi.{mod}")
        for cname, wc in wm.classes.items():
            if _private_class(wc):
                continue  # a private holder class is compared through the units that use it
            ac = am.classes.get(cname)
            if ac is None:
                if ("wsgi", mod, cname) not in ONE_SIDED_OK:
                    rep.violation("R4.2", construct(wc, text="one-sided class"), wc.loc, f"class {wc.fq} has no ASGI sibling")
                continue
            wa = {k: _attr_text(F, wc, v) for k, v in wc.attrs.items()}
            aa = {k: _attr_text(F, ac, v) for k, v in ac.attrs.items()}
            for k in sorted(set(wa) | set(aa)):
                if wa.get(k) == aa.get(k):
                    rep.ok("R4.3", f"{cname}.{k} equal on both sides")
                elif cname == "SendEventResponse" and k == "required_headers" and _only_connection_differs(F, wc, ac):
                    rep.ok("R4.3", "SendEventResponse.required_headers differ only by the hop-by-hop Connection header (the statement's sanctioned difference)")
                elif _gateway_twin(wc.attrs.get(k), ac.attrs.get(k)):
                    rep.ok("R4.3", f"{cname}.{k}: the two sides name corresponding gateway entries ({wa.get(k)} <-> {aa.get(k)})")
                elif k == "thread_pool" and cname == "SendEventResponse":
                    rep.ok("R4.3", "SendEventResponse.thread_pool: WSGI relay thread pool (no observable response difference)")
                else:
                    rep.violation("R4.3", construct(f"baize.*.{mod}:{cname}", text=f"{k}: wsgi {wa.get(k)} | asgi {aa.get(k)}"), f"{wc.loc} vs {ac.loc}",
                                  f"class attribute {cname}.{k} differs between the interfaces: wsgi {wa.get(k)!r}, asgi {aa.get(k)!r}")
            wb = [_norm_base(ast.unparse(b)) for b in wc.base_exprs]
            ab = [_norm_base(ast.unparse(b)) for b in ac.base_exprs]
            if wb != ab:
                rep.violation("R4.3", construct(f"baize.*.{mod}:{cname}", text=f"bases {wb} | {ab}"), f"{wc.loc} vs {ac.loc}", f"{cname} has different base classes on the two interfaces")
        for cname, ac in am.classes.items():
            if _private_class(ac):
                continue
            if cname not in wm.classes and ("asgi", mod, cname) not in ONE_SIDED_OK:
                rep.violation("R4.2", construct(ac, text="one-sided class"), ac.loc, f"class {ac.fq} has no WSGI sibling")
    rep.require_instances("R4.3", 6)

    # ---------------------------------------------------------------- R4.4 shared-base ownership
    shared_methods: Dict[str, ClassInfo] = {}
    for m in p.modules.values():
        if m.name.startswith(("baize.wsgi", "baize.asgi")):
            continue
        for c in m.classes.values():
            shared_methods[c.fq] = c
    for mod in SIB_MODULES:
        wm, am = p.module(f"baize.wsgi.{mod}"), p.module(f"baize.asgi.{mod}")
        for cname, wc in wm.classes.items():
            ac = am.classes.get(cname)
            if ac is None:
                continue
            inherited_w = _shared_overrides(p, wc)
            inherited_a = _shared_overrides(p, ac)
            for name in sorted(inherited_w ^ inherited_a):
                side_c = wc if name in inherited_w else ac
                rep.violation("R4.4", construct(side_c, text=f"overrides {name}"), side_c.methods[name].loc,
                              f"{side_c.fq} overrides the shared-base method {name} on one interface only")
            for name in sorted(inherited_w & inherited_a):
                rep.ok("R4.4", f"{cname}.{name} overrides a shared-base method on both sides (compared by R4.2)")
    rep.ok("R4.4", "no one-sided override of a shared-base method")

    # ---------------------------------------------------------------- R4.5 shared chunk consumers do not depend on the chunk shape
    # The two gateways deliver one body in different shapes (ASGI: messages, empty ones included, more_body flag; WSGI: reads
    # until an empty read). The shared decoder must therefore treat a chunk as bytes to append and nothing else.
    from .mp_common import receive_data_discipline

    for kind, fn_, node, cons, msg, facts in receive_data_discipline(p, rep):
        if kind == "ok":
            rep.ok("R4.5", msg)
        elif kind == "undecided":
            rep.undecide("R4.5", msg)
        else:
            rep.violation("R4.5", construct(fn_, text=cons), where(fn_, node), msg, path_facts=facts)
    rep.require_instances("R4.5", 2)

    # ---------------------------------------------------------------- R4.6 the shared URL builder is fed corresponding gateway values
    # request.url is computed by shared code with one branch per interface; the two branches must pass the corresponding
    # gateway values (root_path+path <-> SCRIPT_NAME+PATH_INFO, ...) to the same builder
    from .c18 import gateway_url_branches

    gateway_url_branches(p, rep, "R4.6")
    rep.require_instances("R4.6", 12)

    # ---------------------------------------------------------------- R4.7 the request path means the same text on both interfaces
    from .c07 import wsgi_path_text_uses

    n47 = 0
    for f_, c_, ok_ in wsgi_path_text_uses(p):
        n47 += 1
        if ok_:
            rep.ok("R4.7", f"{f_.fq}: PATH_INFO is re-decoded (Latin-1 -> UTF-8) before it is used as text, like scope['path']")
        else:
            rep.violation("R4.7", construct(f_, text="PATH_INFO used as text without re-decoding"), where(f_, c_),
                          f"{f_.fq} matches environ['PATH_INFO'] against text (self.{c_.func.attr}) without re-decoding it: WSGI delivers the path bytes as Latin-1 text, ASGI as UTF-8 text, so the same "
                          "request for a non-ASCII path (/café) is routed on ASGI and answered 404 on WSGI")
    if n47 == 0:
        rep.undecide("R4.7", "no text-level use of PATH_INFO found in baize.wsgi")
    rep.require_instances("R4.7", 3)  # 4 on the pinned tree; Files and Pages may share one lookup method

    # ---------------------------------------------------------------- R4.8 user code run on a pool thread sees the request's context
    # An ASGI producer task inherits the context of the request; the WSGI relay (and every run_in_threadpool job) runs on a pool
    # thread and sees the same ContextVars only because the context is COPIED IN THE SUBMITTING THREAD: `copy_context()` must be
    # evaluated in the frame of submit() / run_in_threadpool() itself, not inside the callable that the worker runs.
    cm = p.module("baize.concurrency")
    sites = []
    tpe = cm.classes.get("ThreadPoolExecutor")
    if tpe is not None and tpe.methods.get("submit") is not None:
        sites.append(tpe.methods["submit"])
    if cm.functions.get("run_in_threadpool") is not None:
        sites.append(cm.functions["run_in_threadpool"])
    if len(sites) < 2:
        raise AnalysisError("baize.concurrency: ThreadPoolExecutor.submit / run_in_threadpool vanished")
    for f_ in sites:
        rep.analysed(f_.fq)
        own = [c_ for c_ in ast.walk(f_.node) if isinstance(c_, ast.Call) and ast.unparse(c_.func).split(".")[-1] == "copy_context"
               and not any(isinstance(q_, (ast.Lambda, ast.FunctionDef, ast.AsyncFunctionDef)) and q_ is not f_.node for q_ in _parents_of(c_, f_.node))]
        if own:
            rep.ok("R4.8", f"{f_.fq}: the context is copied in the submitting frame")
        else:
            later = [g_ for g_ in cm.all_funcs if g_ is not f_ and any(isinstance(c_, ast.Call) and ast.unparse(c_.func).split(".")[-1] == "copy_context" for c_ in ast.walk(g_.node))
                     and any(isinstance(n_, ast.Name) and n_.id == g_.name for n_ in ast.walk(f_.node))]
            if later:
                rep.violation("R4.8", construct(f_, text=f"copy_context() deferred to {later[0].name}"), where(f_),
                              f"{f_.fq} hands `{later[0].name}` to the pool and the context is copied inside it - on the worker thread, whose context is empty: a lazily evaluated WSGI producer "
                              "(SSE generator, run_in_threadpool job) no longer sees the request's ContextVars, while the ASGI task does")
            else:
                rep.undecide("R4.8", f"{f_.fq}: no copy_context() in the submitting frame (context propagation idiom not recognised)")
    rep.require_instances("R4.8", 2)


def _parents_of(node: ast.AST, root: ast.AST):
    q = getattr(node, "_parent", None)
    while q is not None and q is not root:
        yield q
        q = getattr(q, "_parent", None)


# guard atoms that are gateway plumbing: they may appear in the guard set of any effect on one side only
GATEWAY_GUARD_ATOMS = [
    (r"REQ\['type'\] == '(lifespan|http|websocket)'", "ASGI applications are also called for lifespan / websocket scopes and refuse or divert them first"),
]


def _strip_gateway_guards(fp: Counter) -> Counter:
    out: Counter = Counter()
    for it, n in fp.items():
        if it and isinstance(it[-1], tuple) and it[0] in ("header", "req-store", "attr-store", "raise", "call"):
            g = tuple(a for a in it[-1] if not any(re.search(rx, a) for rx, _ in GATEWAY_GUARD_ATOMS))
            it = it[:-1] + (g,)
        out[it] += n
    return out


def _private_class(ci) -> bool:
    return ci is not None and ci.name.startswith("_") and not ci.name.startswith("__")


def _units(p: Program, side: str, mod: str) -> Dict[str, List[FuncInfo]]:
    """unit root qualname -> [root, members...] for one sibling module"""
    m = p.module(f"baize.{side}.{mod}")
    out: Dict[str, List[FuncInfo]] = {}
    for f in m.all_funcs:
        if f.parent is not None:
            continue
        if _private_class(f.cls):
            continue  # methods of a private holder class belong to the units that create it
        if _is_folded_helper(p, f) or _is_referenced_private(m, f) or f.fq in getattr(p, "inlined_generators", ()):
            continue  # (a private generator that was inlined at its `yield from` sites lives on in its users)
        out[f.qualname] = [f]
    for q, ms in out.items():
        root = ms[0]
        seen = {root.fq}
        todo = [root]
        while todo:
            cur = todo.pop()
            # nested definitions
            for g in m.all_funcs:
                if g.fq not in seen and g.parent is not None and g.qualname.startswith(cur.qualname + "."):
                    seen.add(g.fq)
                    ms.append(g)
                    todo.append(g)
            for n in ast.walk(cur.node):
                # private classes created here: all their methods
                if isinstance(n, ast.Call) and isinstance(n.func, ast.Name) and n.func.id in m.classes and _private_class(m.classes[n.func.id]):
                    for meth in m.classes[n.func.id].methods.values():
                        if meth.fq not in seen:
                            seen.add(meth.fq)
                            ms.append(meth)
                            todo.append(meth)
                # private functions / methods handed on as values (submit(self._push, ...), partial(_send, ...)): not folded by calls
                ref = None
                if isinstance(n, ast.Attribute) and isinstance(n.value, ast.Name) and n.value.id in ("self", "cls") and isinstance(n.ctx, ast.Load):
                    owner = cur
                    while owner.cls is None and owner.parent is not None:
                        owner = owner.parent
                    if owner.cls is not None:
                        ref = p.find_method(owner.cls, n.attr)
                elif isinstance(n, ast.Name) and isinstance(n.ctx, ast.Load) and n.id in m.functions:
                    ref = m.functions[n.id]
                if ref is not None and ref.fq not in seen and ref.module is m:
                    from ..sibling import is_private_helper
                    par = getattr(n, "_parent", None)
                    called = isinstance(par, ast.Call) and par.func is n
                    if is_private_helper(ref) and not called:
                        seen.add(ref.fq)
                        ms.append(ref)
                        todo.append(ref)
    return out


def _is_referenced_private(m, f: FuncInfo) -> bool:
    """a private function / method that is only handed on as a value (never called by name) in its module"""
    from ..sibling import is_private_helper
    if not is_private_helper(f):
        return False
    for n in ast.walk(m.tree):
        if isinstance(n, ast.Attribute) and n.attr == f.name and isinstance(n.ctx, ast.Load):
            return True
        if isinstance(n, ast.Name) and n.id == f.name and isinstance(n.ctx, ast.Load):
            return True
    return False


def _unit_fingerprint(ms: List[FuncInfo], names) -> "Counter":
    from collections import Counter
    fp: Counter = Counter(fingerprint(ms[0], names))
    for mem in ms[1:]:
        sub = fingerprint(mem, names, 1)  # private members: effects only (their parameters and return shape are not behaviour)
        if _private_class(mem.cls):
            # what a private holder object stores on itself is its own business, not an attribute of the response / request
            sub = Counter({k: v for k, v in sub.items() if k[0] != "attr-store"})
        fp.update(sub)
    return fp


def _is_folded_helper(p: Program, f: FuncInfo) -> bool:
    """A private function / method (one leading underscore, undecorated) that is called from its own module: it has no
    behaviour of its own, the fingerprints of its callers contain its effects."""
    from ..sibling import is_private_helper

    top = f
    while top.parent is not None:
        top = top.parent
    if not is_private_helper(top):
        return False
    name = top.name
    for g in f.module.all_funcs:
        if g is top:
            continue
        for n in ast.walk(g.node):
            if isinstance(n, ast.Call) and ((isinstance(n.func, ast.Name) and n.func.id == name) or (isinstance(n.func, ast.Attribute) and n.func.attr == name)):
                return True
    # handed to module-level machinery as a value (e.g. the default factory of a table)
    for n in ast.walk(f.module.tree):
        if isinstance(n, ast.Name) and n.id == name and isinstance(n.ctx, ast.Load):
            return True
    return False


def _filter(items: Counter, side: str, sanc) -> List:
    out = []
    for it, n in items.items():
        txt = repr(it)
        if any((s == "*" or s == side) and re.search(rx, txt) for s, rx, _ in sanc):
            continue
        out.append(it)
    return out


def _attr_text(F: Folder, ci: ClassInfo, v: ast.expr) -> str:
    try:
        return repr(F.fold(ci.module, v))
    except NotConst:
        return ast.unparse(v)


def _only_connection_differs(F: Folder, wc: ClassInfo, ac: ClassInfo) -> bool:
    try:
        w = F.class_attr(wc, "required_headers")
        a = F.class_attr(ac, "required_headers")
    except NotConst:
        return False
    return {k: v for k, v in a.items() if k.lower() != "connection"} == w and "connection" not in {k.lower() for k in w}


def _norm_base(t: str) -> str:
    for k, v in (("ASGIApp", "App"), ("WSGIApp", "App"), ("AsyncIterator", "Iterator")):
        t = t.replace(k, v)
    return t


def _shared_overrides(p: Program, ci: ClassInfo) -> Set[str]:
    out = set()
    for name in ci.methods:
        if name.startswith("__") and name not in ("__call__",):
            continue
        for c in p.mro(ci)[1:]:
            if isinstance(c, ClassInfo) and not c.module.name.startswith(("baize.wsgi", "baize.asgi")) and name in c.methods:
                out.add(name)
    return out


def _check_async_wrapper(p: Program, rep: Report, ci: ClassInfo, s: FuncInfo, a: FuncInfo) -> None:
    """The async twin must delegate to the sync method (directly or through run_in_threadpool)
    with the same arguments on every branch."""
    calls = [n for n in ast.walk(a.node) if isinstance(n, ast.Call)]
    direct = [c for c in calls if isinstance(c.func, ast.Attribute) and c.func.attr == s.name and isinstance(c.func.value, ast.Name) and c.func.value.id in ("self", "value")]
    pooled = [c for c in calls if isinstance(c.func, ast.Name) and c.func.id == "run_in_threadpool" and c.args and ast.unparse(c.args[0]) in (f"self.{s.name}", f"value.{s.name}")]
    params = [x for x in a.params if x != "self"]
    ok = bool(direct or pooled)
    for c in direct:
        if [ast.unparse(x) for x in c.args] != params:
            ok = False
    for c in pooled:
        if [ast.unparse(x) for x in c.args[1:]] != params:
            ok = False
    # FormData.aclose iterates and awaits value.aclose(): same shape as close()
    if ci.name == "FormData":
        ok = tier_a_equal(s, a)
    if ok and s.params == a.params:
        rep.ok("R4.2", f"{ci.name}.{a.name} delegates to {s.name} with the same arguments")
    else:
        rep.violation("R4.2", construct(a, text=f"async twin of {s.name}"), a.loc, f"{ci.fq}.{a.name} is not a plain delegation to {s.name} with the same arguments")
