"""C19 - server-sent events reach the client as they were yielded."""
from __future__ import annotations

import ast
from typing import List, Optional

from .. import rx
from ..collect import callee_is, run_paths
from ..common import calls_in, construct, where
from ..flow import NONE, Value, show, strparts, subterms
from ..fold import Folder, NotConst
from ..loader import AnalysisError, ClassInfo, FuncInfo, Program, walk_shallow
from ..report import Report, Undecided

LINE_BREAKS_REF = r"\r\n|\r|\n"


def run(p: Program, rep: Report, tier: str) -> None:
    rep.explanation = (
        "R19.1 line-splitter API rule: the iterable that feeds the `data:` lines must split a str on CR, LF, CRLF only; "
        "str.splitlines() (which also breaks at VT, FF, FS-US, NEL, U+2028/2029) on the str-typed event data is a violation; "
        "accepted: re.split with a folded pattern whose regular language is exactly {CRLF, CR, LF} (decided on the automaton) "
        "or the replace/split('\\n') chain. R19.2 block shape: every field line is '<name>: <value>' encoded with the response "
        "charset, lines are joined with b'\\n' and the block ends with two empty elements (blank line). R19.3 the ping is a "
        "comment line block, identical on both stacks. R19.4 required headers and charset flow. Order of delivery is C06/R6.4. R19.5 events are not "
        "dropped while the client is connected: the stream's 'client went away' flag is set only from a received http.disconnect, and an "
        "item pulled from the user's iterator is always enqueued."
    )
    rep.assume("ServerSentEvent['data'] is a str (TypedDict in baize/typing.py); single-line event/id are the statement's restriction")
    F = Folder(p)
    mod = p.module("baize.responses")
    fn = p.function("baize.responses", "build_bytes_from_sse")
    if fn is None:
        raise AnalysisError("build_bytes_from_sse vanished")
    rep.analysed(fn.fq)
    # typed dict says data is str (functional or class syntax)
    tmod = p.module("baize.typing")
    ty = tmod.constants.get("ServerSentEvent")
    declared = ty is not None and '"data": str' in ast.unparse(ty).replace("'", '"')
    if not declared:
        tcls = tmod.classes.get("ServerSentEvent")
        if tcls is not None:
            declared = any(isinstance(n, ast.AnnAssign) and isinstance(n.target, ast.Name) and n.target.id == "data" and ast.unparse(n.annotation) == "str" for n in tcls.node.body)
    if not declared:
        rep.undecide("R19.1", "ServerSentEvent no longer declares data: str")
    paths, col, it = run_paths(p, fn)
    rep.cfg_paths += len(paths)
    with_data = [pa for pa in paths if pa.exit == "return" and any(t and "'data' in" in show(f) for f, t in pa.facts)]
    without = [pa for pa in paths if pa.exit == "return" and pa not in with_data]
    if not with_data:
        rep.undecide("R19.1", "no path of build_bytes_from_sse handles the data field")

    def is_data(t: Value) -> bool:
        return (t[0] == "sub" and t[2] == ("const", "data")) or \
            (t[0] == "call" and t[1][0] == "attr" and t[1][2] in ("pop", "get") and bool(t[2]) and t[2][0] == ("const", "data"))

    def has_data(t: Value) -> bool:
        return any(is_data(s) for s in subterms(t))

    def splitter_kind(t: Value) -> Optional[str]:
        if t[0] != "call":
            return None
        if t[1] == ("ext", "re.split"):
            return "re.split"
        if t[1][0] == "attr" and t[1][2] in ("split", "splitlines"):
            return t[1][2]
        return None

    def compiled_pattern(recv: Value) -> Optional[str]:
        """pattern of a module-level `NAME = re.compile(<foldable pattern>)` (no flags)"""
        for t in subterms(recv):
            if t[0] == "global":
                modname, _, name = t[1].partition(":")
                try:
                    m_ = p.module(modname)
                except Exception:
                    continue
                c_ = m_.constants.get(name)
                if isinstance(c_, ast.Call) and ast.unparse(c_.func) in ("re.compile", "compile") and len(c_.args) == 1 and not c_.keywords:
                    try:
                        v_ = F.fold(m_, c_.args[0])
                    except NotConst:
                        return None
                    return v_ if isinstance(v_, str) else None
        if recv[0] == "call" and recv[1] == ("ext", "re.compile") and len(recv[2]) == 1 and recv[2][0][0] == "const" and isinstance(recv[2][0][1], str):
            return recv[2][0][1]
        return None

    def judge_pattern(pat: str, how: str) -> None:
        try:
            a, b, st = rx.compare(pat, LINE_BREAKS_REF)
        except rx.Unsupported as e:
            rep.undecide("R19.1", f"line-break pattern: {e}")
            return
        if a is None and b is None:
            rep.ok("R19.1", f"data split with {how}({pat!r}): language is exactly {{CRLF, CR, LF}}", st)
        else:
            w = a if a is not None else b
            rep.violation("R19.1", construct(fn, text=f"re.split({pat!r})"), where(fn),
                          f"the line-break pattern {pat!r} does not denote exactly CR, LF, CRLF (witness {rx.show(w)})")

    def judge_splitter(itv: Value) -> None:
        kind = splitter_kind(itv)
        if kind == "splitlines":
            recv = itv[1][1]
            if any(t[0] == "call" and t[1][0] == "attr" and t[1][2] == "encode" for t in subterms(recv)):
                rep.ok("R19.1", "data split with bytes.splitlines() after encoding")
            else:
                rep.violation("R19.1", construct(fn, text="event.pop('data').splitlines()"), where(fn),
                              "the data text is split with str.splitlines(), which also breaks at VT, FF, FS, GS, RS, NEL, U+2028 and U+2029: "
                              "a payload containing one of them arrives with an injected line break (e.g. JSON with U+2028)")
        elif kind == "re.split" and len(itv[2]) >= 2:
            pat = itv[2][0]
            if pat[0] != "const" or not isinstance(pat[1], str):
                rep.undecide("R19.1", f"re.split pattern is not a constant: {show(pat)}")
            elif len(itv[2]) > 2 or itv[3]:
                # re.split(pattern, string, maxsplit=0, flags=0): a non-zero maxsplit (e.g. a flag constant passed in its position)
                # leaves everything after that many breaks in one piece
                import re as _re

                kw_ = dict(itv[3])
                ms = itv[2][2] if len(itv[2]) > 2 else kw_.get("maxsplit")
                fl = itv[2][3] if len(itv[2]) > 3 else kw_.get("flags")

                def _intval(t):
                    if t is None:
                        return 0
                    if t[0] == "const" and isinstance(t[1], int):
                        return int(t[1])
                    if t[0] == "ext" and t[1].startswith("re.") and isinstance(getattr(_re, t[1][3:], None), int):
                        return int(getattr(_re, t[1][3:]))
                    return None

                msv, flv = _intval(ms), _intval(fl)
                if msv is not None and msv != 0:
                    rep.violation("R19.1", construct(fn, text=f"re.split(..., maxsplit={show(ms)})"), where(fn),
                                  f"the data is split at most {msv} times (third argument of re.split is maxsplit: {show(ms)}): the text after line break number {msv} stays in one piece and its "
                                  "CR/LF are sent raw, so those lines reach the client without a `data:` prefix (dropped, or parsed as other fields)")
                elif msv == 0 and flv == 0:
                    judge_pattern(pat[1], "re.split")
                else:
                    rep.undecide("R19.1", f"re.split with maxsplit/flags: {show(itv)[:80]}")
            else:
                judge_pattern(pat[1], "re.split")
        elif kind == "split" and itv[2] == (("const", "\n"),):
            chain_ = show(itv[1][1])
            if ".replace('\\r\\n', '\\n')" in chain_ and ".replace('\\r', '\\n')" in chain_ and chain_.index("'\\r\\n'") < chain_.rindex("replace('\\r', '\\n')"):
                rep.ok("R19.1", "data split with replace(CRLF->LF).replace(CR->LF).split(LF)")
            else:
                rep.violation("R19.1", construct(fn, text=f"{show(itv)[:80]}"), where(fn), "data is split on LF only: CR / CRLF inside the data are sent raw and end the line early at the client")
        elif kind == "split" and len(itv[2]) == 1 and not itv[3] and not has_data(itv[1][1]) and compiled_pattern(itv[1][1]) is not None:
            judge_pattern(compiled_pattern(itv[1][1]), "compiled pattern .split")
        else:
            rep.undecide("R19.1", f"line splitter in an idiom outside the table: {show(itv)[:100]}")

    def text_of(el: Value) -> Optional[List[Value]]:
        """pieces of `<text>.encode(charset)`; None when the element is not that"""
        if el[0] == "call" and el[1][0] == "attr" and el[1][2] == "encode" and el[2] == (("param", "charset"),) and not el[3]:
            return strparts(el[1][1])
        return None

    for pa in with_data:
        v = pa.value
        # ---- R19.1 the splitter: every call through which the event's data passes on this path
        cands = [t for t in subterms(v) if splitter_kind(t) and has_data(t)]
        cands += [("call", e.a, e.b, e.c) for e in pa.events if e.kind == "call" and splitter_kind(("call", e.a, e.b, e.c)) and has_data(("call", e.a, e.b, e.c))]
        outer = []
        for c in cands:
            if c not in outer and not any(c is not o and c in list(subterms(o)) for o in cands if o != c):
                outer.append(c)
        if not outer:
            if any(is_data(t) for t in subterms(v)) or any(e.kind == "call" and any(has_data(a) for a in (e.b or ())) for e in pa.events):
                rep.violation("R19.1", construct(fn, text="data not split into lines"), where(fn), "the event's data reaches the block without being split at CR, LF, CRLF: a multi-line payload is sent as one `data:` line followed by raw lines")
            else:
                rep.undecide("R19.1", "no recognisable use of the event's data on the path that has it")
        for c in outer:
            judge_splitter(c)
        # ---- R19.2 shape of the data lines
        comps = [t for t in subterms(v) if t[0] == "comp"]
        data_comp = None
        for c in comps:
            parts = text_of(c[2])
            if parts and parts[0][0] == "const" and isinstance(parts[0][1], str) and parts[0][1].startswith("data"):
                data_comp = c
        okj = v[0] == "call" and v[1][0] == "attr" and v[1][2] == "join"
        if data_comp is None:
            if any(t[0] == "call" and t[1] in (("builtin", "zip"), ("ext", "itertools.repeat"), ("ext", "itertools.starmap"), ("ext", "itertools.zip_longest"), ("ext", "itertools.product")) for t in subterms(v)):
                rep.undecide("R19.2", f"the data lines are paired with their field name by a zip/repeat pipeline, an idiom outside the table: return {show(v)[:80]}")
            elif okj and any(t[0] == "const" and t[1] in ("data: ", "data:", b"data: ", b"data:") for t in subterms(v)):
                rep.violation("R19.2", construct(fn, text="data lines"), where(fn), "no 'data: <line>' lines are produced for the data field")
            elif okj and not any(has_data(t) for t in [v]):
                rep.violation("R19.2", construct(fn, text="data lines"), where(fn), "no 'data: <line>' lines are produced for the data field")
            else:
                rep.undecide("R19.2", f"the data lines are built in an idiom outside the table: return {show(v)[:80]}")
            continue
        elt, itv = data_comp[2], data_comp[3]
        if not (splitter_kind(itv) and has_data(itv)):
            rep.violation("R19.1", construct(fn, text=f"{show(itv)[:80]}"), where(fn), "the text that is split into data lines is not the event's data field")
        parts = text_of(elt)
        if parts is not None and len(parts) == 2 and parts[0] == ("const", "data: ") and parts[1][0] == "elem":
            rep.ok("R19.2", "each data line is ('data: ' + line).encode(charset)")
        else:
            rep.violation("R19.2", construct(fn, text=f"data line {show(elt)[:80]}"), where(fn), "a data line is not exactly 'data: ' + line encoded with the response charset")
    for pa in with_data + without:
        v = pa.value
        if not (v[0] == "call" and v[1][0] == "attr" and v[1][2] == "join"):
            rep.undecide("R19.2", f"the block is not built by a join: return {show(v)[:80]}")
            continue
        okj = v[1] == ("attr", ("const", b"\n"), "join") and len(v[2]) == 1
        if not okj:
            rep.violation("R19.2", construct(fn, text=f"return {show(v)[:80]}"), where(fn), "the block is not the lines joined with b'\\n'")
            continue
        ch = v[2][0]
        if ch[0] == "call" and ch[1] == ("ext", "itertools.chain") and ch[2] and ch[2][-1] == ("tuple", (("const", b""), ("const", b""))):
            rep.ok("R19.2", "block = b'\\n'.join(chain(field lines, data lines, (b'', b''))) -> ends with a blank line")
        elif ch[0] == "call" and ch[1] == ("ext", "itertools.chain") and ch[2] and ch[2][-1] == ("call", ("ext", "itertools.repeat"), (("const", b""), ("const", 2)), ()):
            rep.ok("R19.2", "block = b'\\n'.join(chain(..., repeat(b'', 2))) -> ends with a blank line")
        elif ch[0] == "call" and ch[1] == ("ext", "itertools.chain") and ch[2] and ch[2][-1][0] not in ("tuple", "list", "const"):
            rep.undecide("R19.2", f"the terminator of the block is not a literal display: {show(ch[2][-1])[:60]}")
        elif ch[0] == "gen" or (ch[0] == "call" and ch[1] != ("ext", "itertools.chain") and ch[1][0] != "builtin"):
            rep.undecide("R19.2", f"the lines of the block come from a helper the rule does not read: {show(ch)[:60]}")
        elif ch[0] in ("tuple", "list") and len(ch[1]) >= 2 and ch[1][-2:] == (("const", b""), ("const", b"")):
            rep.ok("R19.2", "block = b'\\n'.join([*field lines, *data lines, b'', b'']) -> ends with a blank line")
        elif ch[0] in ("tuple", "list") or (ch[0] == "call" and ch[1] == ("ext", "itertools.chain") and ch[2] and ch[2][-1][0] in ("tuple", "list", "const")):
            # a literal display whose end can be read and is not (b"", b"")
            rep.violation("R19.2", construct(fn, text=f"terminator {show(ch)[-60:]}"), where(fn), "the block does not end with the two empty elements that produce the terminating blank line")
        else:
            # a list filled by append / extend statements, a local, a slice ...: its last elements are not a display the rule can read.
            # Statement-level reading of the accumulation: the last two top-level statements that add to it append b"" each
            acc = [st_ for st_ in fn.node.body if isinstance(st_, ast.Expr) and isinstance(st_.value, ast.Call) and isinstance(st_.value.func, ast.Attribute)
                   and st_.value.func.attr in ("append", "extend")]
            tail_ok = len(acc) >= 2 and all(a_.value.func.attr == "append" and len(a_.value.args) == 1 and isinstance(a_.value.args[0], ast.Constant) and a_.value.args[0].value == b"" for a_ in acc[-2:]) \
                and ast.unparse(acc[-1].value.func.value) == ast.unparse(acc[-2].value.func.value)
            if tail_ok:
                rep.undecide("R19.2", f"the block is accumulated in a list by append statements (the last two append b''): its field and data lines are not read off a display ({show(ch)[:50]})")
            else:
                rep.undecide("R19.2", f"the lines of the block are collected in an idiom outside the table: {show(ch)[:60]}")
        if ch[0] == "call" and ch[2] and ch[2][0][0] == "call" and ch[2][0][1] == ("builtin", "map"):
            margs = ch[2][0][2]
            if len(margs) == 3 and show(margs[1]).endswith(".keys()") and show(margs[2]).endswith(".values()") and show(margs[1])[:-7] == show(margs[2])[:-9]:
                rep.ok("R19.2", "field lines come from map(f, <fields>.keys(), <fields>.values())")
            else:
                rep.violation("R19.2", construct(fn, text=f"fields {show(ch[2][0])[:80]}"), where(fn), "field lines are not built from the event's remaining keys/values")
        elif ch[0] == "call" and ch[2] and ch[2][0][0] == "comp":
            # (f"{k}: {v}".encode(charset) for k, v in <pairs of the event other than data>)
            cmpv = ch[2][0]
            el = cmpv[2]
            parts = text_of(el)
            shape = parts is not None and len(parts) == 3 and parts[1] == ("const", ": ") and parts[0][0] != "const" and parts[2][0] != "const"
            if shape:
                rep.ok("R19.2", "each field line is f'{k}: {v}'.encode(charset) for the event's pairs other than data")
            else:
                rep.violation("R19.2", construct(fn, text=f"field line {show(el)[:80]}"), where(fn), "a field line is not '<name>: <value>' encoded with the response charset")
    # every non-data pair of the event becomes a field line and `data` does not: either the pairs are filtered with
    # `!= "data"`, or data was removed from a private copy
    src_fn = ast.unparse(fn.node)
    ev = fn.params[0]
    from ..common import with_helpers as _wh19
    _unit19 = ast.Module(body=[f_.node for f_ in _wh19(p, fn)], type_ignores=[])  # the encoder with the private helpers it reaches
    filters = [n for n in ast.walk(_unit19) if isinstance(n, ast.Compare) and len(n.ops) == 1 and isinstance(n.ops[0], (ast.NotEq, ast.Eq)) and any(isinstance(x, ast.Constant) and x.value == "data" for x in [n.left] + n.comparators)]
    copies = [n for n in ast.walk(_unit19) if isinstance(n, ast.Assign) and isinstance(n.value, (ast.Call, ast.Dict)) and (
        (isinstance(n.value, ast.Call) and isinstance(n.value.func, ast.Name) and n.value.func.id == "dict" and n.value.args and isinstance(n.value.args[0], ast.Name) and n.value.args[0].id == ev)
        or (isinstance(n.value, ast.Dict) and any(k is None and isinstance(v_, ast.Name) and v_.id == ev for k, v_ in zip(n.value.keys, n.value.values))))]
    copy_names = {t.id for n in copies for t in n.targets if isinstance(t, ast.Name)}
    muts = []
    for n in ast.walk(_unit19):
        if isinstance(n, ast.Call) and isinstance(n.func, ast.Attribute) and n.func.attr in ("pop", "popitem", "clear", "update", "setdefault", "__delitem__", "__setitem__") and isinstance(n.func.value, ast.Name) and n.func.value.id == ev:
            muts.append(n)
        elif isinstance(n, ast.Delete) and any(isinstance(t, ast.Subscript) and isinstance(t.value, ast.Name) and t.value.id == ev for t in n.targets):
            muts.append(n)
        elif isinstance(n, (ast.Assign, ast.AugAssign)) and any(isinstance(t, ast.Subscript) and isinstance(t.value, ast.Name) and t.value.id == ev for t in (n.targets if isinstance(n, ast.Assign) else [n.target])):
            muts.append(n)
    rebinds_param = ev in copy_names  # `event = dict(event)`: later mutations hit the private copy
    if muts and not rebinds_param:
        rep.violation("R19.2", construct(fn, text="mutates the event argument: " + " ".join(ast.unparse(muts[0]).split())[:50]), where(fn, muts[0]),
                      f"build_bytes_from_sse changes the event dict it is given ({' '.join(ast.unparse(muts[0]).split())[:50]}): an application that yields the same dict object again (a reused heartbeat / template event) "
                      "gets its second event encoded without the removed field - the bytes no longer correspond to the event that was yielded")
    elif filters or copies:
        rep.ok("R19.2", "the caller's event dict is not modified; `data` is kept out of the field lines by a filter / a private copy")
    else:
        rep.violation("R19.2", construct(fn, text="data also emitted as a field line"), where(fn), "the data field is neither filtered out of the field lines nor removed from a private copy: it is sent twice (as 'data: ...' lines and as a raw field line)")
    # the field-line lambda
    lams = [n for n in ast.walk(fn.node) if isinstance(n, ast.Lambda)]
    if lams:
        t = ast.unparse(lams[0].body)
        if t.replace('"', "'") == "f'{k}: {v}'.encode(charset)":
            rep.ok("R19.2", "each field line is f'{k}: {v}'.encode(charset)")
        else:
            rep.violation("R19.2", construct(fn, text=f"field line {t}"), where(fn), "a field line is not '<name>: <value>' encoded with the response charset")
    # purity: the block is a function of (event, charset) only - no module-level mutable state is read or written by the
    # encoder or anything it calls (a cache keyed without the charset would leak one response's encoding into another)
    mutable_globals = {n for n, v in mod.constants.items() if isinstance(v, (ast.Dict, ast.List, ast.Set)) or (isinstance(v, ast.Call) and isinstance(v.func, ast.Name) and v.func.id in ("dict", "list", "set", "defaultdict", "OrderedDict"))}
    seen_f, todo = set(), [fn]
    while todo:
        f_ = todo.pop()
        if f_.fq in seen_f:
            continue
        seen_f.add(f_.fq)
        for n in ast.walk(f_.node):
            if isinstance(n, ast.Name) and n.id in mutable_globals and n.id not in f_.params:
                rep.violation("R19.2", construct(f_, text=f"module-level mutable {n.id}"), where(f_, n),
                              f"{f_.fq} uses the module-level mutable container {n.id}: the bytes of an event no longer depend on the event and the response charset alone")
            if isinstance(n, ast.Call):
                r = p.resolve_call(f_, n)
                if isinstance(r, FuncInfo) and r.module is mod:
                    todo.append(r)
        if any(isinstance(n, (ast.Global, ast.Nonlocal)) for n in ast.walk(f_.node)):
            rep.violation("R19.2", construct(f_, text="global state"), where(f_), f"{f_.fq} rebinds global state")
    if len(seen_f) > 1:
        # helper functions: every helper that encodes must receive the charset
        for fq in sorted(seen_f - {fn.fq}):
            h_ = p.func(fq)
            enc = [c for c in calls_in(h_) if isinstance(c.func, ast.Attribute) and c.func.attr == "encode"]
            if enc and not all(c.args and ast.unparse(c.args[0]) == "charset" for c in enc):
                rep.violation("R19.2", construct(h_, text="encode without the response charset"), where(h_), f"{h_.fq} encodes a field line with something other than the response charset")
    rep.ok("R19.2", f"the encoder and its {len(seen_f) - 1} helper(s) use no module-level mutable state")
    rep.require_instances("R19.1", 1)
    rep.require_instances("R19.2", 4)

    # ---------------------------------------------------------------- R19.3 ping + R19.4 headers
    pings = {}
    for side in ("wsgi", "asgi"):
        cls = p.cls(f"baize.{side}.responses:SendEventResponse")
        rs = cls.methods.get("render_stream")
        init = cls.methods.get("__init__")
        if rs is None or init is None:
            raise AnalysisError(f"{side} SendEventResponse.render_stream/__init__ vanished")
        rep.analysed(rs.fq, init.fq)
        ys = []
        for n in walk_shallow(rs.node):
            if isinstance(n, ast.Yield) and n.value is not None and isinstance(n.value, (ast.Constant, ast.Name, ast.Attribute, ast.BinOp)):
                try:
                    if isinstance(n.value, ast.Attribute) and isinstance(n.value.value, ast.Name) and n.value.value.id == "self":
                        fv = F.class_attr(cls, n.value.attr)  # a class-level constant read through self (`ping_comment = b": ping\n\n"`)
                    else:
                        fv = F.fold(rs.module, n.value)
                except (NotConst, Exception):
                    continue
                if isinstance(fv, bytes):
                    ys.append((n, fv))
        if len(ys) != 1:
            rep.undecide("R19.3", f"{side}: {len(ys)} constant ping yields")
        else:
            b = ys[0][1]
            pings[side] = b
            if b.startswith(b":") and b.endswith(b"\n\n") and b.count(b"\n") == 2 and b"\r" not in b:
                rep.ok("R19.3", f"{side}: ping {b!r} is one comment line followed by a blank line")
            else:
                rep.violation("R19.3", construct(rs, text=f"ping {b!r}"), where(rs, ys[0][0]), f"{side}: the keep-alive ping {b!r} is not a ':' comment line terminated by a blank line (an EventSource would dispatch or mis-parse it)")
        # events go through build_bytes_from_sse(event, self.charset)
        bb = [c for c in calls_in(rs) if p.resolve_call(rs, c) is fn]
        if not bb:
            # the encoder may be reached through one method of the response (`yield self.render_event(event)`)
            for c in calls_in(rs):
                try:
                    r_ = p.resolve_call(rs, c, cls)
                except Exception:
                    r_ = None
                if isinstance(r_, FuncInfo) and r_.cls is not None and len(c.args) == 1:
                    inner = [c2 for c2 in calls_in(r_) if p.resolve_call(r_, c2) is fn]
                    if inner and len(inner[0].args) == 2 and isinstance(inner[0].args[0], ast.Name) and inner[0].args[0].id in r_.params:
                        bb = inner
        if bb and len(bb[0].args) == 2 and ast.unparse(bb[0].args[1]) == "self.charset":
            rep.ok("R19.4", f"{side}: events are encoded by build_bytes_from_sse(event, self.charset)")
        else:
            rep.violation("R19.4", construct(rs, text="build_bytes_from_sse"), where(rs), f"{side}: yielded events are not encoded with build_bytes_from_sse(event, self.charset)")
        # headers
        try:
            rh = F.class_attr(cls, "required_headers")
        except NotConst:
            rh = None
        if rh is None:
            rep.undecide("R19.4", f"{side}: required_headers not foldable")
        else:
            low = {k.lower(): v for k, v in rh.items()}
            if low.get("content-type", "").startswith("text/event-stream") and low.get("cache-control") == "no-cache":
                rep.ok("R19.4", f"{side}: required headers Content-Type text/event-stream, Cache-Control no-cache")
            else:
                rep.violation("R19.4", construct(cls, text=f"required_headers {sorted(low.items())}"), cls.loc, f"{side}: required event-stream headers are wrong: {low}")
        # the constructor, decided on its paths (module-level helpers of baize.responses inlined): what is handed to the base
        # initialiser as headers, what is stored into its Content-Type, what self.charset becomes
        from ..collect import default_inline as _dinl

        _pol = lambda fi: _dinl(fi) or (fi.parent is None and fi.module.name == "baize.responses" and not fi.is_generator() and fi.name not in ("list_headers", "set_cookie", "delete_cookie", "__init__")  # noqa: E731
                                        and all(d in ("staticmethod", "classmethod") for d in fi.decorators))
        try:
            ipaths, _ic, _ii = run_paths(p, init, cls, inline=_pol)
        except Exception as e_:
            rep.undecide("R19.4", f"{side}: SendEventResponse.__init__ is not analysable ({e_})")
            continue
        rep.cfg_paths += len(ipaths)
        SELF_ = ("param", "self")
        REQ = ("attr", SELF_, "required_headers")
        hp = init.params[3] if len(init.params) > 3 else "headers"
        HDRS = ("param", "headers") if "headers" in init.params else ("param", hp)
        merge_ok = merge_bad = cs_ok = cs_bad = chs_ok = chs_bad = 0
        for pa in ipaths:
            if pa.exit != "return":
                continue
            base = [e for e in pa.events if e.kind == "call" and e.a[0] == "func" and e.a[1].endswith(".__init__")]
            if len(base) != 1:
                merge_bad += 1
                continue
            e0 = base[0]
            kw0 = dict(e0.c or ())
            H = kw0.get("headers", e0.b[2] if len(e0.b) > 2 else None)
            given = (HDRS, True) in pa.facts
            absent = (HDRS, False) in pa.facts or (("cmp", "Is", HDRS, NONE), True) in pa.facts
            if H is None:
                merge_bad += 1
            elif given and H[0] == "dict" and [k for k, _v in H[1]] == [None, None] and [v for _k, v in H[1]] == [REQ, HDRS]:
                merge_ok += 1
            elif absent and ((H[0] == "call" and H[1] == ("builtin", "dict") and H[2] == (REQ,)) or (H[0] == "dict" and [kv for kv in H[1]] == [(None, REQ)])
                             or (H[0] == "call" and H[1] == ("attr", REQ, "copy"))):
                merge_ok += 1
            elif not given and not absent and H[0] == "dict" and [k for k, _v in H[1]] == [None, None] and [v for _k, v in H[1]][0] == REQ:
                merge_ok += 1  # {**required, **(headers or {})}
            else:
                merge_bad += 1
            ct = [e for e in pa.events if e.kind == "store" and e.a[0] == "sub" and e.a[1] == H and e.a[2][0] == "const" and str(e.a[2][1]).lower() == "content-type"]
            parts_ = strparts(ct[-1].b) if ct else None
            if parts_ and len(parts_) == 3 and parts_[0] == ct[-1].a and parts_[1] == ("const", "; charset=") and parts_[2] == ("param", "charset"):
                cs_ok += 1
            else:
                cs_bad += 1
            sc_ = [e for e in pa.events if e.kind == "store" and e.a == ("attr", SELF_, "charset")]
            if sc_ and sc_[-1].b == ("param", "charset"):
                chs_ok += 1
            else:
                chs_bad += 1
        if merge_ok and not merge_bad:
            rep.ok("R19.4", f"{side}: user headers override the required ones ({{**required, **headers}})")
        else:
            rep.violation("R19.4", construct(init, text="header merge"), where(init), f"{side}: required headers are not merged as {{**self.required_headers, **headers}}")
        if cs_ok and not cs_bad:
            rep.ok("R19.4", f"{side}: the charset parameter is appended to Content-Type")
        else:
            rep.violation("R19.4", construct(init, text="charset in content-type"), where(init), f"{side}: the charset used for encoding is not announced in Content-Type")
        if chs_ok and not chs_bad:
            rep.ok("R19.4", f"{side}: self.charset = charset")
        else:
            rep.violation("R19.4", construct(init, text="self.charset"), where(init), f"{side}: the charset given to the constructor is not the one used for encoding")
    if len(pings) == 2 and pings["wsgi"] != pings["asgi"]:
        rep.violation("R19.3", construct("baize.*.responses:SendEventResponse.render_stream", text=f"ping {pings}"), "baize/wsgi/responses.py vs baize/asgi/responses.py", "the keep-alive ping differs between the interfaces")
    rep.require_instances("R19.3", 2)
    # {**required_headers, **headers} reaches the client through the header mapping's constructor: a user header spelled in another
    # case than the required one must be folded with it, not replace it (shared rule, sa/props/hdr_common.py)
    from .hdr_common import headers_ctor_folds
    for kind, fn_, node, cons, msg in headers_ctor_folds(p):
        if kind == "ok":
            rep.analysed(fn_.fq)
            rep.ok("R19.4", msg)
        elif kind == "undecided":
            rep.undecide("R19.4", msg)
        else:
            rep.violation("R19.4", construct(fn_, text=cons), where(fn_, node), msg + " (the event stream becomes cacheable / is decoded with the wrong charset)", positive=True)
    rep.require_instances("R19.4", 11)

    # ---------------------------------------------------------------- R19.5 nothing yielded is dropped on the way to the client
    from .stream_common import closed_flag_provenance, relay_put_never_drops

    for fnc in (closed_flag_provenance, relay_put_never_drops):
        for kind, fn_, node, cons, msg in fnc(p):
            if kind == "ok":
                rep.analysed(fn_.fq)
                rep.ok("R19.5", msg)
            elif kind == "undecided":
                rep.undecide("R19.5", msg)
            else:
                rep.violation("R19.5", construct(fn_, text=cons), where(fn_, node), msg)
    rep.require_instances("R19.5", 4)

    # ---------------------------------------------------------------- R19.6 order of delivery: the hand-off rules of C06/R6.4
    # (FIFO queue, one producer loop with one put per item, every dequeued item yielded exactly once before the next dequeue)
    # are clauses of THIS property's last sentence; they are decided by the same code and reported here under R19.6.
    from ..report import Report as _Report
    from . import c06 as _c06

    sub = _Report("C06", tier)
    try:
        _c06.run(p, sub, tier)
        failed = None
    except Undecided as e_:
        failed = str(e_)
    except Exception as e_:  # the C06 analysis is reported by its own check; here only the R6.4 verdicts are needed
        failed = f"{type(e_).__name__}: {e_}"
    n_bad = 0
    for v_ in sub.violations:
        if v_.rule == "R6.4":
            n_bad += 1
            rep.violation("R19.6", v_.construct, v_.where, v_.message + " (events are not delivered as, or in the order, they were yielded)")
    for u_ in sub.undecided:
        if u_.startswith("R6.4"):
            rep.undecide("R19.6", u_[5:].strip())
    for _ in range(max(0, sub.rule_instances.get("R6.4", {}).get("found", 0) - n_bad)):
        rep.ok("R19.6", "hand-off order clause (C06/R6.4) holds")
    if failed and not n_bad:
        rep.undecide("R19.6", f"the hand-off analysis shared with C06 did not complete ({failed[:120]})")
    rep.require_instances("R19.6", 6)
