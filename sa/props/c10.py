"""C10 - the request body is read once, completely, and consistently cached (structural clauses)."""
from __future__ import annotations

import ast
from typing import List, Optional

from ..collect import default_inline, Path, callee_is, run_paths
from ..common import calls_in, construct, where
from ..flow import NONE, Value, contains, show, subterms
from ..loader import AnalysisError, ClassInfo, FuncInfo, Program, walk_shallow
from ..report import Report

CONSUMED = ("attr", ("param", "self"), "_stream_consumed")


def _reads(pa: Path, side: str, col=None) -> List[int]:
    out = []
    for i, e in enumerate(pa.events):
        if e.kind != "call":
            continue
        if side == "wsgi" and col is not None and e.a == ("builtin", "iter") and len(e.b) == 2 and e.b[0][0] in ("lambda", "closure"):
            # iter(<callable that reads wsgi.input>, <sentinel>): the read happens each time the iterator is advanced
            node = col.nodes.get(e.tag, (None, None))[0]
            a0 = node.args[0] if isinstance(node, ast.Call) and node.args else None
            if isinstance(a0, ast.Lambda) and any(isinstance(n, ast.Attribute) and n.attr in ("read", "readline") for n in ast.walk(a0.body)):
                out.append(i)
        if side == "asgi" and e.a == ("attr", ("param", "self"), "_receive"):
            out.append(i)
        if side == "wsgi" and e.a[0] == "attr" and e.a[2] in ("read", "readline", "readlines", "__iter__") and "wsgi.input" in show(e.a[1]):
            out.append(i)
    return out


def run(p: Program, rep: Report, tier: str) -> None:
    rep.explanation = (
        "R10.1 consume-once typestate on all paths of both stream() generators: every path to a read of the server channel "
        "(receive() / wsgi.input.read) has passed the `_stream_consumed` test on its false branch (the true branch raises "
        "RuntimeError) and has set the flag before the first read; the replay branch returns the cached body without touching "
        "the channel; no other method of the request classes reads the channel (is_disconnected is the one sanctioned reader). "
        "R10.5 the stream helpers used by form() run their chunk loop to exhaustion. R10.2 body/json/form are cached_property, cached_property is a non-data descriptor (no __set__/__delete__) that stores "
        "under the function's name on its only computing path and wraps awaitables in ONE future before storing - the second "
        "access never re-enters the function. R10.3 the receive loop leaves only when more_body is false, a disconnect raises "
        "ClientDisconnect, every non-empty chunk is yielded; WSGI returns only on an empty read. R10.4 body is b''.join over "
        "exactly self.stream(). NOT decided: interleavings beyond the shared-future argument; a misbehaving receive()."
    )
    rep.assume("asyncio.ensure_future returns one future shared by all awaiters (stdlib contract)")

    for side in ("wsgi", "asgi"):
        req = p.cls(f"baize.{side}.requests:Request")
        st = req.methods.get("stream")
        body = req.methods.get("body")
        if st is None or body is None:
            raise AnalysisError(f"{side} Request.stream/body vanished")
        rep.analysed(st.fq, body.fq)
        from ..common import unit_inline as _unit10
        paths, col, it = run_paths(p, st, req, raises=None, yield_raises=False, inline=_unit10(("baize.utils",), ()))
        rep.cfg_paths += len(paths)
        n_read = n_replay = n_raise = 0
        for pa in paths:
            # infeasible: the path assumes `X is None` and also the outcome of `X.done()` (a method call on None raises) - arises when
            # a helper returns `future if future.done() else None` and the caller tests the result against None
            nones = [f[2] for f, t in pa.facts if t and f[0] == "cmp" and f[1] == "Is" and f[3] == NONE] + [f[2] for f, t in pa.facts if (not t) and f[0] == "cmp" and f[1] == "IsNot" and f[3] == NONE]
            if any(f[0] == "call" and f[1][0] == "attr" and f[1][2] == "done" and f[1][1] in nones for f, _t in pa.facts):
                continue
            reads = _reads(pa, side, col)
            flag_false = (CONSUMED, False) in pa.facts
            flag_true = (CONSUMED, True) in pa.facts
            sets = [i for i, e in enumerate(pa.events) if e.kind == "store" and e.a == CONSUMED and e.b == ("const", True)]
            def _cached_present(f, t):
                """True / False when the fact says that the cached `body` entry is present / absent, None when it is about something else:
                `'body' in self.__dict__`, or `self.__dict__.get('body', <sentinel>) is <sentinel>` (any default, also None)"""
                if "'body' in self.__dict__" in show(f):
                    return bool(t)
                if f[0] == "cmp" and f[1] == "Is":
                    for a_, b_ in ((f[2], f[3]), (f[3], f[2])):
                        if a_[0] == "call" and a_[1] == ("attr", ("attr", ("param", "self"), "__dict__"), "get") and a_[2][:1] == (("const", "body"),) \
                                and (b_ == (a_[2][1] if len(a_[2]) > 1 else ("const", None))):
                            return not t
                return None
            present = [_cached_present(f, t) for f, t in pa.facts]
            replay = any(x is True for x in present) and not any(x is False for x in present)
            if reads:
                n_read += 1
                node, fnn = col.nodes[pa.events[reads[0]].tag]
                if not flag_false:
                    rep.violation("R10.1", construct(st, text="channel read without the consumed test"), where(st, node), f"{side}: a path reads the server channel without having tested `_stream_consumed` (a second stream()/body would re-read the channel)", path_facts=pa.fact_text())
                elif not sets or sets[0] > reads[0]:
                    rep.violation("R10.1", construct(st, text="flag set after the first read"), where(st, node), f"{side}: `_stream_consumed` is not set to True before the first channel read (a concurrent or later reader passes the test too)")
                else:
                    rep.ok("R10.1", f"{side}: channel read only after `_stream_consumed` was tested false and set true")
            if flag_true:
                if pa.exit == "raise" and pa.value == "RuntimeError" and not reads and not (any(x is False for x in present) or any((not t) and ".done()" in show(f) for f, t in pa.facts)):
                    n_raise += 1
                    rep.violation("R10.1", construct(st, text="consumed test before the cached-body replay"), where(st),
                                  f"{side}: stream() raises 'Stream consumed' on a path that has not established that no (completed) body is cached: reading `body` sets the consumed flag AND caches "
                                  "the bytes, so `body` followed by `stream()` / a multipart `form` raises instead of replaying the cached body", path_facts=pa.fact_text())
                elif pa.exit == "raise" and pa.value == "RuntimeError" and not reads:
                    n_raise += 1
                    rep.ok("R10.1", f"{side}: consumed stream -> RuntimeError without touching the channel")
                else:
                    rep.violation("R10.1", construct(st, text="consumed stream not rejected"), where(st), f"{side}: with `_stream_consumed` true the stream does not raise the documented RuntimeError before reading")
            if replay and not any((not t) and ".done()" in show(f) for f, t in pa.facts):
                if reads:
                    rep.violation("R10.1", construct(st, text="replay path reads the channel"), where(st), f"{side}: the cached-body replay path also reads the channel")
                else:
                    ys = [e for e in pa.events if e.kind == "yield"]
                    if ys and "body" in show(ys[0].a):
                        n_replay += 1
                        rep.ok("R10.1", f"{side}: after body was read, stream() replays the cached body without reading")
                    else:
                        rep.violation("R10.1", construct(st, text="replay does not yield the body"), where(st), f"{side}: streaming after the body was read does not replay the cached body")
        if n_read and n_raise and not n_replay:
            rep.violation("R10.1", construct(st, text="no replay branch"), where(st), f"{side}: stream() has no branch that replays the cached body: streaming after the body was read raises or re-reads the channel")
        elif not (n_read and n_replay and n_raise):
            rep.undecide("R10.1", f"{side}: stream() lacks a read path / replay path / consumed path ({n_read}/{n_replay}/{n_raise})")
        # R10.3
        via_iterator = any(e.kind == "call" and e.a[0] == "attr" and e.a[2] in ("__anext__", "__next__") and e.a[1][0] == "obj" for pa in paths for e in pa.events)
        if via_iterator:
            # the receive loop lives in the __next__/__anext__ of an iterator object that keeps state between steps: the clauses below
            # (loop exit only after more_body false, disconnect -> ClientDisconnect, every chunk yielded) are written for a loop in
            # stream() itself and are not decided for that shape
            rep.undecide("R10.3", f"{side}: stream() pulls its chunks from an iterator object (state kept between steps): the receive-loop clauses are not decided")
        if side == "asgi" and not via_iterator:
            for pa in paths:
                reads = _reads(pa, side)
                if not reads or pa.exit != "return":
                    continue
                m = pa.events[reads[-1]]
                mv = ("call", m.a, m.b, m.c, m.tag)
                more_false = any((not t) and f[0] == "call" and f[1][0] == "attr" and f[1][2] == "get" and f[1][1] == mv and f[2] and f[2][0] == ("const", "more_body") for f, t in pa.facts)
                if more_false:
                    rep.ok("R10.3", "asgi: the receive loop ends normally only after a message with more_body false")
                else:
                    rep.violation("R10.3", construct(st, text="loop exit without more_body false"), where(st), "asgi: the receive loop can end although the last message announced more body (truncated body)", path_facts=pa.fact_text())
            disc = [pa for pa in paths if any(t and f[0] == "cmp" and f[3] == ("const", "http.disconnect") for f, t in pa.facts)]
            if disc and all(pa.exit == "raise" and pa.value.endswith(":ClientDisconnect") for pa in disc):
                rep.ok("R10.3", "asgi: http.disconnect raises ClientDisconnect (never a truncated body)")
            else:
                rep.violation("R10.3", construct(st, text="disconnect handling"), where(st), "asgi: a disconnect message does not surface as ClientDisconnect on every path")
            # non-empty chunk -> yielded
            # role: the local bound to <message>.get("body", ...); it must be yielded (guarded at most by its own truth)
            body_names = {t.id for n in ast.walk(st.node) if isinstance(n, ast.Assign) and isinstance(n.value, ast.Call) and isinstance(n.value.func, ast.Attribute) and n.value.func.attr == "get"
                          and n.value.args and isinstance(n.value.args[0], ast.Constant) and n.value.args[0].value == "body" for t in n.targets if isinstance(t, ast.Name)}
            ys = [n for n in ast.walk(st.node) if isinstance(n, ast.Yield) and n.value is not None and ((isinstance(n.value, ast.Name) and n.value.id in body_names)
                  or (isinstance(n.value, ast.Call) and isinstance(n.value.func, ast.Attribute) and n.value.func.attr == "get" and n.value.args and isinstance(n.value.args[0], ast.Constant) and n.value.args[0].value == "body"))]
            from ..common import norm_guards as _guards_of
            okg = False
            for y in ys:
                gs = [(ast.unparse(g), pol) for g, pol in _guards_of(y, st.node)]
                type_names = {t.id for n in ast.walk(st.node) if isinstance(n, ast.Assign) and isinstance(n.value, ast.Subscript) and isinstance(n.value.slice, ast.Constant) and n.value.slice.value == "type"
                              for t in n.targets if isinstance(t, ast.Name)}
                inner = [g for g in gs if not ("'type'" in g[0] or '"type"' in g[0] or any(tn in g[0].replace("(", " ").replace(")", " ").split() for tn in type_names))]
                if all(pol and (g in body_names) for g, pol in inner):
                    okg = True
            if ys and okg:
                rep.ok("R10.3", "asgi: every non-empty chunk is yielded")
            elif ys:
                rep.violation("R10.3", construct(st, text="chunk yield guarded"), where(st, ys[0]), "asgi: a received chunk is yielded only under an extra condition (chunks can be skipped)")
            else:
                rep.violation("R10.3", construct(st, text="chunks not yielded"), where(st), "asgi: received chunks are not yielded")
        elif side == "wsgi":
            # WSGI: return only on an empty read; every non-empty chunk yielded
            r = wsgi_read_loop(st)
            if r[0] == "ok":
                rep.ok("R10.3", f"wsgi: the read loop returns only on an empty read and yields every chunk ({r[1]})")
            elif r[0] == "violation":
                rep.violation("R10.3", construct(st, text="read loop"), where(st, r[2]), f"wsgi: {r[1]}")
            else:
                rep.undecide("R10.3", f"wsgi: Request.stream(): {r[1]}")
        # R10.4
        rets = [n for n in walk_shallow(body.node) if isinstance(n, ast.Return)]
        txt = ast.unparse(rets[0].value) if rets else ""
        bpaths, _bc, _bi = run_paths(p, body, req)
        bvals = [pa.value for pa in bpaths if pa.exit == "return"]
        join_ok = False
        if len(rets) == 1 and len(bvals) == 1:
            v = bvals[0]
            # b"".join(<comprehension of the elements of self.stream(), unfiltered, element unchanged>)
            def _is_stream(src_):
                return (src_[0] == "gen" and src_[1] == st.fq and not src_[2] and not src_[3] and src_[4] == ("param", "self")) or \
                    (src_[0] == "call" and callee_is(src_[1], "stream", "Request.stream") and not src_[2])
            if v[0] == "call" and v[1] == ("attr", ("const", b""), "join") and len(v[2]) == 1 and v[2][0][0] == "comp" and v[2][0][1] in ("list", "gen"):
                cmpv = v[2][0]
                src_ = cmpv[3]
                join_ok = cmpv[2] == ("elem", src_) and not cmpv[4] and _is_stream(src_)
            elif v[0] == "call" and v[1] == ("attr", ("const", b""), "join") and len(v[2]) == 1:
                # ... or the stream itself / list(stream) / tuple(stream)
                a0 = v[2][0]
                if a0[0] == "call" and a0[1] in (("builtin", "list"), ("builtin", "tuple")) and len(a0[2]) == 1:
                    a0 = a0[2][0]
                join_ok = _is_stream(a0)
        if join_ok:
            rep.ok("R10.4", f"{side}: body = b''.join(all chunks of self.stream())")
        else:
            rep.violation("R10.4", construct(body, text=f"return {txt}"), where(body), f"{side}: body is not the concatenation of exactly the chunks of self.stream()")
        # who else reads the channel
        for ci in [req] + [c for c in p.mro(req) if isinstance(c, ClassInfo) and c.module.name.startswith(f"baize.{side}")] + p.subclasses(req):
            for m in ci.methods.values():
                if m.name == "stream":
                    continue
                for n in ast.walk(m.node):
                    bad = None
                    if side == "asgi" and isinstance(n, ast.Call) and isinstance(n.func, ast.Attribute) and n.func.attr == "_receive" and isinstance(n.func.value, ast.Name) and n.func.value.id == "self":
                        bad = n
                    if side == "wsgi" and isinstance(n, ast.Constant) and n.value == "wsgi.input":
                        bad = n
                    if bad is not None:
                        if default_inline(m):
                            # a private helper is part of whoever calls it: reading there is reading in stream() when stream() is its only caller
                            callers = sorted({f_.fq for ci2 in [req] + p.subclasses(req) for f_ in ci2.methods.values() for c_ in calls_in(f_, deep=True) if p.resolve_call(f_, c_) is m})
                            outside = [c_ for c_ in callers if not c_.endswith(".stream")]
                            if callers and not outside:
                                continue
                            if not callers:
                                # no call of the private helper is left: the loader spliced it into its caller(s) (N8/N9), whose own
                                # bodies are scanned by this very loop - the helper's text is judged there
                                continue
                            rep.violation("R10.1", construct(m, text="reads the request channel"), where(m, bad),
                                          f"{m.fq} reads the request channel and is called from {outside or 'nowhere'}, not only from stream(): a message can be consumed twice or stolen from the body")
                            continue
                        if m.name == "is_disconnected":
                            rep.observe("asgi is_disconnected() polls receive(); it can swallow a body message (it discards, it does not re-consume) - sanctioned reader")
                        else:
                            rep.violation("R10.1", construct(m, text="reads the request channel"), where(m, bad), f"{m.fq} reads the request channel outside stream(): a message can be consumed twice or stolen from the body")
        # who consumes stream(): the cached `body` accessor and the multipart parser (which hands the stream itself to the
        # parse helper). Any other consumer (an urlencoded / JSON path that joins the chunks itself) bypasses the ONE cached body:
        # a later body / stream raises 'Stream consumed', and concurrent awaiters no longer share one future.
        n_consumers = 0
        for ci in [req] + p.subclasses(req):
            for m in dict.values(ci.methods):
                for c_ in calls_in(m, deep=True):
                    if not (isinstance(c_.func, ast.Attribute) and c_.func.attr == "stream" and isinstance(c_.func.value, ast.Name) and c_.func.value.id == "self"):
                        continue
                    n_consumers += 1
                    from ..common import owner_of as _own10, parents as _par10
                    try:
                        top = _own10(p, m)
                    except Exception:
                        top = m
                    while top.parent is not None:
                        top = top.parent
                    par = next(iter(_par10(c_)), None)
                    handed_to_parser = isinstance(par, ast.Call) and c_ in par.args and isinstance(p.resolve_call(m, par), FuncInfo) and p.resolve_call(m, par).name in ("parse_stream", "parse_async_stream")
                    if top.name == "body" or handed_to_parser:
                        rep.ok("R10.1", f"{side}: stream() is consumed by {m.fq} ({'the cached body accessor' if top.name == 'body' else 'handed to the multipart parse helper'})")
                    else:
                        rep.violation("R10.1", construct(m, text="consumes self.stream() outside the cached body"), where(m, c_),
                                      f"{side}: {m.fq} drains self.stream() itself: the result does not go through the cached `body` (one shared future on ASGI), so a later body / stream / form access raises "
                                      "'Stream consumed' instead of returning the cached bytes, and two concurrent awaiters race for the receive channel")
        if n_consumers == 0:
            rep.undecide("R10.1", f"{side}: nothing in the Request class consumes self.stream()")
        # cached accessors
        for name in ("body", "json", "form"):
            m = req.methods.get(name)
            if m is None:
                raise AnalysisError(f"{side} Request.{name} vanished")
            if any(d.endswith("cached_property") for d in m.decorators):
                rep.ok("R10.2", f"{side}: Request.{name} is a cached_property")
            else:
                rep.violation("R10.2", construct(m, text="decorators " + ",".join(m.decorators)), where(m), f"{side}: Request.{name} is not a cached_property: every access recomputes it (the stream is consumed on the second one)")
    rep.require_instances("R10.1", 6)
    rep.require_instances("R10.3", 4)

    # ---------------------------------------------------------------- R10.5 the form accessors drain the stream
    # form parsing consumes self.stream() through the stream helpers; leaving the chunk loop early (e.g. once the closing
    # delimiter was seen) leaves server messages unread: a later disconnect message is never seen as ClientDisconnect, and
    # the bytes after the delimiter stay in the channel
    from .mp_common import helpers as _helpers
    for hname, hf in _helpers(p).items():
        rep.analysed(hf.fq)
        loops = [n for n in walk_shallow(hf.node) if isinstance(n, (ast.For, ast.AsyncFor)) and isinstance(n.iter, ast.Name) and n.iter.id == hf.params[0]]
        if len(loops) != 1:
            rep.undecide("R10.5", f"{hname}: expected one loop over the stream parameter, found {len(loops)}")
            continue
        lp = loops[0]
        early = []
        for n in ast.walk(lp):
            if isinstance(n, ast.Return):
                early.append(n)
            elif isinstance(n, ast.Break):
                # a break of an INNER loop (the event loop `while True`) is fine
                inner = next((q for q in __import__("sa.common", fromlist=["parents"]).parents(n) if isinstance(q, (ast.While, ast.For, ast.AsyncFor))), None)
                if inner is lp:
                    early.append(n)
        if early:
            rep.violation("R10.5", construct(hf, text="chunk loop left early"), where(hf, early[0]),
                          f"{hname} leaves the loop over the body chunks before the stream is exhausted: the remaining server messages are never consumed, so a disconnect before the final chunk "
                          "is not reported as ClientDisconnect and form() returns a result for a truncated request")
        else:
            rep.ok("R10.5", f"{hname}: the chunk loop runs until the stream is exhausted (no break/return inside it)")
    rep.require_instances("R10.5", 2)

    # ---------------------------------------------------------------- R10.2 the descriptor
    cp = p.cls("baize.utils:cached_property")
    for bad in ("__set__", "__delete__", "__set_name__"):
        if bad in cp.methods and bad != "__set_name__":
            rep.violation("R10.2", construct(cp, text=bad), cp.methods[bad].loc, f"cached_property defines {bad}: it becomes a data descriptor and the cached instance attribute no longer shadows it")
    if "__set__" not in cp.methods and "__delete__" not in cp.methods:
        rep.ok("R10.2", "cached_property is a non-data descriptor (no __set__/__delete__): the instance __dict__ entry shadows it")
    get = cp.methods.get("__get__")
    if get is None:
        raise AnalysisError("cached_property.__get__ vanished")
    rep.analysed(get.fq)
    paths, col, it = run_paths(p, get, cp)
    rep.cfg_paths += len(paths)
    computed = 0
    for pa in paths:
        if pa.exit != "return":
            continue
        calls = [e for e in pa.events if e.kind == "call" and e.a == ("attr", ("param", "self"), "func")]
        if not calls:
            continue
        computed += 1
        if len(calls) != 1 or calls[0].b != (("param", "obj"),):
            rep.violation("R10.2", construct(get, text="func called"), where(get), "cached_property does not call the wrapped function exactly once with the instance")
            continue
        res = ("call", calls[0].a, calls[0].b, calls[0].c, calls[0].tag)
        stores = [e for e in pa.events if e.kind == "store" and e.a[0] == "sub" and e.a[1] == ("attr", ("param", "obj"), "__dict__")]
        awaitable = any(t and f[0] == "call" and f[1] == ("ext", "inspect.isawaitable") for f, t in pa.facts)
        if awaitable and not stores:
            # the store deferred into a coroutine: an `async def` of the descriptor writes `<obj>.__dict__[...]` after an await
            deferred = None
            for m_ in cp.methods.values():
                if not isinstance(m_.node, ast.AsyncFunctionDef):
                    continue
                aw = [n.lineno for n in ast.walk(m_.node) if isinstance(n, ast.Await)]
                for n in ast.walk(m_.node):
                    if isinstance(n, ast.Assign) and any(isinstance(t, ast.Subscript) and isinstance(t.value, ast.Attribute) and t.value.attr == "__dict__" for t in n.targets) \
                            and any(l_ <= n.lineno for l_ in aw):
                        deferred = (m_, n)
            if deferred is not None:
                rep.violation("R10.2", construct(get, text=f"cache entry written by the coroutine {deferred[0].name} after its await"), where(deferred[0], deferred[1]),
                              f"cached_property.__get__ returns a future for an awaitable result and leaves the instance __dict__ entry to `{deferred[0].name}`, which writes it only after "
                              "awaiting the result: every access made while the first one is still suspended (two tasks awaiting request.body / json / form, an un-awaited access followed by "
                              "another) finds no entry, runs the accessor again and hits the consumed stream instead of sharing the one result", positive=True)
                continue
        if len(stores) != 1:
            rep.violation("R10.2", construct(get, text="no store into obj.__dict__"), where(get), "cached_property does not store the computed value in the instance __dict__ (recomputed on every access)")
            continue
        key, val = stores[0].a[2], stores[0].b
        if key != ("attr", ("attr", ("param", "self"), "func"), "__name__"):
            rep.violation("R10.2", construct(get, text=f"key {show(key)}"), where(get), "the value is not stored under the wrapped function's own name (the attribute lookup does not find it)")
        if awaitable:
            if val[0] == "call" and val[1] == ("ext", "asyncio.ensure_future") and val[2] == (res,):
                rep.ok("R10.2", "an awaitable result is wrapped in ONE future (ensure_future) before it is stored: concurrent awaiters share it")
            else:
                rep.violation("R10.2", construct(get, text=f"stores {show(val)[:50]} for an awaitable"), where(get), "an awaitable result is stored without being wrapped in a single shared future: a second await re-runs or fails")
        else:
            if val == res:
                rep.ok("R10.2", "a plain result is stored as is")
            else:
                rep.violation("R10.2", construct(get, text=f"stores {show(val)[:50]}"), where(get), "the stored value is not the computed result")
        if pa.value != val and pa.value != stores[0].b:
            rep.violation("R10.2", construct(get, text="returns something else"), where(get), "the value returned by the first access is not the one that was cached")
    if computed == 1 and not any(any(f[0] == "call" and f[1] == ("ext", "inspect.isawaitable") for f, t in pa.facts) for pa in paths):
        rep.violation("R10.2", construct(get, text="awaitable results not wrapped"), where(get), "cached_property does not distinguish awaitable results: a coroutine is cached as is and can be awaited only once (the second `await request.body` fails)")
    elif computed < 2:
        rep.undecide("R10.2", "cached_property.__get__ lacks the awaitable / plain computing paths")
    # the cache is write-once: nothing in the package removes or replaces an instance __dict__ entry. (The class doc allows
    # the USER to delete the attribute; library code doing it - e.g. evicting a failed future - makes the next access
    # re-run the accessor on an already consumed stream instead of returning the identical cached result.)
    n_scan = 0
    # what the rule protects are the cached accessor results of the request objects: an entry of an instance __dict__ whose key is
    # (or may be) the name of a cached accessor. A descriptor of some other class that keeps ITS value in the instance __dict__
    # under its own name (a state field of the websocket wrapper) is not that.
    cached_names = {m_.name for side_ in ("wsgi", "asgi") for c_ in [p.cls(f"baize.{side_}.requests:Request")] + [x for x in p.mro(p.cls(f"baize.{side_}.requests:Request")) if isinstance(x, ClassInfo)]
                    for m_ in dict.values(c_.methods) if any("cached_property" in d_ for d_ in m_.decorators)}
    REQ_MODS = ("baize.utils", "baize.requests", "baize.wsgi.requests", "baize.asgi.requests")

    def _relevant(fn_, key_expr) -> bool:
        if isinstance(key_expr, ast.Constant):
            return key_expr.value in cached_names
        return fn_.module.name in REQ_MODS or key_expr is None

    for fn in p.all_functions():
        n_scan += 1
        for n in ast.walk(fn.node):
            hit = None
            if isinstance(n, ast.Delete):
                for t in n.targets:
                    if isinstance(t, ast.Subscript) and isinstance(t.value, ast.Attribute) and t.value.attr == "__dict__" and _relevant(fn, t.slice):
                        hit = f"del {ast.unparse(t.value)}[...]"
                    elif isinstance(t, ast.Attribute) and isinstance(t.value, ast.Name) and t.value.id in ("self", "request", "obj") and fn.module.name.endswith(("requests", "utils")):
                        hit = f"del {ast.unparse(t)}"
            elif isinstance(n, ast.Call) and isinstance(n.func, ast.Attribute) and n.func.attr in ("pop", "popitem", "clear", "__delitem__") and isinstance(n.func.value, ast.Attribute) and n.func.value.attr == "__dict__" \
                    and _relevant(fn, n.args[0] if n.args else None):
                hit = f"{ast.unparse(n.func.value)}.{n.func.attr}(...)"
            elif isinstance(n, ast.Call) and isinstance(n.func, ast.Name) and n.func.id == "delattr":
                hit = "delattr(...)"
            if hit is None:
                continue
            rep.violation("R10.2", construct(fn, text="cache eviction: " + hit), where(fn, n),
                          f"{fn.fq} removes an entry of an instance __dict__ ({hit}): a cached accessor result (e.g. the failed body future after a disconnect) is evicted and the next access "
                          "re-runs the accessor instead of returning the identical cached result / the same error")
    # the same eviction through an ALIAS of the instance dict: `ns = obj.__dict__; del ns[name]`, or the dict handed to a
    # repository function (directly or frozen into functools.partial as a done-callback) that deletes from its parameter
    def _removals(fn_, var: str):
        for n_ in ast.walk(fn_.node):
            if isinstance(n_, ast.Delete):
                for t_ in n_.targets:
                    if isinstance(t_, ast.Subscript) and isinstance(t_.value, ast.Name) and t_.value.id == var:
                        yield n_, f"del {var}[...]"
            elif isinstance(n_, ast.Call) and isinstance(n_.func, ast.Attribute) and n_.func.attr in ("pop", "popitem", "clear", "__delitem__") and isinstance(n_.func.value, ast.Name) and n_.func.value.id == var:
                yield n_, f"{var}.{n_.func.attr}(...)"

    for fn in p.all_functions():
        if fn.module.name not in REQ_MODS:
            continue
        for n in ast.walk(fn.node):
            if isinstance(n, ast.Assign) and len(n.targets) == 1 and isinstance(n.targets[0], ast.Name) and isinstance(n.value, ast.Attribute) and n.value.attr == "__dict__":
                for site, hit in _removals(fn, n.targets[0].id):
                    rep.violation("R10.2", construct(fn, text="cache eviction through an alias: " + hit), where(fn, site),
                                  f"{fn.fq} removes an entry of an instance __dict__ through the alias `{n.targets[0].id}` ({hit}): a cached accessor result is evicted and the next access re-runs the accessor", positive=True)
            if not isinstance(n, ast.Call):
                continue
            for idx, a_ in enumerate(n.args):
                if not (isinstance(a_, ast.Attribute) and a_.attr == "__dict__"):
                    continue
                tgt_, pidx = n.func, idx
                if ast.unparse(n.func) in ("functools.partial", "partial") and n.args and idx >= 1:
                    tgt_, pidx = n.args[0], idx - 1
                if not isinstance(tgt_, ast.Name):
                    continue
                callee = fn.module.functions.get(tgt_.id) if hasattr(fn.module, "functions") else None
                if callee is None:
                    continue
                params_ = [x.arg for x in callee.node.args.posonlyargs + callee.node.args.args]
                if pidx >= len(params_):
                    continue
                for site, hit in _removals(callee, params_[pidx]):
                    rep.violation("R10.2", construct(callee, text="cache eviction of the instance dict handed over by " + fn.name + ": " + hit), where(callee, site),
                                  f"{fn.fq} hands `{ast.unparse(a_)}` to {callee.fq}{' (frozen into functools.partial)' if tgt_ is not n.func else ''}, which removes an entry from it ({hit}): a cached accessor "
                                  "result (e.g. the failed body future after a disconnect) is evicted, the next access re-runs the accessor on the consumed stream instead of returning the identical cached result / the same error", positive=True)
    own_stores = 0
    for fn in p.all_functions():
        if fn.cls is cp or (fn.parent is not None and fn.parent.cls is cp):
            continue
        from ..common import owner_of as _owner_of
        try:
            own_ = _owner_of(p, fn)
        except Exception:
            own_ = fn
        if own_ is not fn and own_.cls is cp:
            continue  # a private single-caller helper of cached_property.__get__ (its store is judged with __get__, helpers inlined)
        for n in ast.walk(fn.node):
            if isinstance(n, (ast.Assign, ast.AugAssign, ast.AnnAssign)):
                for t in (n.targets if isinstance(n, ast.Assign) else [n.target]):
                    if isinstance(t, ast.Subscript) and isinstance(t.value, ast.Attribute) and t.value.attr == "__dict__" and _relevant(fn, t.slice):
                        own_stores += 1
                        rep.violation("R10.2", construct(fn, text="cache overwrite: " + ast.unparse(t)), where(fn, n), f"{fn.fq} writes an instance __dict__ entry outside cached_property: a cached accessor result can be replaced")
    if not any(v for v in rep.violations if "cache eviction" in str(v) or "cache overwrite" in str(v)):
        rep.ok("R10.2", f"no function of the package ({n_scan} scanned) deletes or overwrites an instance __dict__ entry: cached results are write-once")
    rep.require_instances("R10.2", 9)


def wsgi_read_loop(st: FuncInfo):
    """The WSGI body reader must end on an EMPTY read only (a short read is not the end of the body) and yield every chunk.
    Returns ("ok", text) | ("violation", reason, node) | ("unknown", reason).  Roles, not names."""
    size = st.params[1] if len(st.params) > 1 else None

    def is_read(e: ast.AST) -> bool:
        return isinstance(e, ast.Call) and isinstance(e.func, ast.Attribute) and e.func.attr == "read" and [ast.unparse(a) for a in e.args] == [size]

    def yields(stmt: ast.stmt, ck: str) -> bool:
        return isinstance(stmt, ast.Expr) and isinstance(stmt.value, ast.Yield) and isinstance(stmt.value.value, ast.Name) and stmt.value.value.id == ck

    def leaves(stmt: ast.stmt) -> bool:
        return isinstance(stmt, (ast.Return, ast.Break)) and getattr(stmt, "value", None) is None

    results = []
    for lp in [n for n in ast.walk(st.node) if isinstance(n, (ast.While, ast.For))]:
        if not any(is_read(x) or (isinstance(x, ast.Attribute) and x.attr == "read") for x in ast.walk(lp)):
            continue
        results.append(_one_read_loop(lp, is_read, yields, leaves))
    for kind in ("violation", "unknown", "ok"):
        for r in results:
            if r[0] == kind:
                return r
    return ("unknown", "no loop calling <input>.read(<size parameter>) found")


def _one_read_loop(lp, is_read, yields, leaves):
    if True:
        # idiom 3: for <chunk> in iter(<callable reading size bytes>, b""): yield <chunk>
        if isinstance(lp, ast.For):
            it = lp.iter
            if isinstance(it, ast.Call) and isinstance(it.func, ast.Name) and it.func.id == "iter" and len(it.args) == 2 and isinstance(it.args[1], ast.Constant) and it.args[1].value == b"" \
                    and isinstance(lp.target, ast.Name) and len(lp.body) == 1 and yields(lp.body[0], lp.target.id):
                return ("ok", "for chunk in iter(<read>, b''): yield chunk")
            if isinstance(it, ast.Call) and isinstance(it.func, ast.Name) and it.func.id == "range":
                return ("violation", f"the body is read by a counted loop (for ... in {ast.unparse(it)[:50]}): the loop ends after a fixed number of reads, "
                        "so after short reads the tail of the body is never read - only an EMPTY read marks the end of the body", lp)
            return ("unknown", "for-loop reader of an unrecognised shape")
        # idiom 2: while <chunk> := <input>.read(size): yield <chunk>
        if isinstance(lp.test, ast.NamedExpr) and is_read(lp.test.value) and len(lp.body) == 1 and yields(lp.body[0], lp.test.target.id):
            return ("ok", "while chunk := read(size): yield chunk")
        body = lp.body
        # a loop that runs WHILE A BYTE COUNTER IS POSITIVE (`while remaining > 0:` with remaining -= len(chunk)): its end is decided by the
        # announced length, not by the empty read - without Content-Length (chunked transfer) the counter starts at 0 / None and the body is
        # read as empty; with a length larger than the data it never ends
        if isinstance(lp.test, ast.Compare) and len(lp.test.ops) == 1 and isinstance(lp.test.ops[0], (ast.Gt, ast.GtE, ast.NotEq)) and isinstance(lp.test.left, ast.Name) \
                and any(isinstance(n, ast.AugAssign) and isinstance(n.op, ast.Sub) and isinstance(n.target, ast.Name) and n.target.id == lp.test.left.id for n in ast.walk(lp)):
            return ("violation", f"the body is read while a byte counter is positive (`while {ast.unparse(lp.test)}`): the end of the body is taken from the announced length instead of the empty read - "
                    "a request without Content-Length (chunked transfer, de-chunked by the server) is read as an EMPTY body", lp)
        if not (body and isinstance(body[0], ast.Assign) and len(body[0].targets) == 1 and isinstance(body[0].targets[0], ast.Name) and is_read(body[0].value)):
            return ("unknown", "the loop does not start with <chunk> = <input>.read(<size parameter>)")
        ck = body[0].targets[0].id
        rest = body[1:]
        # every way out of the loop must be guarded by exactly `not <chunk>`
        from ..common import norm_guards as _gof
        exits = [n for n in ast.walk(ast.Module(body=rest, type_ignores=[])) if leaves(n)]
        if not exits:
            return ("violation", "the read loop never ends (no return/break on an empty read)", lp)
        for ex in exits:
            gs = [(ast.unparse(g), pol) for g, pol in _gof(ex, lp)]
            if gs != [(ck, False)]:
                txt = " and ".join(("" if pol else "not ") + f"({g})" for g, pol in gs) or "unconditionally"
                return ("violation", f"the read loop ends when {txt}: only an EMPTY read marks the end of the body (a short read does not)", ex)
        # the chunk is yielded whenever it is non-empty
        ys = [n for n in ast.walk(ast.Module(body=rest, type_ignores=[])) if isinstance(n, ast.Expr) and yields(n, ck)]
        if len(ys) != 1:
            return ("violation", f"a chunk is yielded {len(ys)} times per read", lp)
        gs = [(ast.unparse(g), pol) for g, pol in _gof(ys[0], lp)]
        if gs in ([], [(ck, True)]):
            return ("ok", "read; leave on an empty read; yield the chunk")
        return ("violation", "a chunk is yielded only under an extra condition (chunks can be skipped)", ys[0])


def wsgi_read_loop_ok(st: FuncInfo) -> bool:
    return wsgi_read_loop(st)[0] == "ok"
