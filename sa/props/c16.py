"""C16 - cookies round-trip exactly and expire when asked."""
from __future__ import annotations

import ast
from typing import List, Optional

from ..collect import callee_is, run_paths
from ..common import ast_text_parts, with_helpers, calls_in, construct, where
from ..flow import NONE, contains, show, subterms
from ..fold import Folder, NotConst
from ..loader import AnalysisError, FuncInfo, Program, walk_shallow
from ..report import Report
from .cookie_common import DS, cookie_bytes_rule, emitted, extract_writer

UTC_NAMES = {"datetime.timezone.utc", "datetime.UTC", "timezone.utc"}


def _reader_structure(p: Program, rep: Report):
    """Extract from MoreInfoFromHeaderMixin.cookies: the pair separator, the key/value separator,
    whether both sides are stripped, and the unquote function."""
    mixin = p.cls("baize.requests:MoreInfoFromHeaderMixin")
    fn = mixin.methods.get("cookies")
    if fn is None:
        raise AnalysisError("MoreInfoFromHeaderMixin.cookies vanished")
    rep.analysed(fn.fq)
    pair_sep = kv_sep = None
    maxsplit = None
    unq = None
    strip_args: List[str] = []
    # the reader is the accessor together with the repository functions it hands the header text to (a parser moved to
    # baize.utils, a private splitter generator ...)
    unit = with_helpers(p, fn, depth=3, policy=lambda fi: fi.module.name.startswith("baize") and fi.cls is None and not fi.is_async)
    for f_u in unit:
        rep.analysed(f_u.fq)
    for c, f_u in [(c_, f_) for f_ in unit for c_ in calls_in(f_)]:
        f = c.func
        if isinstance(f, ast.Attribute) and f.attr == "split" and c.args and isinstance(c.args[0], ast.Constant):
            if isinstance(getattr(c, "_parent", None), (ast.For, ast.comprehension)) or pair_sep is None and "header" in ast.unparse(f.value):
                pair_sep = c.args[0].value
            else:
                kv_sep = c.args[0].value
                if len(c.args) > 1 and isinstance(c.args[1], ast.Constant):
                    maxsplit = c.args[1].value
                for k in c.keywords:
                    if k.arg == "maxsplit" and isinstance(k.value, ast.Constant):
                        maxsplit = k.value.value
        elif isinstance(f, ast.Attribute) and f.attr == "partition" and c.args and isinstance(c.args[0], ast.Constant):
            kv_sep = c.args[0].value
            maxsplit = 1
        elif isinstance(f, ast.Attribute) and f.attr in ("rpartition", "rsplit", "rfind", "rindex") and c.args and isinstance(c.args[0], ast.Constant) and c.args[0].value == "=":
            kv_sep = c.args[0].value
            maxsplit = f"last ({f.attr})"  # split at the LAST '=': not 'the first only'
        elif isinstance(f, ast.Attribute) and f.attr == "strip":
            strip_args.append(ast.unparse(c.args[0]) if c.args else "")
        r = p.resolve_call(f_u, c)
        if isinstance(r, tuple) and r[0] == "ext" and "unquote" in r[1]:
            unq = r[1]
        elif isinstance(f, ast.Name):
            # the unquoter bound to a local once (`unquote = http_cookies._unquote`, hoisted out of the loop) and called by that name
            for a_ in ast.walk(f_u.node):
                if isinstance(a_, ast.Assign) and len(a_.targets) == 1 and isinstance(a_.targets[0], ast.Name) and a_.targets[0].id == f.id and isinstance(a_.value, (ast.Attribute, ast.Name)):
                    others = [b_ for b_ in ast.walk(f_u.node) if isinstance(b_, (ast.Assign, ast.AugAssign, ast.AnnAssign)) and b_ is not a_
                              and any(isinstance(t_, ast.Name) and t_.id == f.id for t_ in (b_.targets if isinstance(b_, ast.Assign) else [b_.target]))]
                    if others:
                        continue
                    fake = ast.copy_location(ast.Call(func=a_.value, args=c.args, keywords=c.keywords), c)
                    try:
                        r2 = p.resolve_call(f_u, fake)
                    except Exception:
                        r2 = None
                    if isinstance(r2, tuple) and r2[0] == "ext" and "unquote" in r2[1]:
                        unq = r2[1]
    return fn, pair_sep, kv_sep, maxsplit, strip_args, unq


def _unquote_contract(s: str) -> str:
    """http.cookies._unquote as documented (trusted stdlib contract): only if wrapped in double
    quotes; \\ooo ([0-3][0-7][0-7]) -> chr, \\c -> c."""
    if len(s) < 2 or s[0] != '"' or s[-1] != '"':
        return s
    s = s[1:-1]
    out = []
    i = 0
    while i < len(s):
        if s[i] == "\\" and i + 1 < len(s):
            if i + 3 < len(s) and s[i + 1] in "0123" and s[i + 2] in "01234567" and s[i + 3] in "01234567":
                out.append(chr(int(s[i + 1 : i + 4], 8)))
                i += 4
            else:
                out.append(s[i + 1])
                i += 2
        else:
            out.append(s[i])
            i += 1
    return "".join(out)


def run(p: Program, rep: Report, tier: str) -> None:
    rep.explanation = (
        "R16.1 writer/reader table agreement, exhaustive over code points 0-255: from the folded legal set and "
        "translator table (writer) and the separators/strip/unquote structure extracted from the request-side "
        "cookies accessor (reader), check per code point that the emitted chunk is ASCII, contains no raw reader "
        "separator, and is inverted by the reader's contract; plus the raw-path and empty-value side conditions. "
        "R16.2 __bytes__ encodes str(self) as ASCII. R16.3 API provenance: the datetime formatted with a literal "
        "'GMT' is produced by a UTC-aware constructor from time.time()+expires. R16.4 max-age is the argument "
        "unchanged; delete_cookie passes expires=0 and max_age=0. R16.5 the request's header mapping is built from the gateway's "
        "header values unchanged (WSGI: the environ value; ASGI: its Latin-1 decoding), so the cookie reader sees the text that was sent. NOT decided: multi-cookie interplay beyond the "
        "separator argument, locale dependence of %a/%b."
    )
    rep.assume("http.cookies._unquote contract: unquotes only a value wrapped in double quotes; \\ooo with ooo in [0-3][0-7][0-7] -> chr; \\c -> c")
    w = extract_writer(p, rep, "R16.1")
    fn, pair_sep, kv_sep, maxsplit, strip_args, unq = _reader_structure(p, rep)

    # ------------------------------------------------------------------ R16.1 reader shape
    if pair_sep != ";":
        if isinstance(pair_sep, str) and pair_sep:
            rep.violation("R16.1", construct(fn, text=f"split({pair_sep!r})"), where(fn), f"the reader splits the Cookie header on {pair_sep!r}, not on ';'")
        else:
            # the header handed to the package's quote-aware parameter splitter: its quote parity counts every `\"` as an escaped quote,
            # the writer emits `\\"` (escaped backslash, closing quote) at the end of a value that ends in a backslash
            pp = None
            for lp in ast.walk(fn.node):
                if isinstance(lp, (ast.For, ast.comprehension)):
                    for c in ast.walk(lp.iter):
                        if isinstance(c, ast.Call) and isinstance(c.func, ast.Name) and c.func.id == "_parseparam":
                            pp = c
            try:
                ppf = p.module("baize.utils").functions.get("_parseparam")
            except Exception:
                ppf = None
            wrote_bs = emitted(w, 0x5C)
            if pp is not None and ppf is not None and "count('\\\\\"'" in ast.unparse(ppf.node) and wrote_bs == "\\\\":
                rep.violation("R16.1", construct(fn, text=f"Cookie header split by {ast.unparse(pp)[:40]}"), where(fn, pp),
                              "the reader splits the Cookie header with utils._parseparam, whose quote parity (count of '\"' minus count of '\\\"') takes every backslash-quote for an escaped quote; "
                              "the writer ends a value that ends in a backslash with `\\\\\"` (escaped backslash + closing quote), which that parity reads as a still-open quote: the following ';' is "
                              "not a separator any more, the cookies after such a value are swallowed into it and it is not unquoted", positive=True)
            else:
                rep.undecide("R16.1", "pair separator of the reader not found")
    if kv_sep is None and maxsplit is None:
        # no split / partition of a pair at '=' found at all (the header is tokenised by a regular expression, a scanner ...)
        rep.undecide("R16.1", "the reader separates name from value in an idiom outside the table (no split / partition at '=')")
    elif kv_sep != "=" or maxsplit != 1:
        rep.violation("R16.1", construct(fn, text=f"split({kv_sep!r}, {maxsplit!r})"), where(fn),
                      "the reader does not split name from value at the first '=' only (a value containing '=' is truncated)")
    else:
        rep.ok("R16.1", "reader splits pairs on ';' and name/value at the first '='")
    if unq != "http.cookies._unquote":
        rep.violation("R16.1", construct(fn, text=f"unquote={unq}"), where(fn), "the reader does not unquote values with http.cookies._unquote")
    else:
        rep.ok("R16.1", "reader unquotes with http.cookies._unquote")
    if any(a != "" for a in strip_args):
        rep.violation("R16.1", construct(fn, text=f"strip({strip_args})"), where(fn), "the reader strips characters other than white space from names/values")
    seps = {s for s in (pair_sep,) if isinstance(s, str)}

    # ------------------------------------------------------------------ R16.1 per code point
    bad = 0
    for c in range(256):
        ch = chr(c)
        if ch in w.legal:
            # raw path for single-char strings; quoted path still reachable when mixed with illegal chars
            raw_ok = ch not in seps and not ch.isspace() and ch != '"' and ch != "\\" and c < 128 and ch != "="[:0]
            if not raw_ok:
                bad += 1
                rep.violation("R16.1", construct(f"{DS}:{w.legal_name}", text=f"legal char {ch!r}"), w.legal_loc,
                              f"{ch!r} is emitted raw on the unquoted path but the reader would split/strip/unquote it differently")
                continue
        e = emitted(w, c)
        why = None
        if not e.isascii():
            why = f"code point {c} is emitted as non-ASCII {e!r} (bytes(cookie) raises UnicodeEncodeError)"
        elif any(s in e for s in seps):
            why = f"code point {c} is emitted as {e!r} containing the reader's separator"
        elif e == "":
            why = f"code point {c} is dropped by the writer"
        else:
            back = _unquote_contract('"' + e + '"')
            if back != ch:
                why = f"code point {c}: writer emits {e!r}, the reader's unquoting gives {back!r}"
        if why:
            bad += 1
            rep.violation("R16.1", construct(f"{DS}:{w.translator_name}", text=f"emit({c})"), w.translator_loc, why)
        else:
            rep.obligations += 1
            rep.discharged += 1
    rep.rule_instances.setdefault("R16.1", {"found": 0, "min": 0})["found"] += 256 - bad
    # two-character context: an emitted chunk must not fuse with its neighbour into another escape
    # (a raw backslash would; covered by: raw chunks are never backslash/quote)
    for c in range(256):
        e = emitted(w, c)
        if len(e) == 1 and e in '\\"':
            rep.violation("R16.1", construct(f"{DS}:{w.translator_name}", text=f"emit({c})"), w.translator_loc, f"code point {c} is emitted as a raw {e!r} inside the quoted string")
    # side conditions
    if "" == "" and not any(True for _ in ()):  # empty value takes the quoted path because L(legal) excludes ""
        back = _unquote_contract('""')
        if back == "":
            rep.ok("R16.1", "empty value: quoted path emits '\"\"', unquoted to ''")
    rep.samples.append({"rule": "R16.1", "obligation": "reader(writer(c)) == c for c in 0..255",
                        "detail": {str(c): {"emit": emitted(w, c), "read_back": _unquote_contract('"' + emitted(w, c) + '"')} for c in (0, 9, 32, 34, 44, 59, 61, 92, 128, 255)}})
    rep.require_instances("R16.1", 250)

    # ------------------------------------------------------------------ R16.2
    cookie = p.cls(f"{DS}:Cookie")
    kind_, b, node_, cons_, msg_ = cookie_bytes_rule(p)
    if b is not None:
        rep.analysed(b.fq)
    if kind_ == "ok":
        rep.ok("R16.2", msg_)
    elif kind_ == "undecided":
        rep.undecide("R16.2", msg_)
    else:
        rep.violation("R16.2", construct(b, text=cons_), where(b), msg_)

    # ------------------------------------------------------------------ R16.3 / R16.4
    s = cookie.methods.get("__str__")
    rep.analysed(s.fq)
    gmt_fields = []
    s_unit = with_helpers(p, s)  # __str__ and the private helpers that produce its pieces
    _F16 = Folder(p)
    for c in [c_ for f_ in s_unit for c_ in calls_in(f_)]:
        if isinstance(c.func, ast.Attribute) and c.func.attr == "strftime" and c.args:
            try:
                fmt = _F16.fold(s.module, c.args[0])  # a literal or a module-level constant
            except NotConst:
                continue
            if not isinstance(fmt, str):
                continue
            recv = ast.unparse(c.func.value)
            if "GMT" in fmt or "UTC" in fmt or fmt.endswith("Z"):
                gmt_fields.append((recv, fmt, c))
                want = "%a, %d %b %Y %H:%M:%S GMT"
                if fmt != want:
                    rep.violation("R16.3", construct(s, text=f"strftime({fmt!r})"), where(s, c), f"Expires is not formatted as an HTTP date ({want!r})")
                else:
                    rep.ok("R16.3", f"Expires formatted from {recv} with {fmt!r}")
    for f_ in s_unit:
        for c in calls_in(f_):
            if ast.unparse(c.func) in ("time.mktime", "mktime") and len(c.args) == 1 and ast.unparse(c.args[0]) in ("self.expires.timetuple()", "self.expires.utctimetuple()"):
                rep.violation("R16.3", construct(s, text=f"{ast.unparse(c)[:50]}"), where(f_, c),
                              f"Cookie.__str__ turns the Expires datetime into a timestamp with `{ast.unparse(c)[:50]}`: mktime reads the (UTC) fields as LOCAL time, so the Expires text is off "
                              "by the process's UTC offset whenever the time zone is not UTC - an expires of N seconds is announced hours early or late, delete_cookie can announce a future date", positive=True)
    if not gmt_fields:
        rep.undecide("R16.3", "no strftime with a GMT literal in Cookie.__str__ (Expires formatting changed)")
    # the link between the two: Cookie.__init__ keeps every argument as it was given (the UTC-aware datetime built by
    # set_cookie is the one __str__ formats; the value/max-age that are serialised are the requested ones)
    ci_init = cookie.methods.get("__init__")
    if ci_init is None:
        raise AnalysisError("Cookie.__init__ vanished")
    rep.analysed(ci_init.fq)
    ipaths, icol, _ = run_paths(p, ci_init, cookie)
    rep.cfg_paths += len(ipaths)
    n_keep = 0
    for prm in ci_init.params[1:]:
        bad = None
        stored = False
        for pa in ipaths:
            if pa.exit != "return":
                continue
            st = [e for e in pa.events if e.kind == "store" and e.a == ("attr", ("param", "self"), prm)]
            if not st:
                continue
            stored = True
            if any(e.b != ("param", prm) for e in st):
                bad = next(e for e in st if e.b != ("param", prm))
        rule = "R16.3" if prm == "expires" else "R16.4"
        if bad is not None:
            node, _fn = icol.nodes[bad.tag]
            extra = " (a UTC-aware Expires datetime converted here - e.g. to naive local time - is then labelled 'GMT' by __str__: wrong by the UTC offset whenever the process time zone is not UTC)" if prm == "expires" else ""
            rep.violation(rule, construct(ci_init, text=f"self.{prm} = {show(bad.b)[:60]}"), where(ci_init, node), f"Cookie.__init__ does not keep the `{prm}` argument as given{extra}")
        elif stored:
            n_keep += 1
            rep.ok(rule, f"Cookie.__init__ keeps `{prm}` as given")
    if n_keep == 0:
        rep.undecide("R16.4", "Cookie.__init__ stores none of its parameters under their own name")
    for recv, fmt, c in gmt_fields:
        if recv != "self.expires":
            rep.violation("R16.3", construct(s, text=f"{recv}.strftime(... GMT)"), where(s, c), "the datetime labelled GMT in __str__ is not the cookie's own expires attribute")
    br = p.cls("baize.responses:BaseResponse")
    sc = br.methods.get("set_cookie")
    dc = br.methods.get("delete_cookie")
    if sc is None or dc is None:
        raise AnalysisError("BaseResponse.set_cookie/delete_cookie vanished")
    rep.analysed(sc.fq, dc.fq)
    paths, col, it = run_paths(p, sc, br)
    rep.cfg_paths += len(paths)
    n_exp = 0
    for pa in paths:
        if pa.exit != "return":
            continue
        ctor = [e for e in pa.events if e.kind == "call" and callee_is(e.a, "Cookie")]
        if not ctor:
            rep.violation("R16.4", construct(sc, text="no Cookie"), where(sc), "set_cookie has a normal path that creates no cookie")
            continue
        kw = dict(ctor[0].c)
        node, f = col.nodes[ctor[0].tag]
        ex = kw.get("expires", ctor[0].b[2] if len(ctor[0].b) > 2 else NONE)
        expires_given = (("cmp", "Is", ("param", "expires"), NONE), False) in pa.facts
        if ex == NONE:
            # build-then-patch: `cookie = Cookie(...)` followed by `cookie.expires = <datetime>` on the path
            late = [e for e in pa.events if e.kind == "store" and e.a[0] == "attr" and e.a[2] == "expires" and e.a[1] != ("param", "self")]
            if late:
                ex = late[-1].b
        if expires_given:
            n_exp += 1
            utc = False
            if ex[0] == "call" and ex[1][0] == "ext":
                name = ex[1][1]
                kws = dict(ex[3])
                tz = kws.get("tz", ex[2][1] if len(ex[2]) > 1 else None)
                if name.endswith("datetime.fromtimestamp") and tz is not None and tz[0] == "ext" and (tz[1] in UTC_NAMES or tz[1].endswith("timezone.utc")):
                    utc = True
                elif name.endswith("datetime.utcfromtimestamp"):
                    utc = True
                if name.endswith(("datetime.fromtimestamp", "datetime.utcfromtimestamp")):
                    arg = ex[2][0] if ex[2] else None
                    tt = arg is not None and arg[0] == "binop" and arg[1] == "Add" and {_k(arg[2]), _k(arg[3])} == {"time.time()", "expires"}
                    if tt:
                        rep.ok("R16.3", "Expires instant = time.time() + expires")
                    else:
                        rep.violation("R16.3", construct(sc, text=f"expires instant {show(arg)}"), where(sc, node), "the Expires instant is not now + the requested seconds")
            if utc:
                rep.ok("R16.3", f"Expires datetime is UTC-aware: {show(ex)}")
            else:
                rep.violation("R16.3", construct(sc, text=f"expires={show(ex)}"), where(sc, node),
                              "the datetime formatted with a literal 'GMT' is a naive local time: Expires is wrong by the UTC offset whenever the process time zone is not UTC")
        else:
            if ex != NONE and ex != ("param", "expires"):
                rep.violation("R16.3", construct(sc, text=f"expires={show(ex)} when not requested"), where(sc, node), "an Expires attribute is emitted although none was requested")
        ma = kw.get("max_age")
        if ma == ("param", "max_age"):
            rep.ok("R16.4", "Cookie(max_age=max_age) unchanged")
        else:
            rep.violation("R16.4", construct(sc, text=f"max_age={show(ma) if ma else None}"), where(sc, node), "Max-Age is not the requested number")
        if len(ctor[0].b) >= 2 and ctor[0].b[0] == ("param", "key") and ctor[0].b[1] == ("param", "value"):
            rep.ok("R16.4", "Cookie(key, value) are the arguments unchanged")
        else:
            rep.violation("R16.4", construct(sc, text="Cookie(name, value)"), where(sc, node), "cookie name/value are not passed unchanged")
    if n_exp == 0:
        rep.undecide("R16.3", "no path of set_cookie with expires given")
    # max-age line of __str__
    ok_ma = False
    for f_ in s_unit:
        for n in ast.walk(f_.node):
            if isinstance(n, (ast.JoinedStr, ast.BinOp, ast.Call)):
                parts_ = ast_text_parts(p, s.module, n)
                if parts_ and len(parts_) == 2 and parts_[0][0] == "const" and isinstance(parts_[0][1], str) and parts_[0][1].lower() == "max-age=" and parts_[1] == ("attr", ("param", "self"), "max_age"):
                    ok_ma = True
    # ... or as an attribute pair ("max-age", <text of self.max_age>) that a generic `name + "=" + text` joiner serialises
    pair_ma = joiner = False
    SELF_MA = ("attr", ("param", "self"), "max_age")
    for f_ in s_unit:
        for n in ast.walk(f_.node):
            if isinstance(n, ast.Tuple) and len(n.elts) == 2 and isinstance(n.elts[0], ast.Constant) and isinstance(n.elts[0].value, str) and n.elts[0].value.lower() == "max-age":
                v_ = n.elts[1]
                if isinstance(v_, ast.Call) and isinstance(v_.func, ast.Name) and v_.func.id == "str" and len(v_.args) == 1:
                    v_ = v_.args[0]
                pv_ = ast_text_parts(p, s.module, v_) if isinstance(v_, (ast.JoinedStr, ast.BinOp, ast.Call)) else None
                if pv_ == [SELF_MA] or pv_ == (SELF_MA,) or (isinstance(v_, ast.Attribute) and ast.unparse(v_) == "self.max_age"):
                    pair_ma = True
            if isinstance(n, (ast.JoinedStr, ast.BinOp)):
                parts_ = ast_text_parts(p, s.module, n)
                if parts_ and len(parts_) == 3 and parts_[1] == ("const", "=") and parts_[0][0] != "const" and parts_[2][0] != "const":
                    joiner = True
    if ok_ma:
        rep.ok("R16.4", "serialised as max-age={self.max_age}")
    elif pair_ma and joiner:
        rep.ok("R16.4", "serialised as the attribute pair ('max-age', self.max_age) joined with '='")
    elif pair_ma:
        rep.undecide("R16.4", "Max-Age is kept as an attribute pair ('max-age', self.max_age) but the code that joins pairs into text is not recognised")
    elif not any(isinstance(c_, ast.Constant) and isinstance(c_.value, str) and "max-age" in c_.value.lower() for c_ in ast.walk(s.node)):
        # the text 'max-age' does not occur in __str__ itself: the attribute is rendered elsewhere (per-attribute methods collected
        # by a decorator, a table of renderers ...)
        rep.undecide("R16.4", "Cookie.__str__ does not render the Max-Age attribute itself (idiom outside the table)")
    else:
        rep.violation("R16.4", construct(s, text="max-age line"), where(s), "Max-Age attribute is not serialised as max-age={self.max_age}")
    # delete_cookie
    okd = False
    for c in calls_in(dc):
        r = p.resolve_call(dc, c, br)
        if r is sc:
            kws = {k.arg: k.value for k in c.keywords}
            e0 = kws.get("expires")
            m0 = kws.get("max_age")
            if isinstance(e0, ast.Constant) and isinstance(m0, ast.Constant) and isinstance(e0.value, int) and e0.value <= 0 and m0.value == 0:
                okd = True
                rep.ok("R16.4", f"delete_cookie -> set_cookie(expires={e0.value}, max_age=0)")
            else:
                rep.violation("R16.4", construct(dc, text=f"set_cookie(expires={ast.unparse(e0) if e0 else None}, max_age={ast.unparse(m0) if m0 else None})"), where(dc, c),
                              "delete_cookie does not emit an already-expired cookie (expires<=0 and max_age=0)")
                okd = True
    if not okd:
        rep.undecide("R16.4", "delete_cookie does not call set_cookie")
    else:
        # ... on EVERY path: a path that returns without emitting the expired cookie (a fast path for a cookie that is only
        # pending on this response, a guard on the name) leaves a cookie the client already holds alive
        try:
            dpaths, _dc, _di = run_paths(p, dc, br, inline=lambda fi: False)
            quiet = [pa for pa in dpaths if pa.exit == "return" and not any(e.kind == "call" and callee_is(e.a, "set_cookie") for e in pa.events)]
            if quiet:
                rep.violation("R16.4", construct(dc, text="a path returns without set_cookie(..., expires=0, max_age=0)"), where(dc),
                              "delete_cookie has a path that returns without emitting the expired cookie ("
                              + ("; ".join(quiet[0].fact_text())[:120] or "unconditionally") + "): the client keeps a cookie it received on an earlier response")
            else:
                rep.ok("R16.4", f"delete_cookie emits the expired cookie on all {len([pa for pa in dpaths if pa.exit == 'return'])} returning path(s)")
        except Exception as e_:
            rep.undecide("R16.4", f"delete_cookie is not analysable ({e_})")
    # ---------------------------------------------------------------- R16.1 the header mapping's constructor (shared rule, sa/props/hdr_common.py)
    from .hdr_common import headers_ctor_passthrough
    for _f in (headers_ctor_passthrough,):
        for kind, fn_, node, cons, msg in _f(p):
            if kind == "ok":
                rep.analysed(fn_.fq)
                rep.ok("R16.1", msg)
            elif kind == "undecided":
                rep.undecide("R16.1", msg)
            else:
                rep.violation("R16.1", construct(fn_, text=cons), where(fn_, node), msg)
    rep.require_instances("R16.3", 4)
    rep.require_instances("R16.4", 13)
    _request_header_values(p, rep)


LATIN1 = ("latin-1", "latin1", "latin_1", "iso-8859-1", "iso8859-1", "l1")


def _request_header_values(p: Program, rep: Report) -> None:
    """R16.5: the Cookie header text the reader parses is the header value the gateway handed over - character for
    character (WSGI: the environ value itself; ASGI: its Latin-1 decoding). A value that is re-spaced, stripped of
    characters or case-folded on the way into the Headers mapping no longer reads back as what was sent."""
    for side in ("wsgi", "asgi"):
        conn = p.cls(f"baize.{side}.requests:HTTPConnection")
        fn = conn.methods.get("headers")
        if fn is None:
            rep.undecide("R16.5", f"{side}: HTTPConnection.headers vanished")
            continue
        rep.analysed(fn.fq)
        try:
            paths, _c, _i = run_paths(p, fn, conn)
        except Exception as e_:
            rep.undecide("R16.5", f"{side}: HTTPConnection.headers is not analysable ({e_})")
            continue
        rep.cfg_paths += len(paths)
        for pa in paths:
            if pa.exit != "return":
                continue
            v = pa.value
            K = construct(fn, text="stored header text")
            vals = None
            if v[0] == "call" and v[1] == ("cls", f"{DS}:Headers") and len(v[2]) == 1:
                a0 = v[2][0]
                if a0[0] == "comp" and a0[2][0] == "tuple" and len(a0[2][1]) == 2:
                    vals = [a0[2][1][1]]
                elif a0[0] == "gen":
                    # a private generator helper that yields the pairs: its yield statements are the elements
                    try:
                        gfn = p.func(a0[1])
                        gpaths, _gc, _gi = run_paths(p, gfn, gfn.cls)
                        rep.analysed(gfn.fq)
                        ys = {e.a for gp in gpaths for e in gp.events if e.kind == "yield"}
                        if ys and all(y[0] == "tuple" and len(y[1]) == 2 for y in ys):
                            vals = [y[1][1] for y in ys]
                    except Exception:
                        vals = None
            if not vals:
                rep.undecide("R16.5", f"{side}: HTTPConnection.headers does not return Headers(<comprehension or generator of (name, value) pairs>): {show(v)[:80]}")
                continue
            for val in vals:
                raw = val
                if side == "asgi" and raw[0] == "call" and raw[1][0] == "attr" and raw[1][2] == "decode" and raw[2][:1] and raw[2][0][0] == "const" and str(raw[2][0][1]).lower() in LATIN1:
                    raw = raw[1][1]
                item_value = raw[0] == "unpack" and raw[2] == 1 and raw[1][0] == "elem"
                if item_value and (side == "wsgi") == (raw is val):
                    rep.ok("R16.5", f"{side}: each header value stored is {show(val)[:70]} - the gateway's value unchanged" + (" (Latin-1 decoded)" if side == "asgi" else ""))
                elif any(isinstance(t, tuple) and len(t) == 3 and t[0] == "unpack" and t[2] == 1 for t in subterms(val)):
                    rep.violation("R16.5", K, where(fn), f"{side}: the header value put into the request's Headers is {show(val)[:90]}, not the value the gateway handed over"
                                  + (" decoded as Latin-1" if side == "asgi" else "") + ": a cookie value is altered before the cookie reader sees it (what was set does not read back)")
                else:
                    rep.undecide("R16.5", f"{side}: header value element of an unrecognised form: {show(val)[:80]}")
    rep.require_instances("R16.5", 2)

    # ------------------------------------------------------------------ R16.6 every cookie set on the response is emitted, in order
    # set_cookie appends to self.cookies; a user agent applies the Set-Cookie lines in order (the later one of a name wins, an expired
    # one deletes). list_headers therefore emits one line per element of self.cookies itself: a filtered or de-duplicated view
    # (keep-first per name) drops the value set last - or the deletion.
    lh = p.cls("baize.responses:BaseResponse").methods.get("list_headers")
    if lh is None:
        rep.undecide("R16.6", "BaseResponse.list_headers vanished")
    else:
        rep.analysed(lh.fq)
        n_ck = 0
        for f_ in with_helpers(p, lh):
            for g in ast.walk(f_.node):
                if not isinstance(g, (ast.GeneratorExp, ast.ListComp)) or not isinstance(g.elt, ast.Tuple) or len(g.elt.elts) != 2:
                    continue
                k0 = g.elt.elts[0]
                if not (isinstance(k0, ast.Constant) and k0.value in ("set-cookie", b"set-cookie")):
                    continue
                gen0 = g.generators[0]
                it_ = gen0.iter
                if ast.unparse(it_) == "self.cookies" and not gen0.ifs and len(g.generators) == 1:
                    n_ck += 1
                    rep.ok("R16.6", f"{f_.fq}: one {k0.value!r} line per element of self.cookies, in order")
                    continue
                why = None
                if gen0.ifs:
                    why = f"filtered by `{ast.unparse(gen0.ifs[0])[:40]}`"
                elif isinstance(it_, ast.Name):
                    from ..common import defs_of
                    ds = defs_of(f_, it_, depth=3)
                    for d_ in ds:
                        if isinstance(d_, ast.Call) and isinstance(d_.func, ast.Attribute) and d_.func.attr == "values":
                            why = f"taken from `{ast.unparse(d_)[:40]}`, a mapping with one cookie per key"
                        elif isinstance(d_, ast.Call) and isinstance(d_.func, ast.Name) and d_.func.id in ("set", "frozenset"):
                            why = f"taken from `{ast.unparse(d_)[:40]}`, an unordered set"
                        elif isinstance(d_, ast.Subscript) and isinstance(d_.slice, ast.Slice) and ast.unparse(d_.value) == "self.cookies":
                            why = f"only the slice `{ast.unparse(d_)[:40]}`"
                elif isinstance(it_, ast.Call) and isinstance(it_.func, ast.Attribute) and it_.func.attr == "values":
                    why = f"taken from `{ast.unparse(it_)[:40]}`, a mapping with one cookie per key"
                if why is not None:
                    n_ck += 1
                    rep.violation("R16.6", construct(f_, text=f"set-cookie lines from {ast.unparse(it_)[:40]}"), where(f_, g),
                                  f"list_headers does not emit one Set-Cookie line per cookie that was set: the cookies are {why} - of two cookies with the same name (set twice; set then "
                                  "delete_cookie) only one reaches the client, so the value set last or the deletion is lost", positive=True)
        if n_ck == 0:
            # other layouts of the same thing: a loop / map() / starred spread over self.cookies itself, in list_headers or a private helper
            direct = filt = 0
            for f_ in with_helpers(p, lh):
                for n in ast.walk(f_.node):
                    if isinstance(n, (ast.For, ast.comprehension)) and ast.unparse(n.iter) == "self.cookies":
                        if isinstance(n, ast.comprehension) and n.ifs:
                            filt += 1
                        else:
                            direct += 1
                    elif isinstance(n, ast.Call) and isinstance(n.func, ast.Name) and n.func.id == "map" and len(n.args) == 2 and ast.unparse(n.args[1]) == "self.cookies":
                        direct += 1
                    elif isinstance(n, ast.Call) and isinstance(n.func, ast.Name) and n.func.id == "filter" and len(n.args) == 2 and ast.unparse(n.args[1]) == "self.cookies":
                        filt += 1
            if direct and not filt:
                n_ck += 1
                rep.ok("R16.6", f"list_headers (with its private helpers) walks self.cookies itself {direct} time(s), unfiltered")
            else:
                rep.undecide("R16.6", "list_headers: no ('set-cookie', ...) comprehension / loop / map over the cookie list itself found (idiom outside the table)")
    rep.require_instances("R16.6", 1)


def _k(v) -> str:
    return show(v)
