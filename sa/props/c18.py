"""C18 - request URLs are reconstructed faithfully and edited component-wise (structural clauses)."""
from __future__ import annotations

import ast
from typing import Dict, List, Optional

from ..collect import Path, callee_is, run_paths
from ..common import construct, where
from ..flow import NONE, Value, contains, show, subterms
from ..fold import Folder, NotConst
from ..loader import AnalysisError, ClassInfo, FuncInfo, Program, walk_shallow
from ..report import Report

DS = "baize.datastructures"


def run(p: Program, rep: Report, tier: str) -> None:
    rep.explanation = (
        "R18.1 one builder for both interfaces: the scope and the environ branch of URL.__init__ both end in the same "
        "_build_url(scheme, path, query_string, server, host_header) call whose arguments are the corresponding gateway "
        "values (root_path+path <-> SCRIPT_NAME+PATH_INFO, query_string <-> QUERY_STRING, host header <-> HTTP_HOST, server <-> "
        "(SERVER_NAME, int(SERVER_PORT))). R18.2 in _build_url the Host header is preferred over the server address, the "
        "default-port table is {http:80, https:443, ws:80, wss:443} and the port is elided only when it equals the entry of "
        "the same scheme, the query is appended only when non-empty. R18.3 on every path of __repr__ where the password is "
        "truthy the text that is formatted comes from replace(password=<constant mask>). R18.4 replace() pops the four netloc "
        "components with the current ones as defaults (hostname via the netloc branch) and writes netloc only inside that "
        "branch. NOT decided: the netloc string surgery for every host shape, the Latin-1/UTF-8 path round trip, the "
        "query-helper value semantics."
    )
    F = Folder(p)
    url = p.cls(f"{DS}:URL")
    init = url.methods.get("__init__")
    build = url.methods.get("_build_url")
    rpr = url.methods.get("__repr__")
    rpl = url.methods.get("replace")
    if None in (init, build, rpr, rpl):
        raise AnalysisError("URL.__init__/_build_url/__repr__/replace vanished")
    rep.analysed(init.fq, build.fq, rpr.fq, rpl.fq)

    # ---------------------------------------------------------------- R18.1
    paths, col, it = run_paths(p, init, url)
    rep.cfg_paths += len(paths)
    seen = {}
    for pa in paths:
        if pa.exit != "return":
            continue
        bs = [e for e in pa.events if e.kind == "call" and callee_is(e.a, "_build_url")]
        which = None
        if (("cmp", "Is", ("param", "scope"), NONE), False) in pa.facts:
            which = "scope"
        elif (("cmp", "Is", ("param", "environ"), NONE), False) in pa.facts:
            which = "environ"
        if which is None:
            if bs:
                rep.violation("R18.1", construct(init, text="_build_url without a gateway mapping"), where(init), "URL.__init__ builds a gateway URL on a path where neither scope nor environ was given")
            continue
        if len(bs) != 1 or len(bs[0].b) != 5:
            rep.violation("R18.1", construct(init, text=f"{which} branch"), where(init), f"the {which} branch of URL.__init__ does not end in exactly one _build_url(scheme, path, query_string, server, host_header) call")
            continue
        sch, pth, qs, srv, host = [show(x) for x in bs[0].b]
        seen[which] = True
        if which == "scope":
            exp = {
                "scheme": sch == "scope.get('scheme', 'http')",
                "path": pth == "(scope.get('root_path', '') + scope['path'])",
                "query": qs == "scope.get('query_string', b'')",
                "server": srv == "scope.get('server', None)",
                "host": "decode('latin-1')" in host or host == "None",
            }
        else:
            exp = {
                "scheme": sch == "environ['wsgi.url_scheme']",
                "path": pth.startswith("(environ.get('SCRIPT_NAME', '') + environ.get('PATH_INFO', ''))"),
                "query": qs.startswith("environ.get('QUERY_STRING', '')"),
                "server": srv == "(environ['SERVER_NAME'], int(environ['SERVER_PORT']))",
                "host": host == "environ.get('HTTP_HOST', None)",
            }
        for k, ok in exp.items():
            if ok:
                rep.ok("R18.1", f"{which}: {k} argument of _build_url is the gateway's {k}")
            else:
                rep.violation("R18.1", construct(init, text=f"{which} branch: {k} = {dict(scheme=sch, path=pth, query=qs, server=srv, host=host)[k][:70]}"), where(init),
                              f"the {which} branch passes a wrong {k} to _build_url ({dict(scheme=sch, path=pth, query=qs, server=srv, host=host)[k][:70]})")
        # the built url is what is stored and split
        st = [e for e in pa.events if e.kind == "store" and e.a == ("attr", ("param", "self"), "_url")]
        built = ("call", bs[0].a, bs[0].b, bs[0].c, bs[0].tag)
        if st and st[0].b == built:
            rep.ok("R18.1", f"{which}: self._url is the built URL")
        else:
            rep.violation("R18.1", construct(init, text=f"{which}: _url"), where(init), f"the {which} branch does not store the URL it built")
    if set(seen) != {"scope", "environ"}:
        rep.undecide("R18.1", f"URL.__init__ branches found: {sorted(seen)}")
    # asgi host header: first b"host" header wins
    src = ast.unparse(init.node)
    if "if key == b'host'" in src and "break" in src:
        rep.ok("R18.1", "scope: the Host header is read from scope['headers'] (b'host')")
    else:
        rep.violation("R18.1", construct(init, text="host header scan"), where(init), "the scope branch does not read the b'host' header")
    rep.require_instances("R18.1", 12)

    # ---------------------------------------------------------------- R18.2
    paths, col, it = run_paths(p, build, url)
    rep.cfg_paths += len(paths)
    HOST = ("param", "host_header")
    for pa in paths:
        if pa.exit != "return":
            continue
        v = show(pa.value)
        host_given = (("cmp", "Is", HOST, NONE), False) in pa.facts
        if host_given:
            if "{host_header}" in v.replace("{host_header}", "{host_header}") and "host_header" in v and "server" not in v:
                rep.ok("R18.2", "Host header given -> URL built from it (server address ignored)")
            else:
                rep.violation("R18.2", construct(build, text=f"host path returns {v[:70]}"), where(build), "with a Host header the URL is not built from that header")
        else:
            if "host_header" in v:
                rep.violation("R18.2", construct(build, text="uses host_header when None"), where(build), "the Host header is used on a path where it is None")
        q_true = (("param", "query_string"), True) in pa.facts
        q_false = (("param", "query_string"), False) in pa.facts
        if q_true and "?" not in v:
            rep.violation("R18.2", construct(build, text="query dropped"), where(build), "a non-empty query string is not appended")
        if q_false and "?" in v:
            rep.violation("R18.2", construct(build, text="empty query appended"), where(build), "'?' is appended although the query string is empty")
        # port elision
        port_facts = [(f, t) for f, t in pa.facts if f[0] == "cmp" and f[1] == "Eq" and "server#1" in show(f) or (f[0] == "cmp" and f[1] == "Is" and "server#1" in show(f))]
        if port_facts and not host_given:
            elided = ":{" not in v.split("://", 1)[-1].split("/")[0] if "://" in v else True
            eq = [t for f, t in port_facts if f[1] == "Eq"]
            isnone = [t for f, t in port_facts if f[1] == "Is"]
            should_elide = (eq and eq[0]) or (isnone and isnone[0])
            if bool(should_elide) != bool(elided):
                rep.violation("R18.2", construct(build, text="port elision"), where(build), "the port is not elided exactly when it equals the scheme's default (or is None)")
            else:
                rep.ok("R18.2", f"port {'elided' if elided else 'kept'} consistently with the default-port test")
    tested_q = any((("param", "query_string"), b) in pa.facts for pa in paths for b in (True, False))
    if tested_q:
        rep.ok("R18.2", "the query string is appended only when non-empty")
    else:
        rep.violation("R18.2", construct(build, text="query not tested"), where(build), "_build_url never tests the query string: '?' is appended (or the query dropped) regardless of whether there is a query")
    tables = [n for n in ast.walk(build.node) if isinstance(n, ast.Subscript) and isinstance(n.value, ast.Dict)]
    if len(tables) == 1:
        try:
            tbl = F.fold(url.module, tables[0].value)
        except NotConst:
            tbl = None
        if tbl == {"http": 80, "https": 443, "ws": 80, "wss": 443}:
            rep.ok("R18.2", "default-port table is {http:80, https:443, ws:80, wss:443}")
        else:
            rep.violation("R18.2", construct(build, text=f"default ports {tbl}"), where(build, tables[0]), f"the default-port table is {tbl}")
        if ast.unparse(tables[0].slice) == "scheme":
            rep.ok("R18.2", "the default port is looked up for the URL's own scheme")
        else:
            rep.violation("R18.2", construct(build, text=f"default port of {ast.unparse(tables[0].slice)}"), where(build, tables[0]), "the default port is not looked up for the URL's own scheme")
    else:
        rep.undecide("R18.2", "default-port table not found")
    order = [ast.unparse(n.test) for n in sorted((n for n in walk_shallow(build.node) if isinstance(n, ast.If)), key=lambda n: n.lineno)]
    if order and order[0] == "host_header is not None":
        rep.ok("R18.2", "the Host header test comes first (preferred over the server address)")
    else:
        rep.violation("R18.2", construct(build, text=f"first test {order[:1]}"), where(build), "the Host header is not tested before the server address")
    rep.require_instances("R18.2", 6)

    # ---------------------------------------------------------------- R18.3
    paths, col, it = run_paths(p, rpr, url)
    rep.cfg_paths += len(paths)
    PW = ("attr", ("param", "self"), "password")
    npw = 0
    for pa in paths:
        if pa.exit != "return":
            continue
        v = pa.value
        if (PW, True) in pa.facts:
            npw += 1
            masked = [t for t in subterms(v) if t[0] == "call" and callee_is(t[1], "replace", "URL.replace") and (t[1][0] == "func" or t[1][1] == ("param", "self")) and dict(t[3]).get("password", ("x",))[0] == "const"]
            raw = [t for t in subterms(v) if t == ("call", ("builtin", "str"), (("param", "self"),), (), t[4] if len(t) > 4 else 0)]
            rawuse = any(t[0] == "call" and t[1] == ("builtin", "str") and t[2] == (("param", "self"),) for t in subterms(v))
            inside_mask = all(any(contains(m, t) for m in masked) for t in subterms(v) if t[0] == "call" and t[1] == ("builtin", "str") and t[2] == (("param", "self"),))
            if masked and (not rawuse or inside_mask):
                mask = dict(masked[0][3])["password"][1]
                rep.ok("R18.3", f"password truthy -> repr formats self.replace(password={mask!r})")
            else:
                rep.violation("R18.3", construct(rpr, text=f"repr with password: {show(v)[:70]}"), where(rpr), "on a path where the URL has a password, repr() formats the unmasked URL")
        elif any(contains(v, x) for x in (("attr", ("param", "self"), "_url"),)):
            pass
    if npw == 0:
        rep.violation("R18.3", construct(rpr, text="password never tested"), where(rpr), "repr() does not test for a password: the password is printed")
    for m in url.methods.values():
        if m.name in ("__repr__", "__str__"):
            continue
    rep.require_instances("R18.3", 1)

    # ---------------------------------------------------------------- R18.4
    src = ast.unparse(rpl.node)
    checks = {
        "port": "kwargs.pop('port', self.port)",
        "username": "kwargs.pop('username', self.username)",
        "password": "kwargs.pop('password', self.password)",
        "hostname": "kwargs.pop('hostname', None)",
    }
    for k, t in checks.items():
        if t in src:
            rep.ok("R18.4", f"replace: {k} defaults to the current component ({t})")
        else:
            rep.violation("R18.4", construct(rpl, text=f"{k} default"), where(rpl), f"replace() does not take the current {k} as the default when {k} is not given")
    # netloc written only inside the netloc branch, and the branch is entered for exactly the four names
    ifs = sorted((n for n in walk_shallow(rpl.node) if isinstance(n, ast.If)), key=lambda n: n.lineno)
    top = ifs[0] if ifs else None
    names = set()
    if top is not None:
        for n in ast.walk(top.test):
            if isinstance(n, ast.Compare) and isinstance(n.left, ast.Constant):
                names.add(n.left.value)
    if names == {"username", "password", "hostname", "port"}:
        rep.ok("R18.4", "the netloc branch is entered exactly for username/password/hostname/port")
    else:
        rep.violation("R18.4", construct(rpl, text=f"netloc branch for {sorted(names)}"), where(rpl), f"the netloc rebuild is triggered by {sorted(names)}, not by exactly username/password/hostname/port")
    stores = [n for n in ast.walk(rpl.node) if isinstance(n, ast.Assign) and ast.unparse(n.targets[0]) == "kwargs['netloc']"]
    if len(stores) == 1 and top is not None and any(stores[0] is x for x in ast.walk(top)) and not any(stores[0] is x for b in top.orelse for x in ast.walk(b)):
        rep.ok("R18.4", "kwargs['netloc'] is written only inside the netloc branch")
    else:
        rep.violation("R18.4", construct(rpl, text="netloc store"), where(rpl), "kwargs['netloc'] is written outside the branch that popped the netloc components (other components are overwritten)")
    if "self.components._replace(**kwargs)" in src and "self.__class__(components.geturl())" in src:
        rep.ok("R18.4", "the remaining components are replaced by SplitResult._replace and the URL is rebuilt from geturl()")
    else:
        rep.violation("R18.4", construct(rpl, text="component replacement"), where(rpl), "replace() does not delegate the remaining components to SplitResult._replace / geturl()")
    if "if username is not None" in src and "if password is not None" in src and src.index("if username is not None") < src.index("if password is not None"):
        rep.ok("R18.4", "a password is only emitted inside the user-name branch (removing the user removes both)")
    else:
        rep.violation("R18.4", construct(rpl, text="userinfo nesting"), where(rpl), "the password is not nested under the user name when netloc is rebuilt")
    # the user-info is everything before the LAST '@' (a password may contain '@'; urlsplit uses rpartition too)
    ats = [c for c in ast.walk(rpl.node) if isinstance(c, ast.Call) and isinstance(c.func, ast.Attribute) and c.func.attr in ("split", "rsplit", "partition", "rpartition") and c.args and isinstance(c.args[0], ast.Constant) and c.args[0].value == "@"]
    if not ats:
        rep.undecide("R18.4", "replace(): no split of the netloc at '@' found")
    for c in ats:
        if c.func.attr == "rpartition" or (c.func.attr == "rsplit" and len(c.args) > 1 and isinstance(c.args[1], ast.Constant) and c.args[1].value == 1):
            rep.ok("R18.4", f"replace(): user-info is split off at the last '@' ({ast.unparse(c)})")
        else:
            rep.violation("R18.4", construct(rpl, text=f"netloc.{c.func.attr}('@', ...)"), where(rpl, c),
                          f"replace() splits the netloc at the FIRST '@' ({ast.unparse(c)}): with a password containing '@' the host is cut wrongly and repr() prints part of the password")
    colons = [c for c in ast.walk(rpl.node) if isinstance(c, ast.Call) and isinstance(c.func, ast.Attribute) and c.func.attr in ("split", "rsplit", "partition", "rpartition") and c.args and isinstance(c.args[0], ast.Constant) and c.args[0].value == ":"]
    for c in colons:
        if c.func.attr in ("rsplit", "rpartition"):
            rep.ok("R18.4", f"replace(): the port is split off at the last ':' ({ast.unparse(c)[:40]})")
        else:
            rep.violation("R18.4", construct(rpl, text=f"hostname.{c.func.attr}(':', ...)"), where(rpl, c), "replace() splits host and port at the first ':'")
    rep.require_instances("R18.4", 8)
