"""C18 - request URLs are reconstructed faithfully and edited component-wise (structural clauses)."""
from __future__ import annotations

import ast
from typing import Dict, List, Optional

from ..collect import Path, callee_is, inline_except, run_paths
from ..common import construct, where
from ..flow import NONE, Value, contains, show, subterms
from ..fold import Folder, NotConst
from ..loader import AnalysisError, ClassInfo, FuncInfo, Program, walk_shallow
from ..report import Report

DS = "baize.datastructures"


def run(p: Program, rep: Report, tier: str) -> None:
    rep.explanation = (
        "R18.1 one builder for both interfaces: the scope and the environ branch of URL.__init__ both end in the same "
        "_build_url(scheme, path, query_string, server, host_header) call whose arguments are the corresponding gateway "
        "values (root_path+path <-> SCRIPT_NAME+PATH_INFO, query_string <-> QUERY_STRING, host header <-> HTTP_HOST, server <-> "
        "(SERVER_NAME, int(SERVER_PORT))). R18.2 in _build_url the Host header is preferred over the server address, the "
        "default-port table is {http:80, https:443, ws:80, wss:443} and the port is elided only when it equals the entry of "
        "the same scheme, the query is appended only when non-empty. R18.3 on every path of __repr__ where the password is "
        "truthy the text that is formatted comes from replace(password=<constant mask>). R18.4 replace() pops the four netloc "
        "components with the current ones as defaults (hostname via the netloc branch) and writes netloc only inside that "
        "branch. NOT decided: the netloc string surgery for every host shape, the Latin-1/UTF-8 path round trip, the "
        "query-helper value semantics."
    )
    F = Folder(p)
    url = p.cls(f"{DS}:URL")
    init = url.methods.get("__init__")
    build = url.methods.get("_build_url")
    rpr = url.methods.get("__repr__")
    rpl = url.methods.get("replace")
    if None in (init, build, rpr, rpl):
        raise AnalysisError("URL.__init__/_build_url/__repr__/replace vanished")
    rep.analysed(init.fq, build.fq, rpr.fq, rpl.fq)

    gateway_url_branches(p, rep, "R18.1")
    # the stored URL is split with urlsplit (urlparse would cut ';params' off the last path segment)
    splitters = [(fn_, c, p.resolve_call(fn_, c)) for fn_ in url.methods.values() for c in ast.walk(fn_.node) if isinstance(c, ast.Call)
                 and isinstance(p.resolve_call(fn_, c), tuple) and p.resolve_call(fn_, c)[0] == "ext" and p.resolve_call(fn_, c)[1] in ("urllib.parse.urlsplit", "urllib.parse.urlparse")]
    if not splitters:
        rep.undecide("R18.1", "URL: no urlsplit()/urlparse() call found")
    for fn_, c, r in splitters:
        if r[1] == "urllib.parse.urlsplit":
            rep.ok("R18.1", f"{fn_.fq}: components = urlsplit(url) (the path keeps its ';' parameters)")
        else:
            rep.violation("R18.1", construct(fn_, text="urlparse(url)"), where(fn_, c), f"{fn_.fq} splits the URL with urlparse(): everything from ';' in the last path segment is moved out of `path`, so the request URL "
                          "does not have the given path and replace(path=...) keeps the old ;params")
    # request.url hands the gateway mapping to the builder as it is: a copy with one of the path keys overridden makes the URL of
    # that interface something other than root path + path (and other than the other interface's URL for the same request)
    PATHK = {"root_path", "path", "SCRIPT_NAME", "PATH_INFO", "query_string", "QUERY_STRING", "scheme", "wsgi.url_scheme", "server", "headers", "HTTP_HOST", "SERVER_NAME", "SERVER_PORT"}
    for side, kw_ in (("wsgi", "environ"), ("asgi", "scope")):
        try:
            conn = p.cls(f"baize.{side}.requests:HTTPConnection")
        except Exception:
            continue
        acc = p.find_method(conn, "url")
        if acc is None:
            continue
        try:
            upaths, _uc, _ui = run_paths(p, acc, conn)
        except Exception:
            continue
        rep.analysed(acc.fq)
        seen_u = set()
        for pa in upaths:
            v = pa.value
            if pa.exit != "return" or v is None or v[0] != "call" or not callee_is(v[1], "URL"):
                continue
            kws = dict(v[3])
            g = kws.get(kw_)
            if g is None:
                continue
            if g[0] == "attr" and g[1] == ("param", "self"):
                if "ok" not in seen_u:
                    seen_u.add("ok")
                    rep.ok("R18.1", f"{side}: request.url builds the URL from the connection's own {kw_} mapping")
            elif g[0] == "dict" and any(k is not None and k[0] == "const" and k[1] in PATHK for k, _v in g[1]):
                over = sorted(k[1] for k, _v in g[1] if k is not None and k[0] == "const" and k[1] in PATHK)
                if tuple(over) not in seen_u:
                    seen_u.add(tuple(over))
                    rep.violation("R18.1", construct(acc, text=f"URL({kw_}=<copy with {over} overridden>)"), where(acc),
                                  f"{side}: request.url builds the URL from a copy of the {kw_} in which {over} is overridden ({show(g)[:80]}): for the requests that take this path the URL is "
                                  "no longer scheme://host + root path + path (+ query) of the request, and differs from the other interface's URL for the same request", positive=True)
    rep.require_instances("R18.1", 15)

    # ---------------------------------------------------------------- R18.2
    # the builder together with the module-level repository functions it delegates to (a builder moved to baize.utils, an
    # authority helper ...) is one unit
    from ..collect import default_inline as _dinl
    _unit_policy = lambda fi: _dinl(fi) or (fi.cls is None and fi.parent is None and fi.module.name in ("baize.utils", "baize.datastructures") and not fi.is_generator())  # noqa: E731
    paths, col, it = run_paths(p, build, url, inline=_unit_policy)
    rep.cfg_paths += len(paths)
    HOST = ("param", "host_header")
    for pa in paths:
        if pa.exit != "return":
            continue
        v = show(pa.value)
        host_given = (("cmp", "Is", HOST, NONE), False) in pa.facts
        if host_given:
            if "{host_header}" in v.replace("{host_header}", "{host_header}") and "host_header" in v and "server" not in v:
                rep.ok("R18.2", "Host header given -> URL built from it (server address ignored)")
            else:
                rep.violation("R18.2", construct(build, text=f"host path returns {v[:70]}"), where(build), "with a Host header the URL is not built from that header")
        else:
            if "host_header" in v:
                rep.violation("R18.2", construct(build, text="uses host_header when None"), where(build), "the Host header is used on a path where it is None")
        q_true = (("param", "query_string"), True) in pa.facts
        q_false = (("param", "query_string"), False) in pa.facts
        if q_true and "?" not in v:
            rep.violation("R18.2", construct(build, text="query dropped"), where(build), "a non-empty query string is not appended")
        if q_false and "?" in v:
            rep.violation("R18.2", construct(build, text="empty query appended"), where(build), "'?' is appended although the query string is empty")
        # port elision
        port_facts = [(f, t) for f, t in pa.facts if f[0] == "cmp" and f[1] == "Eq" and "server#1" in show(f) or (f[0] == "cmp" and f[1] == "Is" and "server#1" in show(f))]
        if port_facts and not host_given:
            elided = ":{" not in v.split("://", 1)[-1].split("/")[0] if "://" in v else True
            eq = [t for f, t in port_facts if f[1] == "Eq"]
            isnone = [t for f, t in port_facts if f[1] == "Is"]
            should_elide = (eq and eq[0]) or (isnone and isnone[0])
            if bool(should_elide) != bool(elided):
                rep.violation("R18.2", construct(build, text="port elision"), where(build), "the port is not elided exactly when it equals the scheme's default (or is None)")
            else:
                rep.ok("R18.2", f"port {'elided' if elided else 'kept'} consistently with the default-port test")
    tested_q = any((("param", "query_string"), b) in pa.facts for pa in paths for b in (True, False))
    if tested_q:
        rep.ok("R18.2", "the query string is appended only when non-empty")
    else:
        rep.violation("R18.2", construct(build, text="query not tested"), where(build), "_build_url never tests the query string: '?' is appended (or the query dropped) regardless of whether there is a query")
    from ..common import with_helpers as _wh
    b_unit = _wh(p, build, depth=3, policy=_unit_policy)
    for f_u in b_unit[1:]:
        rep.analysed(f_u.fq)

    def _table_expr(n: ast.Subscript, mod_=None):
        """the dict (literal or comprehension) that is indexed: written in place or held by a module-level constant"""
        mod_ = mod_ or url.module
        if isinstance(n.value, (ast.Dict, ast.DictComp)):
            return n.value
        if isinstance(n.value, ast.Name) and isinstance(mod_.constants.get(n.value.id), (ast.Dict, ast.DictComp)):
            return mod_.constants[n.value.id]
        return None

    tables, table_mod = [], url.module
    for f_u in b_unit:
        for n in ast.walk(f_u.node):
            if isinstance(n, ast.Subscript) and _table_expr(n, f_u.module) is not None:
                tables.append(n)
                table_mod = f_u.module
    if len(tables) == 1:
        try:
            tbl = F.fold(table_mod, _table_expr(tables[0], table_mod))
        except NotConst:
            tbl = None
        if tbl == {"http": 80, "https": 443, "ws": 80, "wss": 443}:
            rep.ok("R18.2", "default-port table is {http:80, https:443, ws:80, wss:443}")
        elif tbl is None:
            rep.undecide("R18.2", f"the default-port table {ast.unparse(_table_expr(tables[0], table_mod))[:60]} is not a foldable constant")
        else:
            rep.violation("R18.2", construct(build, text=f"default ports {tbl}"), where(build, tables[0]), f"the default-port table is {tbl}")
        if ast.unparse(tables[0].slice) == "scheme" or (isinstance(tables[0].slice, ast.Attribute) and tables[0].slice.attr == "scheme" and isinstance(tables[0].slice.value, ast.Name)):
            rep.ok("R18.2", "the default port is looked up for the URL's own scheme")
        else:
            rep.violation("R18.2", construct(build, text=f"default port of {ast.unparse(tables[0].slice)}"), where(build, tables[0]), "the default port is not looked up for the URL's own scheme")
    else:
        # no table: the default port may be COMPUTED from the scheme (`443 if scheme.endswith("s") else 80`, a chain of
        # comparisons ...): the expression is evaluated for the four schemes a gateway can hand over
        cands = []
        for f_u in b_unit:
            for n in ast.walk(f_u.node):
                if isinstance(n, ast.Assign) and len(n.targets) == 1 and isinstance(n.targets[0], ast.Name) and "port" in n.targets[0].id.lower() \
                        and any(isinstance(x, ast.Name) and x.id == "scheme" for x in ast.walk(n.value)) and not isinstance(n.value, ast.Subscript):
                    cands.append((f_u, n, n.value))
        if len(cands) == 1:
            f_u, n, e_ = cands[0]
            got = {}
            try:
                for sc_ in ("http", "https", "ws", "wss"):
                    got[sc_] = F.fold(f_u.module, e_, {"scheme": sc_})
            except NotConst as ex_:
                got = None
                rep.undecide("R18.2", f"the default port is computed by `{ast.unparse(e_)[:60]}`, which is not evaluable for the known schemes ({ex_})")
            if got is not None:
                if got == {"http": 80, "https": 443, "ws": 80, "wss": 443}:
                    rep.ok("R18.2", f"the computed default port `{ast.unparse(e_)[:50]}` is 80/443/80/443 for http/https/ws/wss")
                else:
                    bad_ = {k: v for k, v in got.items() if v != {"http": 80, "https": 443, "ws": 80, "wss": 443}[k]}
                    rep.violation("R18.2", construct(build, text=f"default ports {got}"), where(f_u, n),
                                  f"the default port computed by `{ast.unparse(e_)[:50]}` is wrong for {bad_}: a URL of that scheme on its real default port keeps the port (and loses it on the other one)")
        else:
            rep.undecide("R18.2", "default-port table not found")
    # precedence of the Host header over the server address, as a statement about paths (not about which `if` is written first):
    # every returning path on which the header is known present builds the URL from it and not from the server pair
    host_paths = [pa for pa in paths if pa.exit == "return" and (("cmp", "Is", HOST, NONE), False) in pa.facts]
    host_bad = [pa for pa in host_paths if "server" in show(pa.value) or "host_header" not in show(pa.value)]
    # ... and a path that does NOT use the header has established that there is none
    host_bad += [pa for pa in paths if pa.exit == "return" and "host_header" not in show(pa.value) and (("cmp", "Is", HOST, NONE), True) not in pa.facts]
    if host_paths and not host_bad:
        rep.ok("R18.2", f"the Host header is preferred over the server address on all {len(host_paths)} paths that have one")
    elif not host_paths:
        rep.undecide("R18.2", "no path of the URL builder tests `host_header is None`: precedence of the Host header not recognised")
    else:
        rep.violation("R18.2", construct(build, text="server address used although a Host header is present"), where(build), "the Host header is not preferred over the server address: "
                      + (f"a path returns {show(host_bad[0].value)[:60]} without having established that there is no Host header ({'; '.join(host_bad[0].fact_text())[:100]})"))
    rep.require_instances("R18.2", 6)

    # ---------------------------------------------------------------- R18.3
    paths, col, it = run_paths(p, rpr, url)
    rep.cfg_paths += len(paths)
    PW = ("attr", ("param", "self"), "password")
    npw = 0
    for pa in paths:
        if pa.exit != "return":
            continue
        v = pa.value
        if (PW, True) in pa.facts:
            npw += 1
            masked = [t for t in subterms(v) if t[0] == "call" and callee_is(t[1], "replace", "URL.replace") and (t[1][0] == "func" or t[1][1] == ("param", "self")) and dict(t[3]).get("password", ("x",))[0] == "const"]
            raw = [t for t in subterms(v) if t == ("call", ("builtin", "str"), (("param", "self"),), (), t[4] if len(t) > 4 else 0)]
            rawuse = any(t[0] == "call" and t[1] == ("builtin", "str") and t[2] == (("param", "self"),) for t in subterms(v))
            inside_mask = all(any(contains(m, t) for m in masked) for t in subterms(v) if t[0] == "call" and t[1] == ("builtin", "str") and t[2] == (("param", "self"),))
            if masked and (not rawuse or inside_mask):
                mask = dict(masked[0][3])["password"][1]
                rep.ok("R18.3", f"password truthy -> repr formats self.replace(password={mask!r})")
            else:
                rep.violation("R18.3", construct(rpr, text=f"repr with password: {show(v)[:70]}"), where(rpr), "on a path where the URL has a password, repr() formats the unmasked URL")
        elif any(contains(v, x) for x in (("attr", ("param", "self"), "_url"),)):
            pass
    if npw == 0:
        rep.violation("R18.3", construct(rpr, text="password never tested"), where(rpr), "repr() does not test for a password: the password is printed")
    for m in url.methods.values():
        if m.name in ("__repr__", "__str__"):
            continue
    rep.require_instances("R18.3", 1)

    # ---------------------------------------------------------------- R18.4
    kw = rpl.node.args.kwarg.arg if rpl.node.args.kwarg else None
    if kw is None:
        raise AnalysisError("URL.replace no longer takes **kwargs")
    KW = ("param", kw)
    SELF = ("param", "self")
    NAMES = ("username", "password", "hostname", "port")

    def popped(v: Value) -> Optional[str]:
        if v[0] == "call" and v[1] == ("attr", KW, "pop") and v[2] and v[2][0][0] == "const" and v[2][0][1] in NAMES:
            return v[2][0][1]
        return None

    def flatten(v: Value) -> List:
        if v[0] == "const" and isinstance(v[1], str):
            return [v[1]]
        if v[0] == "fstr":
            out: List = []
            for part in v[1]:
                out += flatten(part)
            return out
        if v[0] == "binop" and v[1] == "Add":
            return flatten(v[2]) + flatten(v[3])
        if v[0] == "fmt" and v[2] in ("", "s") and v[3] == "":
            return flatten(v[1])
        return [v]

    def merge(seq: List) -> List:
        out: List = []
        for x in seq:
            if isinstance(x, str) and out and isinstance(out[-1], str):
                out[-1] += x
            elif x != "":
                out.append(x)
        return out

    def none_fact(pa: Path, name: str) -> Optional[bool]:
        for f, t in pa.facts:
            if f[0] == "cmp" and f[1] in ("Is", "IsNot") and f[3] == NONE and popped(f[2]) == name:
                return t if f[1] == "Is" else not t
        return None

    def current_host(t: Value, pa: Path) -> Optional[str]:
        """the host cut out of the current netloc TEXT: everything after the last '@', the port removed unless the text ends in ']'"""
        def after_at(x: Value) -> bool:
            if x[0] == "unpack" and x[2] == 2 and x[1][0] == "call" and x[1][1] == ("attr", ("attr", SELF, "netloc"), "rpartition") and x[1][2] == (("const", "@"),):
                return True
            if x[0] == "sub" and x[2] in (("const", 2), ("const", -1)) and x[1][0] == "call" and x[1][1][0] == "attr" and x[1][1][1] == ("attr", SELF, "netloc") \
                    and ((x[1][1][2] == "rpartition" and x[1][2] == (("const", "@"),)) or (x[1][1][2] == "rsplit" and x[1][2] == (("const", "@"), ("const", 1)) and x[2] == ("const", -1))):
                return True
            return False
        if after_at(t):
            br = [tt for f, tt in pa.facts if f[0] == "cmp" and f[1] in ("Eq", "NotEq") and f[3] == ("const", "]") and f[2][0] == "sub" and f[2][1] == t and f[2][2] == ("const", -1)]
            br2 = [tt for f, tt in pa.facts if f[0] == "call" and f[1] == ("attr", t, "endswith") and f[2] == (("const", "]"),)]
            ends = None
            for f, tt in pa.facts:
                if f[0] == "cmp" and f[3] == ("const", "]") and f[2][0] == "sub" and f[2][1] == t and f[2][2] == ("const", -1):
                    ends = tt if f[1] == "Eq" else (not tt if f[1] == "NotEq" else None)
                if f[0] == "call" and f[1] == ("attr", t, "endswith") and f[2] == (("const", "]"),):
                    ends = tt
            return "whole" if ends is True else "whole-unguarded"
        if t[0] == "sub" and t[2] == ("const", 0) and t[1][0] == "call" and t[1][1][0] == "attr" and t[1][1][2] == "rsplit" and t[1][2] == (("const", ":"), ("const", 1)) and after_at(t[1][1][1]):
            base = t[1][1][1]
            for f, tt in pa.facts:
                if f[0] == "cmp" and f[3] == ("const", "]") and f[2][0] == "sub" and f[2][1] == base and f[2][2] == ("const", -1):
                    if (f[1] == "Eq" and tt is False) or (f[1] == "NotEq" and tt is True):
                        return "port-cut"
                if f[0] == "call" and f[1] == ("attr", base, "endswith") and f[2] == (("const", "]"),) and tt is False:
                    return "port-cut"
            return "port-cut-unguarded"
        return None

    paths, col, it = run_paths(p, rpl, url)
    rep.cfg_paths += len(paths)
    n_netloc = 0
    shapes = set()
    # the rule reads the trigger of the netloc branch off the membership facts `'<component>' in kwargs`; a trigger written
    # another way (any(f in kwargs for f in FIELDS), a table of component names ...) leaves no such fact on any path: not decided
    trigger_seen = any(f[0] == "cmp" and f[1] == "In" and f[3] == KW and f[2][0] == "const" and f[2][1] in NAMES for pa in paths for f, _t in pa.facts)
    if not trigger_seen:
        rep.undecide("R18.4", "replace(): no path tests `'username'|'password'|'hostname'|'port' in kwargs` directly: how the netloc branch is triggered is not recognised")
        shapes.add("nodeleg")  # suppress the verdicts that depend on the trigger
        paths = []
    for pa in paths:
        if pa.exit != "return":
            continue
        stores = [e for e in pa.events if e.kind == "store" and e.a[0] == "sub" and e.a[1] == KW]
        member = {n: None for n in NAMES}
        for f, t in pa.facts:
            if f[0] == "cmp" and f[1] == "In" and f[3] == KW and f[2][0] == "const" and f[2][1] in NAMES:
                member[f[2][1]] = t
        entered = any(v is True for v in member.values())
        # delegation of everything else
        v = pa.value
        deleg = v[0] == "call" and v[1] in (("attr", SELF, "__class__"), ("cls", url.fq)) and len(v[2]) == 1 and v[2][0][0] == "call" and v[2][0][1][0] == "attr" and v[2][0][1][2] == "geturl" \
            and v[2][0][1][1][0] == "call" and v[2][0][1][1][1] == ("attr", ("attr", SELF, "components"), "_replace")
        if not deleg:
            shapes.add("nodeleg")
            rep.violation("R18.4", construct(rpl, text="component replacement"), where(rpl), "replace() does not delegate the remaining components to SplitResult._replace / geturl()")
            continue
        if not entered:
            if stores:
                rep.violation("R18.4", construct(rpl, text="netloc store"), where(rpl), "kwargs['netloc'] is written outside the branch that popped the netloc components (other components are overwritten)", path_facts=pa.fact_text()[:6])
            elif all(vv is False for vv in member.values()):
                shapes.add("untouched")
            else:
                rep.violation("R18.4", construct(rpl, text=f"netloc branch for {sorted(k for k, vv in member.items() if vv is not None)}"), where(rpl),
                              f"the netloc rebuild is not triggered by exactly username/password/hostname/port (tested on this path: {sorted(k for k, vv in member.items() if vv is not None)})")
            continue
        nl = [e for e in stores if e.a[2] == ("const", "netloc")]
        if len(nl) != 1 or len(stores) != 1:
            rep.violation("R18.4", construct(rpl, text="netloc store"), where(rpl), "a path that received a netloc component does not write kwargs['netloc'] exactly once", path_facts=pa.fact_text()[:6])
            continue
        n_netloc += 1
        V = nl[0].b
        seq = merge(flatten(V))
        un, pn, hn, tn = (none_fact(pa, k) for k in NAMES)
        terms = {popped(x): x for x in seq if not isinstance(x, str) and popped(x)}
        # defaults of the popped components
        for x in [t for t in subterms(V) if popped(t)] + [f[2] for f, t in pa.facts if f[0] == "cmp" and len(f) > 3 and f[3] == NONE and isinstance(f[2], tuple) and popped(f[2])]:
            k = popped(x)
            want = NONE if k == "hostname" else ("attr", SELF, k)
            if len(x[2]) != 2 or x[2][1] != want:
                rep.violation("R18.4", construct(rpl, text=f"{k} default"), where(rpl), f"replace() does not take the current {k} as the default when {k} is not given")
                shapes.add("bad-default")
        emitted_pw = any(popped(t) == "password" for t in subterms(V))
        if un is None and emitted_pw:
            rep.violation("R18.4", construct(rpl, text="userinfo nesting"), where(rpl), "replace(): a password is written into the netloc on a path where the user name was not tested for None: the password is not nested under "
                          "the user name (removing the user must remove both)", path_facts=pa.fact_text()[:8])
            shapes.add("bad")
            continue
        if None in (un, hn, tn) or (un is False and pn is None):
            rep.undecide("R18.4", f"replace(): a netloc path does not test username/hostname/port for None ({pa.fact_text()[:4]})")
            continue
        exp: List = []
        if not un:
            exp.append(("T", "username"))
            if not pn:
                exp += [":", ("T", "password")]
            exp.append("@")
        exp.append(("H",))
        if not tn:
            exp += [":", ("T", "port")]
        exp = merge(exp)
        ok = len(seq) == len(exp)
        why = ""
        hostkind = None
        if ok:
            for got, want in zip(seq, exp):
                if isinstance(want, str):
                    ok = ok and got == want
                elif want[0] == "T":
                    ok = ok and not isinstance(got, str) and popped(got) == want[1]
                else:
                    if isinstance(got, str):
                        ok = False
                    elif hn is False:
                        ok = ok and popped(got) == "hostname"
                    else:
                        hostkind = current_host(got, pa)
                        if hostkind is None:
                            ok = False
                            why = f"the unchanged host is {show(got)[:60]}, not the host text cut out of self.netloc"
                        elif hostkind.endswith("unguarded"):
                            ok = False
                            why = "the port is cut off (or kept) without testing whether the host text ends in ']'"
        if ok:
            shapes.add("ok")
        else:
            text = "".join(x if isinstance(x, str) else "{" + (popped(x) or "host") + "}" for x in seq)
            if not why:
                want_t = "".join(x if isinstance(x, str) else "{" + (x[1] if x[0] == "T" else "host") + "}" for x in exp)
                why = f"netloc is assembled as {text!r} where {want_t!r} is required (username None={un}, password None={pn}, port None={tn})"
                if un and not pn and "password" in terms:
                    why = "a password is emitted although the user name is None (removing the user must remove both)"
            elif hn is True and hostkind is None and any(not isinstance(x, str) and any(tt == ("attr", SELF, "hostname") or tt == ("attr", ("attr", SELF, "components"), "hostname") for tt in subterms(x)) for x in seq):
                why += " - SplitResult.hostname lower-cases the host and drops the IPv6 brackets, so replacing the port/user of 'http://EXAMPLE.com' changes the host"
            rep.violation("R18.4", construct(rpl, text=f"netloc template {text[:80]}"), where(rpl), f"replace(): {why}", path_facts=pa.fact_text()[:8])
            shapes.add("bad")
    if "ok" in shapes and "bad" not in shapes and "bad-default" not in shapes:
        rep.ok("R18.4", f"replace(): on all {n_netloc} netloc paths the text is [user[:password]@]host[:port] with the popped components (current ones as defaults), the password nested under the user name")
        rep.ok("R18.4", "replace(): an unchanged host is cut verbatim out of the current netloc text (after the last '@', port removed unless it ends in ']')")
        rep.ok("R18.4", "replace(): kwargs['netloc'] is written only on paths that received username/password/hostname/port")
        rep.ok("R18.4", "replace(): the remaining components are replaced by SplitResult._replace and the URL is rebuilt from geturl()")
    if "untouched" in shapes:
        rep.ok("R18.4", "replace(): without a netloc component nothing but the given components changes")
    elif "nodeleg" not in shapes:
        rep.violation("R18.4", construct(rpl, text="netloc always rebuilt"), where(rpl), "replace() has no path that leaves the netloc alone when no netloc component is given")
    if n_netloc < 30:
        rep.undecide("R18.4", f"replace(): only {n_netloc} netloc paths explored (72 on the pinned tree)")
    # the user-info is everything before the LAST '@' (a password may contain '@'; urlsplit uses rpartition too)
    ats = [c for c in ast.walk(rpl.node) if isinstance(c, ast.Call) and isinstance(c.func, ast.Attribute) and c.func.attr in ("split", "rsplit", "partition", "rpartition") and c.args and isinstance(c.args[0], ast.Constant) and c.args[0].value == "@"]
    for c in ats:
        if c.func.attr == "rpartition" or (c.func.attr == "rsplit" and len(c.args) > 1 and isinstance(c.args[1], ast.Constant) and c.args[1].value == 1):
            rep.ok("R18.4", f"replace(): user-info is split off at the last '@' ({c.func.attr})")
        else:
            rep.violation("R18.4", construct(rpl, text=f"netloc.{c.func.attr}('@', ...)"), where(rpl, c),
                          f"replace() splits the netloc at the FIRST '@' (.{c.func.attr}('@', ...)): with a password containing '@' the host is cut wrongly and repr() prints part of the password")
    colons = [c for c in ast.walk(rpl.node) if isinstance(c, ast.Call) and isinstance(c.func, ast.Attribute) and c.func.attr in ("split", "rsplit", "partition", "rpartition") and c.args and isinstance(c.args[0], ast.Constant) and c.args[0].value == ":"]
    for c in colons:
        if c.func.attr in ("rsplit", "rpartition"):
            rep.ok("R18.4", f"replace(): the port is split off at the last ':' (.{c.func.attr})")
        else:
            rep.violation("R18.4", construct(rpl, text=f"hostname.{c.func.attr}(':', ...)"), where(rpl, c), "replace() splits host and port at the first ':'")
    rep.require_instances("R18.4", 7)

    # ---------------------------------------------------------------- R18.5 the query helpers rest on the multi-value mapping
    from ..common import stale_index_deletes
    iq = url.methods.get("include_query_params")
    if iq is None:
        raise AnalysisError("URL.include_query_params vanished")
    rep.analysed(iq.fq)
    from ..common import with_helpers as _wh185
    mm = []
    for f_ in _wh185(p, iq):  # (a decorated helper's own body is a private helper of it)
        for c in ast.walk(f_.node):
            if isinstance(c, ast.Call):
                try:
                    r_ = p.resolve_call(f_, c, url)
                except Exception:
                    r_ = None
                if isinstance(r_, ClassInfo):
                    mm.append(r_)
    mm = [c for c in mm if any(getattr(b, "name", "") in ("MultiMapping", "MutableMultiMapping") for b in p.mro(c))]
    if not mm:
        rep.undecide("R18.5", "include_query_params no longer edits a multi-value mapping of the parsed query")
    for c in mm[:1]:
        n5 = 0
        for mname in ("__setitem__", "__delitem__"):
            m = p.find_method(c, mname)
            if m is None:
                continue
            rep.analysed(m.fq)
            for node, desc, okk in stale_index_deletes(m, p):
                n5 += 1
                if okk:
                    rep.ok("R18.5", f"set semantics of the query helper: {c.name}.{mname}: {desc}")
                else:
                    rep.violation("R18.5", construct(m, text="delete by stale position"), where(m, node),
                                  f"include_query_params sets a key through {c.name}.{mname}, where {desc}: for a query in which the key occurs three or more times a pair of another key is "
                                  "removed (or IndexError is raised) instead of 'set'")
            # ... nor remove the other occurrences as one contiguous slice (the pairs of a key need not be adjacent: page=3&order=name&page=4)
            from ..common import with_helpers as _wh18
            for f_ in _wh18(p, m):
                for n in ast.walk(f_.node):
                    if isinstance(n, ast.Delete) and any(isinstance(t, ast.Subscript) and isinstance(t.slice, ast.Slice) and (t.slice.lower is not None or t.slice.upper is not None)
                                                         and ast.unparse(t.value).endswith("_list") for t in n.targets):
                        n5 += 1
                        rep.violation("R18.5", construct(m, text="pairs removed as a contiguous slice"), where(f_, n),
                                      f"include_query_params sets a key through {c.name}.{mname}, which removes the other occurrences as one contiguous slice (`{' '.join(ast.unparse(n).split())[:60]}`): "
                                      "in ?page=3&order=name&page=4 the unrelated parameter is removed and a stale page=4 stays - not 'set, everything else unchanged'")
        if n5 == 0:
            rep.ok("R18.5", f"set semantics of the query helper: {c.name} item assignment/deletion does not delete by position inside a loop")
    rep.require_instances("R18.5", 1)

    # ---------------------------------------------------------------- R18.6 what the three query helpers are given to work on
    # "act as set, replace and remove on the multi-value query": include / remove edit the pairs of the URL's OWN query, parsed
    # with blank values kept, and write back all pairs of the edited mapping; replace builds the query from its arguments alone.
    from ..collect import default_inline
    SELF_Q = ("attr", ("param", "self"), "query")
    for hname in ("include_query_params", "remove_query_params", "replace_query_params"):
        h = url.methods.get(hname)
        if h is None:
            raise AnalysisError(f"URL.{hname} vanished")
        rep.analysed(h.fq)
        hpaths, _hc, _hi = run_paths(p, h, url, inline=default_inline, depth=3)
        rep.cfg_paths += len(hpaths)
        for pa in hpaths:
            if pa.exit != "return":
                continue
            v = pa.value
            q = dict(v[3]).get("query") if (isinstance(v, tuple) and v[0] == "call" and callee_is(v[1], "replace") and not v[2]) else None
            if q is None or not (q[0] == "call" and q[1] == ("ext", "urllib.parse.urlencode") and len(q[2]) == 1):
                rep.undecide("R18.6", f"{hname}: the result is not self.replace(query=urlencode(<pairs>)): {show(v)[:80]}")
                continue
            pairs = q[2][0]
            parses = [t for t in subterms(pairs) if t[0] == "call" and t[1] == ("ext", "urllib.parse.parse_qsl")]
            if hname == "replace_query_params":
                if contains(pairs, SELF_Q):
                    rep.violation("R18.6", construct(h, text="replace_query_params reads the old query"), where(h), "replace_query_params builds the new query from the old one: 'replace' keeps parameters it was not given")
                elif contains(pairs, ("param", h.node.args.kwarg.arg if h.node.args.kwarg else "kwargs")):
                    rep.ok("R18.6", "replace_query_params: the new query is built from the arguments alone")
                else:
                    rep.undecide("R18.6", f"replace_query_params: pairs not recognised: {show(pairs)[:80]}")
                continue
            good = [t for t in parses if t[2][:1] == (SELF_Q,)]
            if not good:
                if parses or not contains(pairs, SELF_Q):
                    rep.violation("R18.6", construct(h, text=f"{hname} does not start from self.query"), where(h),
                                  f"{hname} does not edit the pairs of the URL's own query (parse_qsl(self.query, ...)): parameters the call does not name are lost or come from elsewhere")
                else:
                    rep.undecide("R18.6", f"{hname}: the own query is parsed in an idiom outside the table: {show(pairs)[:80]}")
                continue
            kb = dict(good[0][3]).get("keep_blank_values") if len(good[0][2]) == 1 else (good[0][2][1] if len(good[0][2]) > 1 else None)
            if kb != ("const", True):
                rep.violation("R18.6", construct(h, text=f"{hname} parses without keep_blank_values"), where(h),
                              f"{hname} parses the own query without keep_blank_values=True: a parameter with an empty value (?a=&b=1) that the call does not name disappears from the result")
                continue
            whole = pairs[0] == "call" and pairs[1][0] == "attr" and pairs[1][2] == "multi_items" and not pairs[2] and pairs[1][1][0] == "call" and pairs[1][1][1][0] == "cls"
            if not whole:
                rep.undecide("R18.6", f"{hname}: the pairs written back are not <mapping>.multi_items(): {show(pairs)[:80]}")
                continue
            rep.ok("R18.6", f"{hname}: edits MultiMapping(parse_qsl(self.query, keep_blank_values=True)) and writes back all its multi_items()")
    rep.require_instances("R18.6", 3)


def _wsgi_query(qs: str):
    """PEP 3333 hands QUERY_STRING over as a native string holding the request's bytes as Latin-1 code points; the URL text (like the
    path next to it, and like the ASGI side's bytes.decode()) is those bytes read as UTF-8. True: the argument is
    QUERY_STRING.encode('latin-1') (bytes, decoded by _build_url) or that followed by .decode('utf-8'); False: the native string itself
    (raw non-ASCII query bytes come out as mojibake and differ from the ASGI URL) or another value; None: another transcoding."""
    import re as _re
    base = "environ.get('QUERY_STRING', '')"
    if not qs.startswith(base):
        return False
    rest = qs[len(base):]
    if rest == "":
        return False
    if _re.fullmatch(r"\.encode\('(latin-?1|iso-?8859-?1)'\)(\.decode\((|'utf-?8')\))?", rest, _re.I):
        return True
    return None


def gateway_url_branches(p: Program, rep: Report, rule: str) -> None:
    """The scope branch and the environ branch of URL.__init__ hand the corresponding gateway values to one builder
    (C18 R18.1; reused by C04 for 'the same request gives the same URL on both interfaces')."""
    url = p.cls(f"{DS}:URL")
    init = url.methods.get("__init__")
    if init is None:
        raise AnalysisError("URL.__init__ vanished")
    rep.analysed(init.fq)
    # ---------------------------------------------------------------- R18.1
    paths, col, it = run_paths(p, init, url, inline=inline_except("_build_url"))
    rep.cfg_paths += len(paths)
    seen = {}
    if not any(e.kind == "call" and callee_is(e.a, "_build_url") for pa in paths for e in pa.events):
        # no gateway branch of __init__ reaches the builder by that name (it was replaced by another construction - a value
        # object with alternative constructors ...): the hand-off clauses are not decided, rather than reported missing
        rep.undecide(rule, "URL.__init__: no path calls _build_url(...): how the gateway values reach the URL text is not recognised")
        return
    for pa in paths:
        if pa.exit != "return":
            continue
        bs = [e for e in pa.events if e.kind == "call" and callee_is(e.a, "_build_url")]
        which = None
        if (("cmp", "Is", ("param", "scope"), NONE), False) in pa.facts:
            which = "scope"
        elif (("cmp", "Is", ("param", "environ"), NONE), False) in pa.facts:
            which = "environ"
        if which is None:
            if bs:
                rep.violation(rule, construct(init, text="_build_url without a gateway mapping"), where(init), "URL.__init__ builds a gateway URL on a path where neither scope nor environ was given")
            continue
        if len(bs) != 1 or len(bs[0].b) != 5:
            rep.violation(rule, construct(init, text=f"{which} branch"), where(init), f"the {which} branch of URL.__init__ does not end in exactly one _build_url(scheme, path, query_string, server, host_header) call")
            continue
        sch, pth, qs, srv, host = [show(x) for x in bs[0].b]
        seen[which] = True
        if which == "scope":
            exp = {
                "scheme": sch == "scope.get('scheme', 'http')",
                "path": pth == "(scope.get('root_path', '') + scope['path'])",
                "query": qs == "scope.get('query_string', b'')",
                "server": srv == "scope.get('server', None)",
                "host": "decode('latin-1')" in host or host == "None",
            }
        else:
            exp = {
                "scheme": sch == "environ['wsgi.url_scheme']",
                "path": pth.startswith("(environ.get('SCRIPT_NAME', '') + environ.get('PATH_INFO', ''))"),
                "query": _wsgi_query(qs),
                "server": srv == "(environ['SERVER_NAME'], int(environ['SERVER_PORT']))",
                "host": host == "environ.get('HTTP_HOST', None)",
            }
        for k, ok in exp.items():
            if ok is None:
                rep.undecide(rule, f"{which}: the {k} argument of _build_url is {dict(scheme=sch, path=pth, query=qs, server=srv, host=host)[k][:80]}: how the gateway's native string is transcoded is not recognised")
            elif ok:
                rep.ok(rule, f"{which}: {k} argument of _build_url is the gateway's {k}")
            else:
                rep.violation(rule, construct(init, text=f"{which} branch: {k} = {dict(scheme=sch, path=pth, query=qs, server=srv, host=host)[k][:70]}"), where(init),
                              f"the {which} branch passes a wrong {k} to _build_url ({dict(scheme=sch, path=pth, query=qs, server=srv, host=host)[k][:70]})")
        # the built url is what is stored and split
        st = [e for e in pa.events if e.kind == "store" and e.a == ("attr", ("param", "self"), "_url")]
        built = ("call", bs[0].a, bs[0].b, bs[0].c, bs[0].tag)
        if st and st[0].b == built:
            rep.ok(rule, f"{which}: self._url is the built URL")
        else:
            rep.violation(rule, construct(init, text=f"{which}: _url"), where(init), f"the {which} branch does not store the URL it built")
    if set(seen) != {"scope", "environ"}:
        rep.undecide(rule, f"URL.__init__ branches found: {sorted(seen)}")
    # asgi host header: the value of the first pair of scope['headers'] whose name equals b"host", decoded as Latin-1
    HDRS = ("elem", ("sub", ("param", "scope"), ("const", "headers")))
    host_ok = host_bad = False
    for pa in paths:
        if pa.exit != "return" or (("cmp", "Is", ("param", "scope"), NONE), False) not in pa.facts:
            continue
        bs = [e for e in pa.events if e.kind == "call" and callee_is(e.a, "_build_url")]
        if len(bs) != 1 or len(bs[0].b) != 5 or bs[0].b[4] == NONE:
            continue
        h = bs[0].b[4]
        name_eq = (("cmp", "Eq", ("unpack", HDRS, 0), ("const", b"host")), True) in pa.facts or (("cmp", "Eq", ("const", b"host"), ("unpack", HDRS, 0)), True) in pa.facts

        def decoded_value(x):
            return x[0] == "call" and x[1] == ("attr", ("unpack", HDRS, 1), "decode") and x[2][:1] in ((("const", "latin-1"),), (("const", "latin1"),), (("const", "iso-8859-1"),))

        val_ok = decoded_value(h)
        # the same scan written as next(<generator over the pairs named b"host">, None): first match, else None
        if h[0] == "call" and h[1] == ("builtin", "next") and len(h[2]) == 2 and h[2][1] == NONE and h[2][0][0] == "comp" and h[2][0][1] == "gen":
            g = h[2][0]
            conds = g[4]
            if g[3] == HDRS[1] and decoded_value(g[2]) and len(conds) == 1 and conds[0] in (("cmp", "Eq", ("unpack", HDRS, 0), ("const", b"host")), ("cmp", "Eq", ("const", b"host"), ("unpack", HDRS, 0))):
                name_eq = val_ok = True
        if name_eq and val_ok:
            host_ok = True
        else:
            host_bad = True
    if host_ok and not host_bad:
        rep.ok(rule, "scope: the Host header is the Latin-1 decoded value of the scope['headers'] pair named b'host'")
    else:
        rep.violation(rule, construct(init, text="host header scan"), where(init), "the scope branch does not read the b'host' header")
