"""The header mapping's constructor, shared by several properties (C02 own header store per response, C16 the Cookie
header reaches the cookie parser verbatim, C20 header values survive the capture in a middleware, C13):

  headers_ctor_own_store     Headers.__init__ builds its own store: `self._dict` is a dict created in the constructor, never
                             an attribute of the argument (sharing would alias two responses' headers)
  headers_ctor_passthrough   every value is stored as given; the only rewriting is lower-casing the NAME and joining repeated
                             names with ", " - no normalisation of values (whitespace collapsing, stripping, case)

Each yields (kind, fn, node, construct text, message) with kind in ok | violation | undecided.
"""
from __future__ import annotations

import ast
from typing import List, Optional, Tuple

from ..common import ctor_aliases, narrow_mapping_tests
from ..loader import AnalysisError, FuncInfo, Program

DS = "baize.datastructures"
Item = Tuple[str, FuncInfo, Optional[ast.AST], str, str]


def _init(p: Program) -> FuncInfo:
    h = p.cls(f"{DS}:Headers")
    init = h.methods.get("__init__")
    if init is None:
        raise AnalysisError("Headers.__init__ vanished")
    return init


def headers_ctor_own_store(p: Program) -> List[Item]:
    init = _init(p)
    out: List[Item] = []
    al = ctor_aliases(init)
    for node, desc in al:
        out.append(("violation", init, node, "aliases the argument: " + desc,
                    f"Headers.__init__ stores an attribute of its argument ({desc}): a MutableHeaders built from another header object - as every response does with the `headers=` it "
                    "is given - shares its store, so a header written on one response (Content-Range, Content-Length, ETag) appears on every other response built from the same object"))
    stores = [n for n in ast.walk(init.node) if isinstance(n, (ast.Assign, ast.AnnAssign))
              and any(isinstance(t, ast.Attribute) and isinstance(t.value, ast.Name) and t.value.id == "self" for t in (n.targets if isinstance(n, ast.Assign) else [n.target]))]
    if not stores:
        out.append(("undecided", init, None, "", "Headers.__init__ stores nothing on self"))
        return out
    if not al:
        fresh = True
        for s_ in stores:
            v = s_.value
            if isinstance(v, ast.Name):
                # follow locals that are only ever bound by plain assignments (a helper spliced in leaves `ret = store`)
                from ..common import defs_of
                ds = [d for d in defs_of(init, v, depth=4) if not (isinstance(d, ast.Constant) and d.value is None)]
                if not ds or not all(isinstance(d, (ast.Dict, ast.DictComp)) or (isinstance(d, ast.Call) and isinstance(d.func, ast.Name) and d.func.id == "dict") for d in ds):
                    fresh = False
            elif not (isinstance(v, (ast.Dict, ast.DictComp)) or (isinstance(v, ast.Call) and isinstance(v.func, ast.Name) and v.func.id == "dict")):
                fresh = False
        if fresh:
            out.append(("ok", init, None, "", "Headers.__init__: the store is a dict created by the constructor itself"))
        else:
            out.append(("undecided", init, None, "", "Headers.__init__: the object stored on self is not recognisably a dict created in the constructor"))
    for node, desc in narrow_mapping_tests(p, init):
        out.append(("violation", init, node, "mapping branch narrowed", f"Headers.__init__: {desc}: a Mapping that is not a dict is iterated as pairs"))
    return out


def headers_ctor_passthrough(p: Program) -> List[Item]:
    """Decided on the paths of the constructor (private helpers inlined): every store into the dict that becomes the header
    store has as key `<name of the pair>.lower()` and as value either the pair's value itself or `<what was there>, <value>`."""
    from ..collect import run_paths
    from ..flow import show, strparts, subterms

    init = _init(p)
    out: List[Item] = []
    paths, col, it = run_paths(p, init, p.cls(f"{DS}:Headers"))
    n_item = 0
    bad = False
    seen_bad = set()

    def pair_part(t, idx):
        return t[0] == "unpack" and t[2] == idx and t[1][0] == "elem"

    for pa in paths:
        if pa.exit != "return":
            continue
        prev_vals = []
        for e in pa.events:
            if e.kind != "store" or e.a[0] != "sub":
                continue
            base, key, val = e.a[1], e.a[2], e.b
            if base[0] not in ("dict", "call", "comp") and not (base[0] == "attr" and base[1] == ("param", "self")):
                continue
            node, _fn = col.nodes.get(e.tag, (None, init))
            n_item += 1
            txt = " ".join(ast.unparse(node).split())[:60] if node is not None else show(val)[:60]
            # the key: <pair name>.lower()
            okk = key[0] == "call" and key[1][0] == "attr" and key[1][2] == "lower" and not key[2] and pair_part(key[1][1], 0)
            if not okk:
                if ("k", txt) not in seen_bad:
                    seen_bad.add(("k", txt))
                    bad = True
                    out.append(("violation", init, node, f"name rewritten: {txt}", "Headers.__init__ rewrites header names by something other than lower-casing"))
                continue
            okv = pair_part(val, 1)
            if not okv:
                parts = strparts(val)
                if parts is not None and len(parts) >= 3 and parts[-2] == ("const", ", ") and pair_part(parts[-1], 1) and parts[-1][1] == key[1][1][1]:
                    pre = parts[:-2]
                    if len(pre) == 1:
                        old = pre[0]
                        okv = old in prev_vals or (old[0] == "sub" and old[2] == key) or (old[0] == "call" and old[1][0] == "attr" and old[1][2] == "get" and old[2] and old[2][0] == key) \
                            or show(old).startswith("loop") or any(st_[0] == "sub" and st_[2] == key for st_ in subterms(old))
                    else:
                        okv = any((strparts(pv) or [pv]) == pre for pv in prev_vals)
            elif val[1] != key[1][1][1]:
                okv = False  # the value of another pair
            prev_vals.append(val)
            if not okv:
                if ("v", txt) not in seen_bad:
                    seen_bad.add(("v", txt))
                    bad = True
                    rewritten = any(pair_part(t, 1) for t in subterms(val))
                    out.append(("violation", init, node, (f"value rewritten: {txt}" if rewritten else f"stored value: {txt}"),
                                f"Headers.__init__ stores something other than the given value or the fold `old, new` of a repeated name ({txt}): what a request accessor parses (the Cookie "
                                "header: a quoted value containing two spaces) or a middleware relays is no longer the text that was sent"))
    if n_item == 0:
        out.append(("undecided", init, None, "", "Headers.__init__: no store of a (name, value) pair into the header store found on any path"))
    elif not bad:
        out.append(("ok", init, None, "", f"Headers.__init__ stores every value as given (names lower-cased, repeated names joined with ', ') on {len(paths)} paths"))
    return out


def headers_ctor_folds(p: Program) -> List[Item]:
    """Names that differ only in case are ONE header: the constructor folds a repeated (lower-cased) name into `old, new`. A store
    that cannot fold - a dict comprehension / dict(generator) keyed by `<name>.lower()` (the later pair silently replaces the
    earlier one), or a plain `store[name] = value` that no membership test of the name guards - loses a value whenever two given
    names collide after lower-casing ({**required_headers, **headers} with `cache-control` next to `Cache-Control`)."""
    from ..common import with_helpers

    init = _init(p)
    out: List[Item] = []
    n_ok = 0
    for fn in with_helpers(p, init):
        for n in ast.walk(fn.node):
            comp = None
            if isinstance(n, ast.DictComp):
                comp, key = n, n.key
            elif isinstance(n, ast.Call) and isinstance(n.func, ast.Name) and n.func.id == "dict" and n.args and isinstance(n.args[0], (ast.GeneratorExp, ast.ListComp)) \
                    and isinstance(n.args[0].elt, ast.Tuple) and len(n.args[0].elt.elts) == 2:
                comp, key = n, n.args[0].elt.elts[0]
            if comp is not None and isinstance(key, ast.Call) and isinstance(key.func, ast.Attribute) and key.func.attr in ("lower", "casefold"):
                out.append(("violation", fn, comp, "header store built by a comprehension keyed by lower-cased names",
                            f"Headers.__init__ builds the store with `{' '.join(ast.unparse(comp).split())[:70]}`: two given names that differ only in case collide and the later one "
                            "silently replaces the earlier instead of being folded into `old, new` - {**required_headers, **headers} with `cache-control` next to `Cache-Control` loses the "
                            "required value, a `content-type` next to `Content-Type` loses the charset declaration"))
            if isinstance(n, ast.Assign) and len(n.targets) == 1 and isinstance(n.targets[0], ast.Subscript) and isinstance(n.value, ast.Name):
                # only the pair's own value (a name bound by the enclosing loop's target): a local computed from it (`merged`) is a
                # fold result that headers_ctor_passthrough judges
                lp_ = getattr(n, "_parent", None)
                while lp_ is not None and not isinstance(lp_, ast.For):
                    lp_ = getattr(lp_, "_parent", None)
                if lp_ is None or n.value.id not in {x.id for x in ast.walk(lp_.target) if isinstance(x, ast.Name)}:
                    continue
                tgt = n.targets[0]
                k = tgt.slice
                ktxt, btxt = ast.unparse(k), ast.unparse(tgt.value)
                q = getattr(n, "_parent", None)
                in_loop = False
                guarded = False
                while q is not None and q is not fn.node:
                    if isinstance(q, (ast.For, ast.While)):
                        in_loop = True
                    if isinstance(q, ast.If):
                        for c in ast.walk(q.test):
                            if isinstance(c, ast.Compare) and len(c.ops) == 1 and isinstance(c.ops[0], (ast.In, ast.NotIn)) and ast.unparse(c.left) == ktxt and ast.unparse(c.comparators[0]) == btxt:
                                guarded = True
                    if isinstance(q, ast.Try):
                        guarded = True  # EAFP fold: try: store[k] = store[k] + ... except KeyError: store[k] = v
                    q = getattr(q, "_parent", None)
                if not in_loop:
                    continue
                if not guarded:
                    # `if name in store: value = f"{store[name]}, {value}"` followed by ONE store: the membership test is a sibling
                    # statement of the store inside the same loop body
                    for c in ast.walk(lp_):
                        if isinstance(c, ast.Compare) and len(c.ops) == 1 and isinstance(c.ops[0], (ast.In, ast.NotIn)) and ast.unparse(c.left) == ktxt and ast.unparse(c.comparators[0]) == btxt \
                                and c.lineno <= n.lineno:
                            guarded = True
                if guarded:
                    n_ok += 1
                else:
                    out.append(("violation", fn, n, f"unguarded store {ktxt}",
                                f"Headers.__init__ stores `{' '.join(ast.unparse(n).split())[:60]}` for every pair without asking whether the (lower-cased) name is already present: "
                                "a repeated name - two spellings of one header in a mapping, two lines of one header in a list - keeps only the last value instead of `old, new`"))
    if not out:
        if n_ok:
            out.append(("ok", init, None, "", f"Headers.__init__ folds a repeated lower-cased name ({n_ok} guarded plain store(s), no comprehension-built store)"))
        else:
            # the fold is written in another idiom (try/except KeyError around the lookup, setdefault, a merged local ...): the values
            # that are stored are judged on the paths by headers_ctor_passthrough; this rule only names the constructs that cannot fold
            out.append(("ok", init, None, "", "Headers.__init__: no store that cannot fold a repeated name (comprehension-built store / unguarded plain store of the pair value) found"))
    return out


def multi_header_scan_breaks(fn):
    """Loops `for k, v in <scope>["headers"]` of `fn` that look for TWO OR MORE header names and contain a `break` / `return`:
    whichever header comes after the one that ends the scan is never read (header order is the client's choice).
    Returns [(loop, leaving statement, names)]."""
    import ast as _ast

    out = []
    for lp in _ast.walk(fn.node):
        if not isinstance(lp, (_ast.For, _ast.AsyncFor)) or "headers" not in _ast.unparse(lp.iter):
            continue
        names = {c.value for n in _ast.walk(lp) if isinstance(n, _ast.Compare) for c in [n.left] + n.comparators if isinstance(c, _ast.Constant) and isinstance(c.value, bytes)}
        if len(names) < 2:
            continue
        for n in _ast.walk(lp):
            if isinstance(n, (_ast.Break, _ast.Return)):
                inner = n
                q = getattr(n, "_parent", None)
                nested_loop = False
                while q is not None and q is not lp:
                    if isinstance(q, (_ast.For, _ast.AsyncFor, _ast.While, _ast.FunctionDef, _ast.AsyncFunctionDef, _ast.Lambda)):
                        nested_loop = True
                    q = getattr(q, "_parent", None)
                if not nested_loop:
                    out.append((lp, inner, sorted(names)))
    return out
