"""The header mapping's constructor, shared by several properties (C02 own header store per response, C16 the Cookie
header reaches the cookie parser verbatim, C20 header values survive the capture in a middleware, C13):

  headers_ctor_own_store     Headers.__init__ builds its own store: `self._dict` is a dict created in the constructor, never
                             an attribute of the argument (sharing would alias two responses' headers)
  headers_ctor_passthrough   every value is stored as given; the only rewriting is lower-casing the NAME and joining repeated
                             names with ", " - no normalisation of values (whitespace collapsing, stripping, case)

Each yields (kind, fn, node, construct text, message) with kind in ok | violation | undecided.
"""
from __future__ import annotations

import ast
from typing import List, Optional, Tuple

from ..common import ctor_aliases, narrow_mapping_tests
from ..loader import AnalysisError, FuncInfo, Program

DS = "baize.datastructures"
Item = Tuple[str, FuncInfo, Optional[ast.AST], str, str]


def _init(p: Program) -> FuncInfo:
    h = p.cls(f"{DS}:Headers")
    init = h.methods.get("__init__")
    if init is None:
        raise AnalysisError("Headers.__init__ vanished")
    return init


def headers_ctor_own_store(p: Program) -> List[Item]:
    init = _init(p)
    out: List[Item] = []
    al = ctor_aliases(init)
    for node, desc in al:
        out.append(("violation", init, node, "aliases the argument: " + desc,
                    f"Headers.__init__ stores an attribute of its argument ({desc}): a MutableHeaders built from another header object - as every response does with the `headers=` it "
                    "is given - shares its store, so a header written on one response (Content-Range, Content-Length, ETag) appears on every other response built from the same object"))
    stores = [n for n in ast.walk(init.node) if isinstance(n, (ast.Assign, ast.AnnAssign))
              and any(isinstance(t, ast.Attribute) and isinstance(t.value, ast.Name) and t.value.id == "self" for t in (n.targets if isinstance(n, ast.Assign) else [n.target]))]
    if not stores:
        out.append(("undecided", init, None, "", "Headers.__init__ stores nothing on self"))
        return out
    if not al:
        fresh = True
        for s_ in stores:
            v = s_.value
            if isinstance(v, ast.Name):
                defs = [n for n in ast.walk(init.node) if isinstance(n, (ast.Assign, ast.AnnAssign)) and any(isinstance(t, ast.Name) and t.id == v.id for t in (n.targets if isinstance(n, ast.Assign) else [n.target]))]
                if not defs or not all(isinstance(d.value, (ast.Dict, ast.DictComp)) or (isinstance(d.value, ast.Call) and isinstance(d.value.func, ast.Name) and d.value.func.id == "dict") for d in defs if d.value is not None):
                    fresh = False
            elif not (isinstance(v, (ast.Dict, ast.DictComp)) or (isinstance(v, ast.Call) and isinstance(v.func, ast.Name) and v.func.id == "dict")):
                fresh = False
        if fresh:
            out.append(("ok", init, None, "", "Headers.__init__: the store is a dict created by the constructor itself"))
        else:
            out.append(("undecided", init, None, "", "Headers.__init__: the object stored on self is not recognisably a dict created in the constructor"))
    for node, desc in narrow_mapping_tests(p, init):
        out.append(("violation", init, node, "mapping branch narrowed", f"Headers.__init__: {desc}: a Mapping that is not a dict is iterated as pairs"))
    return out


def headers_ctor_passthrough(p: Program) -> List[Item]:
    init = _init(p)
    out: List[Item] = []
    loops = [n for n in ast.walk(init.node) if isinstance(n, ast.For) and isinstance(n.target, ast.Tuple) and len(n.target.elts) == 2 and all(isinstance(e, ast.Name) for e in n.target.elts)]
    if len(loops) != 1:
        out.append(("undecided", init, None, "", f"Headers.__init__: expected one `for name, value in ...` loop, found {len(loops)}"))
        return out
    lp = loops[0]
    kname, vname = lp.target.elts[0].id, lp.target.elts[1].id
    bad = False
    for n in ast.walk(lp):
        tg = []
        if isinstance(n, ast.Assign):
            tg = [(t, n.value) for t in n.targets]
        elif isinstance(n, (ast.AugAssign, ast.AnnAssign)) and n.value is not None:
            tg = [(n.target, n.value)]
        for t, v in tg:
            if isinstance(t, ast.Name) and t.id == vname:
                bad = True
                out.append(("violation", init, n, f"value rewritten: {' '.join(ast.unparse(n).split())[:60]}",
                            f"Headers.__init__ rewrites header VALUES ({' '.join(ast.unparse(n).split())[:60]}): what a request accessor parses (the Cookie header: a quoted value containing two spaces) or a "
                            "middleware relays is no longer the text that was sent"))
            elif isinstance(t, ast.Name) and t.id == kname:
                if not (isinstance(v, ast.Call) and isinstance(v.func, ast.Attribute) and v.func.attr == "lower" and isinstance(v.func.value, ast.Name) and v.func.value.id == kname and not v.args):
                    bad = True
                    out.append(("violation", init, n, f"name rewritten: {' '.join(ast.unparse(n).split())[:60]}", "Headers.__init__ rewrites header names by something other than lower-casing"))
            elif isinstance(t, ast.Subscript):
                # store[name] = value | f"{store[name]}, {value}"
                okv = isinstance(v, ast.Name) and v.id == vname
                if isinstance(v, ast.JoinedStr):
                    parts = v.values
                    okv = len(parts) == 3 and isinstance(parts[1], ast.Constant) and parts[1].value == ", " and isinstance(parts[2], ast.FormattedValue) and isinstance(parts[2].value, ast.Name) \
                        and parts[2].value.id == vname and parts[2].conversion == -1 and parts[2].format_spec is None and isinstance(parts[0], ast.FormattedValue) and isinstance(parts[0].value, ast.Subscript)
                if isinstance(v, ast.BinOp) and isinstance(v.op, ast.Add):
                    okv = ast.unparse(v).replace('"', "'").endswith(f"+ ', ' + {vname}")
                if not okv:
                    bad = True
                    out.append(("violation", init, n, f"stored value: {ast.unparse(v)[:50]}", "Headers.__init__ stores something other than the given value (or the fold `old, new` of a repeated name)"))
    if not bad:
        out.append(("ok", init, None, "", "Headers.__init__ stores every value as given (names lower-cased, repeated names joined with ', ')"))
    return out
