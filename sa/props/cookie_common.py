"""Shared extraction of the cookie writer (legal set, translator table, _quote shape) for C13/C16."""
from __future__ import annotations

import ast
from dataclasses import dataclass
from typing import Dict, List, Optional, Set, Tuple

from .. import rx
from ..collect import run_paths
from ..common import construct, where
from ..flow import show, strparts
from ..fold import Folder, NotConst
from ..loader import AnalysisError, FuncInfo, Program
from ..report import Report, Undecided

DS = "baize.datastructures"


@dataclass
class CookieWriter:
    legal: str  # chars for which the fast (unquoted) path is taken: L(is_legal) = legal+
    translator: Dict[int, str]
    quote_fn: FuncInfo
    legal_name: str
    translator_name: str
    translator_loc: str
    legal_loc: str


def extract_writer(p: Program, rep: Report, rule: str) -> CookieWriter:
    F = Folder(p)
    mod = p.module(DS)
    cookie = p.cls(f"{DS}:Cookie")
    quote = p.find_method(cookie, "_quote")
    if quote is None:
        raise AnalysisError("Cookie._quote vanished")
    # a _quote that only delegates (`return _cookie_quote(value)`) is its delegate
    own_cls = cookie
    for _ in range(3):
        body_ = [st_ for st_ in quote.node.body if not (isinstance(st_, ast.Expr) and isinstance(st_.value, ast.Constant))]
        vname_ = quote.params[1] if (quote.cls is not None and "staticmethod" not in quote.decorators and len(quote.params) > 1) else (quote.params[0] if quote.params else None)
        if len(body_) == 1 and isinstance(body_[0], ast.Return) and isinstance(body_[0].value, ast.Call) and len(body_[0].value.args) == 1 and not body_[0].value.keywords \
                and isinstance(body_[0].value.args[0], ast.Name) and body_[0].value.args[0].id == vname_:
            tgt_ = p.resolve_call(quote, body_[0].value, own_cls)
            if isinstance(tgt_, FuncInfo) and tgt_ is not quote:
                quote = tgt_
                own_cls = tgt_.cls
                continue
        break
    rep.analysed(quote.fq)
    vname = quote.params[1] if (quote.cls is not None and "staticmethod" not in quote.decorators and len(quote.params) > 1) else (quote.params[0] if quote.params else "value")
    VALUE = ("param", vname)
    paths, col, it = run_paths(p, quote, own_cls, inline=lambda fi: False)  # the predicate helpers are what is analysed below
    rep.cfg_paths += len(paths)
    rets = [pa for pa in paths if pa.exit == "return"]
    fast = [pa for pa in rets if pa.value == VALUE]
    slow = [pa for pa in rets if pa.value != VALUE]
    if not fast or len({pa.value for pa in slow}) != 1:
        raise Undecided(f"{rule}: Cookie._quote no longer has an unquoted return path and exactly one quoted return form")
    # str predicates that hold iff the string is non-empty and every character satisfies them
    CHARWISE = ("isalnum", "isalpha", "isdigit", "isdecimal", "isnumeric")
    pred_loc = where(quote)
    pred_name = "?"
    regex_preds = {}

    def compiled_pattern(e: ast.expr):
        """re.compile(<const>) or a module constant holding one -> folded pattern"""
        if isinstance(e, ast.Name) and e.id in mod.constants:
            e = mod.constants[e.id]
        if isinstance(e, ast.Call) and p.resolve_dotted(mod, e.func) == ("ext", "re.compile") and e.args:
            try:
                return F.fold(mod, e.args[0])
            except NotConst as ex:
                raise Undecided(f"{rule}: legal-character pattern is not a foldable constant ({ex})")
        return None

    def regex_predicate(f):
        """(pattern, method, name, loc) of a `<compiled>.fullmatch|match|search`(value) guard, through a module constant or a helper"""
        nonlocal pred_loc, pred_name
        pattern = method = None
        name = f[1][1].split(":")[-1]
        loc = where(quote)
        if f[1][0] == "global" and name in mod.constants:
            pe = mod.constants[name]
            loc = f"{mod.relpath}:{pe.lineno}"
            if isinstance(pe, ast.Attribute) and pe.attr in ("fullmatch", "match", "search"):
                pattern, method = compiled_pattern(pe.value), pe.attr
        elif f[1][0] == "func":
            hf = p.func(f[1][1])
            loc = hf.loc
            rep.analysed(hf.fq)
            for n in ast.walk(hf.node):
                if isinstance(n, ast.Call) and isinstance(n.func, ast.Attribute) and n.func.attr in ("fullmatch", "match", "search") and n.args and isinstance(n.args[0], ast.Name) and n.args[0].id == hf.params[0]:
                    pattern, method = compiled_pattern(n.func.value), n.func.attr
                if isinstance(n, ast.Call) and isinstance(n.func, ast.Attribute) and p.resolve_dotted(mod, n.func) in (("ext", "re.fullmatch"), ("ext", "re.match"), ("ext", "re.search")) and len(n.args) >= 2:
                    try:
                        pattern, method = F.fold(mod, n.args[0]), n.func.attr
                    except NotConst:
                        pass
        if pattern is None or method is None:
            raise Undecided(f"{rule}: the guard of the unquoted path ({show(f)[:60]}) is not a compiled-regex fullmatch/match/search of a constant pattern")
        if not isinstance(pattern, str):
            raise Undecided(f"{rule}: legal-character pattern is not a str")
        pred_loc, pred_name = loc, name
        return pattern, method, name, loc

    def regex_chars(f):
        """the set of characters c with predicate(chr(c)) true; reports a predicate whose language is not <its chars>+"""
        key = f
        if key in regex_preds:
            return regex_preds[key]
        pattern, method, name, loc = regex_predicate(f)
        # ---- the language of strings that take the unquoted path, anchors and method semantics included
        core = pattern
        if core.startswith("^"):
            core = core[1:]
        elif core.startswith("\\A"):
            core = core[2:]
        dollar = zed = False
        if core.endswith("$") and not core.endswith("\\$"):
            core, dollar = core[:-1], True
        elif core.endswith("\\Z"):
            core, zed = core[:-2], True
        ANY = "[\\x00-\\U0010ffff]*"
        if method == "fullmatch":
            eff = f"(?:{core})"
        elif method == "match":
            eff = f"(?:{core})" + ("\\n?" if dollar else ("" if zed else ANY))
        else:
            eff = ANY + f"(?:{core})" + ("\\n?" if dollar else ("" if zed else ANY))
        try:
            r = rx.Regex(eff)
            al = rx.alphabet_for([r])
            d = rx.compile_dfa(r, al)
            chars = [c for c in al if d.accepts([c])]
            if not chars:
                # not a per-character predicate at all (e.g. "is already a quoted-string"). What can still be decided is the
                # necessary condition: no string that takes the unquoted path contains a character that ends the cookie pair or
                # the header line (controls, ';') - an intersection of two regular languages
                bad_r = rx.Regex("[\\x00-\\U0010ffff]*[\\x00-\\x1f\\x7f;][\\x00-\\U0010ffff]*")
                al2 = rx.alphabet_for([r, bad_r])
                both = rx.intersect(rx.compile_dfa(r, al2), rx.compile_dfa(bad_r, al2))
                w0 = both.shortest()
                if w0 is not None:
                    rep.violation(rule, construct(f"{DS}:{name}", text=f"{method}({pattern[:40]!r})"), loc,
                                  f"the unquoted cookie path is taken for {rx.show(w0)}: every string accepted by `{method}` of {pattern[:50]!r} is emitted raw, and that language contains "
                                  "control characters / ';' (an attacker-shaped value injects cookie attributes or splits the header)", witness=rx.show(w0), positive=True)
                raise Undecided(f"{rule}: the unquoted-path predicate accepts no single character")
            ref = rx.Regex("[" + "".join("\\x%02x" % c if c < 256 else "\\u%04x" % c for c in chars) + "]+")
            d2 = rx.compile_dfa(ref, al)
            w1 = rx.difference_witness(d, d2)
            if w1 is not None or d.accepts_empty():
                wit = rx.show(w1) if w1 is not None else "''"
                rep.violation(rule, construct(f"{DS}:{name}", text=f"{method}({pattern[:40]!r})"), loc,
                              f"the unquoted cookie path is taken for {wit}: the predicate `{method}` of {pattern[:50]!r} accepts more than non-empty strings over its own character set "
                              "(a value such as a legal token followed by a line feed is emitted raw)", witness=wit)
                raise Undecided(f"{rule}: table check not continued with a leaky unquoted-path predicate")
        except rx.Unsupported as e:
            raise Undecided(f"{rule}: {e}")
        regex_preds[key] = set(chars)
        return regex_preds[key]

    def fact_chars(f, t):
        """characters c for which the guard fact (f is t) holds of the one-character string chr(c); None = no constraint on characters"""
        universe = set(range(256))
        if f[0] == "not":
            return fact_chars(f[1], not t)
        if f[0] == "call" and f[2] == (VALUE,) and f[1][0] in ("global", "func"):
            cs = regex_chars(f) & universe
            return cs if t else universe - cs
        if f[0] == "call" and f[1][0] == "attr" and f[1][1] == VALUE and not f[2] and f[1][2] in CHARWISE:
            cs = {c for c in universe if getattr(chr(c), f[1][2])()}
            return cs if t else universe - cs
        if f[0] == "call" and f[1] == ("attr", VALUE, "isascii") and not f[2]:
            cs = {c for c in universe if c < 128}
            return cs if t else universe - cs
        if f == VALUE:
            return universe if t else set()
        raise Undecided(f"{rule}: unrecognised guard of the unquoted path: {show(f)[:70]}")

    legal_set = set()
    n_positive = 0
    for pa in fast:
        cs = set(range(256))
        pos = 0
        for f, t in pa.facts:
            fc = fact_chars(f, t)
            cs &= fc
            if t and f != VALUE:
                pos += 1
        if pos == 0:
            raise Undecided(f"{rule}: an unquoted return path of Cookie._quote has no positive character predicate: {pa.fact_text()}")
        n_positive += pos
        legal_set |= cs
    if pred_name == "?":
        # no regex predicate at all: still name something for the report
        pred_name = next(iter(mod.constants))
    legal_chars = sorted(legal_set)
    if not legal_chars:
        raise Undecided(f"{rule}: the unquoted-path predicates accept no single character")
    legal = "".join(chr(c) for c in legal_chars)
    # slow path: '"' + value.translate(<table>) + '"'
    v = slow[0].value
    vp = strparts(v) or []
    ok = (len(vp) == 3 and vp[0] == ("const", '"') and vp[2] == ("const", '"')
          and vp[1][0] == "call" and vp[1][1] == ("attr", VALUE, "translate") and len(vp[1][2]) == 1 and vp[1][2][0][0] == "global")
    tr_call = vp[1] if ok else None
    if not ok:
        raise Undecided(f"{rule}: unrecognised quoted path {show(v)}")
    tname = tr_call[2][0][1].split(":")[-1]
    try:
        table = F.module_const(DS, tname)
    except NotConst as e:
        raise Undecided(f"{rule}: translator table is not a foldable constant ({e})")
    if isinstance(table, dict) and table and any(isinstance(k, str) for k in table):
        # str.translate looks entries up by CODE POINT (int): a table keyed by characters is never consulted
        bad_k = next(k for k in table if isinstance(k, str))
        rep.violation(rule, construct(f"{DS}:{tname}", text="translation table keyed by characters"), f"{mod.relpath}:{mod.constants[tname].lineno}",
                      f"the cookie escape table {tname} has str keys ({bad_k!r}, ...): str.translate() looks code points up as ints, so no character is ever escaped - "
                      "a value containing ';', CR, LF or NUL is emitted raw inside the quotes")
        raise Undecided(f"{rule}: table check not continued with a translation table that str.translate never consults")
    if not isinstance(table, dict) or not all(isinstance(k, int) and isinstance(x, str) for k, x in table.items()):
        raise Undecided(f"{rule}: translator table is not a dict[int, str]")
    legal_name = "_cookie_legal_chars" if "_cookie_legal_chars" in mod.constants else (pred_name if pred_name in mod.constants else next(iter(mod.constants)))
    return CookieWriter(legal, table, quote, legal_name, tname,
                        f"{mod.relpath}:{mod.constants[tname].lineno}", f"{mod.relpath}:{mod.constants[legal_name].lineno}")


def emitted(w: CookieWriter, c: int) -> str:
    return w.translator.get(c, chr(c))


def cookie_bytes_rule(p: Program):
    """Cookie.__bytes__ is the strict ASCII (or Latin-1) encoding of str(self): (kind, fn, node, construct text, message).
    An `errors=` handler other than 'strict' SUBSTITUTES text for what cannot be encoded ('&#20320;', '\\\\u4f60', '?'): the
    substitute is written after the escaper ran, so it can carry a ';' (a new attribute) into the header line."""
    cookie = p.cls(f"{DS}:Cookie")
    b = cookie.methods.get("__bytes__")
    if b is None:
        return ("undecided", None, None, "", "Cookie.__bytes__ vanished")
    paths, _c, _i = run_paths(p, b, cookie)
    rets = [pa for pa in paths if pa.exit == "return"]
    if not rets:
        return ("undecided", b, None, "", "Cookie.__bytes__ has no returning path")
    for pa in rets:
        v = pa.value
        ok_recv = v[0] == "call" and v[1][0] == "attr" and v[1][2] == "encode" and (
            (v[1][1][0] == "call" and v[1][1][1] in (("ext", "str"), ("builtin", "str")) and v[1][1][2] == (("param", "self"),))
            or (v[1][1][0] == "call" and v[1][1][1][0] in ("func", "attr") and str(v[1][1][1][-1]).endswith("__str__")))
        if not ok_recv:
            return ("violation", b, None, f"returns {show(v)[:60]}", "__bytes__ is not the ASCII encoding of str(self)")
        args = list(v[2])
        kw = dict(v[3])
        codec = args[0] if args else kw.get("encoding", ("const", "utf-8"))
        errors = args[1] if len(args) > 1 else kw.get("errors", ("const", "strict"))
        if codec[0] != "const" or str(codec[1]).lower().replace("_", "-") not in ("ascii", "us-ascii", "latin-1", "latin1", "iso-8859-1"):
            return ("violation", b, None, f"encode({show(codec)})", f"__bytes__ encodes the header line as {show(codec)}, not ASCII / Latin-1")
        if errors != ("const", "strict"):
            return ("violation", b, None, f"encode(errors={show(errors)})",
                    f"__bytes__ encodes str(self) with errors={show(errors)}: what cannot be encoded is replaced AFTER the escaper ran - "
                    "'xmlcharrefreplace' writes '&#NNNN;', whose ';' starts a new cookie attribute (a value such as 'a\\u4f60Path=/admin' injects Path); the round trip is lost as well")
    return ("ok", b, None, "", f"__bytes__ = {show(rets[0].value)[:60]} (strict): total because every emitted chunk is ASCII, and nothing is substituted after escaping")
